#!/bin/sh
# MANIFEST.setup_cmd: build the Lean side from files on disk only (offline).
# Builds the theorem modules and model drivers of every property claimed in MANIFEST.json.
# (Each check rebuilds its own targets anyway; this only warms the build cache.)
set -e
cd "$(dirname "$0")/.."
/venv/bin/python tools/translate.py /repo >/dev/null
IDS=$(/venv/bin/python -c "import json; print(' '.join(c['property_id'] for c in json.load(open('MANIFEST.json'))['checks']))")
cd lean
TARGETS=""
for id in $IDS; do
  lid=$(echo "$id" | tr 'A-Z' 'a-z')
  TARGETS="$TARGETS CsVerif.Props.$id drv_$lid"
done
lake build $TARGETS

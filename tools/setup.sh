#!/bin/sh
# MANIFEST.setup_cmd: build the Lean side from files on disk only (offline).
set -e
cd "$(dirname "$0")/.."
/venv/bin/python tools/translate.py /repo >/dev/null
cd lean
TARGETS=""
for f in CsVerif/Props/C*.lean; do
  m=$(basename "$f" .lean); TARGETS="$TARGETS CsVerif.Props.$m"
done
for f in Driver*.lean; do
  m=$(basename "$f" .lean | sed 's/^Driver//' | tr 'A-Z' 'a-z'); TARGETS="$TARGETS drv_$m"
done
lake build $TARGETS

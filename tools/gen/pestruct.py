"""Translator plug-in: the PE structure layouts of dissect/cobaltstrike/pe.py  →  lean/CsVerif/Gen/PeStruct.lean
(namespace `Gen.PeStruct`).

Everything is taken from the *loaded* cstruct object `pe.pestruct` (struct sizes, field offsets) and — for the
integer interpretation of a field (width, signedness, little endian) — *measured* by letting the real structure class
parse probe buffers (all-0xFF field ⇒ -1 means signed; bytes 01 02 .. ⇒ little endian value).

  structure Field (off size : Nat) (signed : Bool)
  dosHeaderSize, fileHeaderSize, opt32Size, opt64Size, sectionSize, exportDirSize, sigSize : Nat
  dosLfanew, fhMachine, fhNumberOfSections, fhTimeDateStamp,
  opt32SizeOfHeaders, opt32ExportVA, opt64SizeOfHeaders, opt64ExportVA,
  secVirtualSize, secVirtualAddress, secSizeOfRawData, secPointerToRawData, expTimeDateStamp : Field
  machineAmd64, machineI386, dirEntryExport : Nat
  dosHeaderX86, dosHeaderX64 : Bytes
"""
from __future__ import annotations

import importlib
import sys
from pathlib import Path


def _probe(struct_cls, path, off, size):
    """Check that the attribute reached by `path` is the little-endian integer stored at [off, off+size) and
    return its signedness."""
    total = struct_cls.size

    def get(buf):
        obj = struct_cls(bytes(buf))
        for p in path:
            obj = obj[p] if isinstance(p, int) else getattr(obj, p)
        return int(obj)

    zero = bytearray(total)
    if get(zero) != 0:
        raise ValueError(f"{struct_cls.__name__}.{path}: zero buffer parses to non-zero")
    # little endian, exactly these bytes
    buf = bytearray(b"\xAA" * total)
    for i in range(size):
        buf[off + i] = i + 1
    want = sum((i + 1) << (8 * i) for i in range(size))
    if get(buf) != want:
        raise ValueError(f"{struct_cls.__name__}.{path}: not a {size}-byte little-endian integer at offset {off}")
    ff = bytearray(total)
    for i in range(size):
        ff[off + i] = 0xFF
    v = get(ff)
    if v == -1:
        return True
    if v == (1 << (8 * size)) - 1:
        return False
    raise ValueError(f"{struct_cls.__name__}.{path}: unexpected value {v} for an all-0xFF field")


def _field(struct_cls, name):
    f = struct_cls.fields[name]
    off, size = f.offset, f.type.size
    if not isinstance(off, int) or not isinstance(size, int):
        raise ValueError(f"{struct_cls.__name__}.{name}: dynamic layout")
    return off, size, _probe(struct_cls, [name], off, size)


def _fmt(name, t):
    off, size, signed = t
    return f"def {name} : Field := ⟨{off}, {size}, {'true' if signed else 'false'}⟩"


def generate(repo: Path):
    if str(repo) not in sys.path:
        sys.path.insert(0, str(repo))
    pe = importlib.import_module("dissect.cobaltstrike.pe")
    ps = pe.pestruct
    if ps.endian != "<":
        raise ValueError(f"pestruct endianness is {ps.endian!r}")
    out = ["import CsVerif.Model.Basic", "", "namespace Gen.PeStruct", ""]
    out.append("/-- a little-endian integer field of a cstruct structure: byte offset, width, signedness (measured) -/")
    out.append("structure Field where")
    out.append("  off : Nat")
    out.append("  size : Nat")
    out.append("  signed : Bool")
    out.append("  deriving DecidableEq, Repr")
    out.append("")
    names = []

    def const(n, v):
        out.append(f"def {n} : Nat := {int(v)}")
        names.append(n)

    def field(n, t):
        out.append(_fmt(n, t))
        names.append(n)

    dos, fh = ps.IMAGE_DOS_HEADER, ps.IMAGE_FILE_HEADER
    o32, o64 = ps.IMAGE_OPTIONAL_HEADER, ps.IMAGE_OPTIONAL_HEADER64
    sec, exp, dd = ps.IMAGE_SECTION_HEADER, ps.IMAGE_EXPORT_DIRECTORY, ps.IMAGE_DATA_DIRECTORY
    const("dosHeaderSize", dos.size)
    const("fileHeaderSize", fh.size)
    const("opt32Size", o32.size)
    const("opt64Size", o64.size)
    const("sectionSize", sec.size)
    const("exportDirSize", exp.size)
    const("sigSize", ps.uint32.size)
    if int(ps.uint32(b"\xff\xff\xff\xff")) != 0xFFFFFFFF:
        raise ValueError("pestruct.uint32 is not an unsigned 32-bit integer")
    field("dosLfanew", _field(dos, "e_lfanew"))
    field("fhMachine", _field(fh, "Machine"))
    field("fhNumberOfSections", _field(fh, "NumberOfSections"))
    field("fhTimeDateStamp", _field(fh, "TimeDateStamp"))
    idx = int(ps.IMAGE_DIRECTORY_ENTRY_EXPORT)
    const("dirEntryExport", idx)
    for tag, o in (("opt32", o32), ("opt64", o64)):
        field(f"{tag}SizeOfHeaders", _field(o, "SizeOfHeaders"))
        ddf = o.fields["DataDirectory"]
        if ddf.type.type is not dd or ddf.type.num_entries <= idx:
            raise ValueError(f"{o.__name__}.DataDirectory is not an IMAGE_DATA_DIRECTORY array with > {idx} entries")
        va = dd.fields["VirtualAddress"]
        off = ddf.offset + idx * dd.size + va.offset
        field(f"{tag}ExportVA", (off, va.type.size, _probe(o, ["DataDirectory", idx, "VirtualAddress"], off, va.type.size)))
    field("secVirtualSize", _field(sec, "VirtualSize"))
    field("secVirtualAddress", _field(sec, "VirtualAddress"))
    field("secSizeOfRawData", _field(sec, "SizeOfRawData"))
    field("secPointerToRawData", _field(sec, "PointerToRawData"))
    field("expTimeDateStamp", _field(exp, "TimeDateStamp"))
    const("machineAmd64", ps.IMAGE_FILE_MACHINE_AMD64)
    const("machineI386", ps.IMAGE_FILE_MACHINE_I386)
    for n, b in (("dosHeaderX86", pe.DOSHEADER_X86), ("dosHeaderX64", pe.DOSHEADER_X64)):
        if not isinstance(b, bytes):
            raise ValueError(f"{n} is not bytes")
        out.append(f"def {n} : Bytes := [" + ", ".join(str(x) for x in b) + "]")
        names.append(n)
    out.append("")
    out.append("end Gen.PeStruct")
    return "PeStruct.lean", "\n".join(out) + "\n", names

"""Translator plug-in: `C2Profile.as_dict` (the token walk and the cache around it) and the block-builder API of
dissect/cobaltstrike/c2profile.py (C11), translated statement by statement from their *source* by the untyped translator
(tools/py2leanu.py) → lean/CsVerif/Gen/PyC2Dict.lean (namespace `Gen.PyC2Dict`).

`as_dict` is cut in two (checked here, `Unsupported` → proof obligation broken when the method does not have this shape):

    def as_dict(self):
        if self._dict_hash == hash(self.tree):            # (A) kept
            return self._dict_cache
        <simple assignments of literals>                  # (B) ─┐
        items = Reconstructor(c2profile_parser)._reconstruct(self.tree)        # (C)
        <statements that do not mention `self`, no `return`>                   # (D) ─┴→ `as_dict_walk(items)`: (B) + (D) + `return properties`
        self._dict_hash = hash(self.tree)                 # (E) kept
        self._dict_cache = dict(properties)
        return self._dict_cache

  as_dict_walk(items)      the statements (B) and (D), then `return properties` — the token walk over the item stream; `items` is
                           the list of the items the Reconstructor yields (a generator as the list of its yields: the generator
                           is taken to be run to its end before the walk starts)
  as_dict(self)            (A), `items = reconstruct_items(self.tree)`, `properties = as_dict_walk(items)`, (E): the method with
                           the walk replaced by the call of the function above.  (B) holds nothing but assignments of displays of
                           constants, so that moving (C) in front of it changes nothing.  `self` is the instance
                           `V.inst C2ProfileCls [tree, _dict_cache, _dict_hash]`, threaded (T11 self-mode: the definition answers
                           `(result, self afterwards)`).

EXTERNAL (parameters of the translated definitions): `string_token_to_bytes` (translated in Gen/PyC2Prof.lean, tied in
Props/C12Gen.lean), `reconstruct_items` = `Reconstructor(c2profile_parser)._reconstruct(tree)` (Lark; instantiated with the model's
`printItems`), `tree_hash` = `hash(tree)` (Lark's `Tree.__hash__`; the model assumes it injective on the trees of one history).
`logger.debug(…)` is evaluated for its arguments only.  `C2Profile.properties` is checked to be the property `return self.as_dict()`.

`lark.Token` is the class descriptor `Gen.PyC2Prof.Token` (attributes `type`, `value`); in this unit a Token is ALSO the `str` it
carries (`unit.t11`; run-time: Model/PyU_T11.lean).
"""
from __future__ import annotations

import ast
import builtins
import collections
import copy
import importlib
import inspect
import linecache
import logging
import sys
import textwrap
from pathlib import Path

TOKEN = "Gen.PyC2Prof.Token"
PROFILE_CID = 1101
TREE_CID = 1102
BLOCK_CID = 1103
DT_CID = 1104


def _dump(n) -> str:
    return ast.dump(n, annotate_fields=False, include_attributes=False)


def _stmt(src: str):
    return ast.parse(textwrap.dedent(src)).body[0]


def _no_doc(body):
    return [st for st in body if not (isinstance(st, ast.Expr) and isinstance(st.value, ast.Constant) and isinstance(st.value.value, str))]


class Synth:
    """synthetic functions: real function objects compiled from (copies of) statements of the source, with the module's globals"""

    def __init__(self, py2leanu, module):
        self.U = py2leanu.Unsupported
        self.module = module
        self.globs = dict(module.__dict__)
        self.sources = {}

    def bad(self, msg):
        return self.U("c2profile.py: " + msg)

    def make(self, name, params, body, doc):
        args = ast.arguments(posonlyargs=[], args=[ast.arg(arg=p) for p in params], kwonlyargs=[], kw_defaults=[], defaults=[])
        fd = ast.FunctionDef(name=name, args=args, body=[copy.deepcopy(s) for s in body], decorator_list=[], type_params=[])
        mod = ast.fix_missing_locations(ast.Module(body=[fd], type_ignores=[]))
        src = ast.unparse(mod) + "\n"
        filename = f"<py_c2dict:{name}>"
        code = compile(src, filename, "exec")
        linecache.cache[filename] = (len(src), None, src.splitlines(True), filename)
        exec(code, self.globs)
        fn = self.globs[name]
        fn.__doc__ = doc
        fn.__module__ = self.module.__name__
        fn.__qualname__ = doc
        self.sources[name] = src
        return fn


def _reconstruct_items(tree):
    """`Reconstructor(c2profile_parser)._reconstruct(tree)`"""
    raise NotImplementedError("only translated, never called")


def _method_def(S: Synth, cls, name) -> ast.FunctionDef:
    real = cls.__dict__.get(name)
    if not inspect.isfunction(real):
        raise S.bad(f"{cls.__name__}.{name} is not a plain function of the class")
    fd = ast.parse(textwrap.dedent(inspect.getsource(real))).body[0]
    if not isinstance(fd, ast.FunctionDef) or fd.decorator_list:
        raise S.bad(f"{cls.__name__}.{name}: decorators / not a def")
    a = fd.args
    if a.vararg or a.kwarg or a.posonlyargs or a.kwonlyargs or a.defaults:
        raise S.bad(f"{cls.__name__}.{name}: unexpected parameters")
    return fd


def slice_as_dict(S: Synth, M):
    """(as_dict_walk, as_dict) — see the module docstring"""
    import lark
    import lark.reconstruct
    C = M.C2Profile
    fd = _method_def(S, C, "as_dict")
    if [a.arg for a in fd.args.args] != ["self"]:
        raise S.bad("as_dict: parameters other than `self`")
    body = _no_doc(fd.body)
    head = _stmt("if self._dict_hash == hash(self.tree):\n    return self._dict_cache")
    tail = [_stmt("self._dict_hash = hash(self.tree)"), _stmt("self._dict_cache = dict(properties)"), _stmt("return self._dict_cache")]
    if len(body) < 6 or _dump(body[0]) != _dump(head) or [_dump(s) for s in body[-3:]] != [_dump(s) for s in tail]:
        raise S.bad("as_dict does not start with the cache test `if self._dict_hash == hash(self.tree): return self._dict_cache` and end "
                    "with `self._dict_hash = hash(self.tree)`, `self._dict_cache = dict(properties)`, `return self._dict_cache`")
    middle = body[1:-3]
    recon = _stmt("items = Reconstructor(c2profile_parser)._reconstruct(self.tree)")
    idx = [i for i, st in enumerate(middle) if _dump(st) == _dump(recon)]
    if len(idx) != 1:
        raise S.bad("as_dict: `items = Reconstructor(c2profile_parser)._reconstruct(self.tree)` not found exactly once at the top level")
    if M.__dict__.get("Reconstructor") is not lark.reconstruct.Reconstructor or not isinstance(M.__dict__.get("c2profile_parser"), lark.Lark):
        raise S.bad("Reconstructor / c2profile_parser are not Lark's Reconstructor / a Lark parser")
    before, after = middle[:idx[0]], middle[idx[0] + 1:]

    def literal(e) -> bool:
        if isinstance(e, ast.Constant):
            return True
        return isinstance(e, (ast.List, ast.Tuple)) and all(literal(x) for x in e.elts)

    for st in before:
        if not (isinstance(st, ast.Assign) and len(st.targets) == 1 and isinstance(st.targets[0], ast.Name) and literal(st.value)
                and st.targets[0].id != "items"):
            raise S.bad("as_dict: a statement in front of `items = …` that is not `name = <display of constants>`")
    for st in before + after:
        for n in ast.walk(st):
            if isinstance(n, ast.Name) and n.id in ("self", "as_dict_walk", "reconstruct_items"):
                raise S.bad("as_dict: the walk mentions `self` (or a name the slicing uses)")
            if isinstance(n, ast.Name) and n.id == "items" and not isinstance(n.ctx, ast.Load):
                raise S.bad("as_dict: `items` is assigned inside the walk")
            if isinstance(n, (ast.Return, ast.Yield, ast.YieldFrom, ast.Global, ast.Nonlocal, ast.FunctionDef, ast.Lambda, ast.ClassDef)):
                raise S.bad(f"as_dict: {type(n).__name__} inside the walk")
    stores = {n.id for st in before + after for n in ast.walk(st) if isinstance(n, ast.Name) and isinstance(n.ctx, ast.Store)}
    if "properties" not in stores:
        raise S.bad("as_dict: the walk does not assign `properties`")
    walk = S.make("as_dict_walk", ["items"], before + after + [_stmt("return properties")],
                  "C2Profile.as_dict [the token walk: the statements between the cache test and the cache update]")
    S.globs["reconstruct_items"] = _reconstruct_items
    wrapper = S.make("as_dict", ["self"],
                     [body[0], _stmt("items = reconstruct_items(self.tree)"), _stmt("properties = as_dict_walk(items)")] + body[-3:],
                     "C2Profile.as_dict [the cache around the walk]")
    # `properties` the property: `return self.as_dict()`
    prop = C.__dict__.get("properties")
    if not isinstance(prop, builtins.property) or prop.fset is not None or prop.fdel is not None:
        raise S.bad("C2Profile.properties is not a read-only property")
    pfd = ast.parse(textwrap.dedent(inspect.getsource(prop.fget))).body[0]
    if [_dump(s) for s in _no_doc(pfd.body)] != [_dump(_stmt("return self.as_dict()"))] or [a.arg for a in pfd.args.args] != ["self"]:
        raise S.bad("C2Profile.properties is not `return self.as_dict()`")
    return walk, wrapper


def profile_fields(S: Synth, M):
    """the attributes of a `C2Profile` object, in the order the constructors assign them"""
    p = M.C2Profile()
    fields = list(vars(p))
    if fields != ["tree", "_dict_cache", "_dict_hash"] or p._dict_cache != {} or p._dict_hash is not None:
        raise S.bad(f"a fresh C2Profile has the attributes {fields} (expected tree, _dict_cache = {{}}, _dict_hash = None)")
    for k in ("__setattr__", "__getattr__", "__getattribute__", "__slots__", "__delattr__"):
        if any(k in c.__dict__ for c in M.C2Profile.__mro__ if c is not object):
            raise S.bad(f"C2Profile / ConfigBlock define {k}")
    return fields


# ---------------------------------------------------------------------------------------------------------------------
# the block builders
# ---------------------------------------------------------------------------------------------------------------------
BLOCK_METHODS = ["set_config_block", "set_non_empty_config_block", "set_option", "_pair", "_enable", "_header", "_parameter"]


def _plain_method(S: Synth, cls, name):
    fn = cls.__dict__.get(name)
    if not inspect.isfunction(fn):
        raise S.bad(f"{cls.__name__}.{name} is not a plain function of the class")
    return fn


def _classmethod_body(S: Synth, cls, name, params):
    """a classmethod `def name(cls, <params>): block = cls(); <body>; return block` as the self-mode function
    `name(block, <params>)` with the body `<body>` (the construction of the empty block and the final `return block` are the
    caller's: the translated definition answers `(None, block afterwards)`)"""
    raw = cls.__dict__.get(name)
    if not isinstance(raw, classmethod):
        raise S.bad(f"{cls.__name__}.{name} is not a classmethod")
    fd = ast.parse(textwrap.dedent(inspect.getsource(raw.__func__))).body[0]
    if [ast.unparse(d) for d in fd.decorator_list] != ["classmethod"] or [a.arg for a in fd.args.args] != ["cls"] + params:
        raise S.bad(f"{cls.__name__}.{name}: not `@classmethod def {name}(cls, {', '.join(params)})`")
    a = fd.args
    if a.vararg or a.kwarg or a.posonlyargs or a.kwonlyargs or any(not (isinstance(d, ast.Constant) and d.value is None) for d in a.defaults):
        raise S.bad(f"{cls.__name__}.{name}: unexpected parameters / defaults")
    body = _no_doc(fd.body)
    if len(body) < 2 or _dump(body[0]) != _dump(_stmt("block = cls()")) or _dump(body[-1]) != _dump(_stmt("return block")):
        raise S.bad(f"{cls.__name__}.{name} does not start with `block = cls()` and end with `return block`")
    mid = body[1:-1]
    for st in mid:
        for n in ast.walk(st):
            if isinstance(n, (ast.Return, ast.Yield, ast.YieldFrom, ast.Global, ast.Nonlocal, ast.FunctionDef, ast.Lambda, ast.ClassDef)):
                raise S.bad(f"{cls.__name__}.{name}: {type(n).__name__} inside the body")
            if isinstance(n, ast.Name) and n.id == "cls":
                raise S.bad(f"{cls.__name__}.{name}: `cls` is used after the construction of the block")
            if isinstance(n, ast.Name) and n.id == "block" and not isinstance(n.ctx, ast.Load):
                raise S.bad(f"{cls.__name__}.{name}: `block` is assigned again")
    return S.make(f"{cls.__name__}_{name}", ["block"] + params, mid, f"{cls.__name__}.{name} [the statements between `block = cls()` and `return block`]")


def builders(S: Synth, M, unit, py2leanu):
    """`ConfigBlock.set_config_block / set_non_empty_config_block / set_option / _pair / _enable / _header / _parameter`,
    `C2Profile.set_option`, `DataTransformBlock.__init__ / add_step / add_termination / tree`, the bodies of
    `ExecuteOptionsBlock.from_execute_list` and `BeaconGateBlock.from_beacon_gate_option_strings` — in T11 self-mode: the block
    object is `V.inst <cls> [… tree …]`, a Lark `Tree(data, children)` is `V.inst TreeCls [data, children]`; `value_to_string` is
    EXTERNAL (translated in Gen/PyC2Prof.lean)."""
    import lark
    CB = M.ConfigBlock
    if M.__dict__.get("Tree") is not lark.Tree:
        raise S.bad("c2profile.Tree is not lark.Tree")
    t = M.Tree("d", ["c"])
    if (t.data, t.children) != ("d", ["c"]):
        raise S.bad("lark.Tree(data, children) does not keep its arguments as .data / .children")
    # which class defines which builder method: only `set_option` is overridden, and only by C2Profile
    for sub in [c for c in vars(M).values() if isinstance(c, type) and issubclass(c, CB) and c is not CB]:
        for m in BLOCK_METHODS + ["init_kwargs"]:
            if m in sub.__dict__ and not (m == "set_option" and sub is M.C2Profile):
                raise S.bad(f"{sub.__name__} overrides ConfigBlock.{m}")
    unit.registry["Tree"] = (M.Tree, "t11cls", ("TreeCls", ["data", "children"]))
    unit.registry["value_to_string"] = (M.value_to_string, "extern", ("value_to_string", 1, []))
    unit.t11_ctors = {"Token": ["type", "value"]}
    unit.prelude.append("/-- `lark.Tree(data, children)` -/\n"
                        f"def TreeCls : PyU.Cls := {{ cid := {TREE_CID}, fields := [\"data\", \"children\"], isTuple := false, bases := [] }}\n")
    unit.prelude.append("/-- a `ConfigBlock` object (any subclass without attributes of its own): the attribute `tree` -/\n"
                        f"def ConfigBlockCls : PyU.Cls := {{ cid := {BLOCK_CID}, fields := [\"tree\"], isTuple := false, bases := [] }}\n")
    unit.names += ["TreeCls", "ConfigBlockCls"]
    attrs = ["tree", "_dict_cache", "_dict_hash", "steps", "termination"]
    meths = {}
    unit.t11_self = ("self", attrs, meths)
    unit.owned_params = dict(getattr(unit, "owned_params", {}))

    def method(cls, name, lean_name):
        fn = _plain_method(S, cls, name)
        unit.owned_params[fn.__name__] = ["self"]
        unit.translate(fn, lean_name=lean_name)

    for m in ["set_config_block", "set_option", "_pair", "_enable", "_header", "_parameter"]:
        method(CB, m, f"ConfigBlock_{m}")
    meths["set_config_block"] = "ConfigBlock_set_config_block"
    method(CB, "set_non_empty_config_block", "ConfigBlock_set_non_empty_config_block")
    del meths["set_config_block"]
    method(M.C2Profile, "set_option", "C2Profile_set_option")

    # DataTransformBlock: attributes steps / termination, the property `tree`
    DT = M.DataTransformBlock
    own = sorted(k for k in DT.__dict__ if not (k.startswith("__") and k.endswith("__")) or k == "__init__")
    if own != sorted(["__init__", "add_step", "add_termination", "tree"]) or DT.__name__ != "DataTransformBlock":
        raise S.bad(f"DataTransformBlock defines {own}")
    dt = DT()
    if list(vars(dt)) != ["steps", "termination"]:
        raise S.bad(f"a fresh DataTransformBlock has the attributes {list(vars(dt))}")
    unit.prelude.append("/-- a `DataTransformBlock` object: the attributes `steps`, `termination` (its `tree` is a property) -/\n"
                        f"def DataTransformBlockCls : PyU.Cls := {{ cid := {DT_CID}, fields := [\"steps\", \"termination\"], isTuple := false, bases := [] }}\n")
    unit.names.append("DataTransformBlockCls")
    method(DT, "add_step", "DataTransformBlock_add_step")
    method(DT, "add_termination", "DataTransformBlock_add_termination")
    meths.update({"add_step": "DataTransformBlock_add_step", "add_termination": "DataTransformBlock_add_termination"})
    method(DT, "__init__", "DataTransformBlock___init__")
    meths.clear()
    # the property `tree`: `self.__name__` is the class attribute
    prop = DT.__dict__["tree"]
    if not isinstance(prop, builtins.property) or prop.fset is not None or prop.fdel is not None:
        raise S.bad("DataTransformBlock.tree is not a read-only property")
    pfd = ast.parse(textwrap.dedent(inspect.getsource(prop.fget))).body[0]
    body = copy.deepcopy(_no_doc(pfd.body))

    class R(ast.NodeTransformer):
        def visit_Attribute(self, n):
            if isinstance(n.value, ast.Name) and n.value.id == "self" and n.attr == "__name__" and isinstance(n.ctx, ast.Load):
                return ast.copy_location(ast.Constant(value=DT.__name__), n)
            return self.generic_visit(n)
    body = [R().visit(st) for st in body]
    if [a.arg for a in pfd.args.args] != ["self"] or len(body) != 1 or not isinstance(body[0], ast.Return):
        raise S.bad("DataTransformBlock.tree is not a single `return`")
    fn = S.make("DataTransformBlock_tree", ["self"], body, "DataTransformBlock.tree [the property getter; `self.__name__` is the class attribute]")
    unit.owned_params["DataTransformBlock_tree"] = ["self"]
    unit.translate(fn)

    # the special constructors
    unit.t11_self = ("block", attrs, {"set_option": "ConfigBlock_set_option", "_enable": "ConfigBlock__enable"})
    for cls, name, params in ((M.ExecuteOptionsBlock, "from_execute_list", ["execute_list"]),
                              (M.BeaconGateBlock, "from_beacon_gate_option_strings", ["options"])):
        if "set_option" in cls.__dict__ and cls.__dict__["set_option"] is not CB.__dict__["set_option"]:
            raise S.bad(f"{cls.__name__}.set_option is not ConfigBlock.set_option")
        if cls.__mro__[1] is not CB or "__init__" in cls.__dict__ or "tree" in cls.__dict__:
            raise S.bad(f"{cls.__name__} is not a direct subclass of ConfigBlock without a constructor of its own")
        fn = _classmethod_body(S, cls, name, params)
        unit.owned_params[fn.__name__] = ["block"]
        unit.translate(fn)
    unit.t11_self = ("self", attrs, {})


def generate(repo: Path):
    tools = str(Path(__file__).resolve().parent.parent)
    if tools not in sys.path:
        sys.path.insert(0, tools)
    import py2leanu
    import lark
    M = importlib.import_module("dissect.cobaltstrike.c2profile")
    S = Synth(py2leanu, M)

    tok = M.Token("T", "v")
    if M.Token is not lark.Token or (tok.type, tok.value, str(tok)) != ("T", "v", "v") or not isinstance(tok, str):
        raise py2leanu.Unsupported("c2profile.Token is not lark.Token(type, value), a str")
    if M.__dict__.get("collections") is not collections or not isinstance(M.__dict__.get("logger"), logging.Logger):
        raise py2leanu.Unsupported("c2profile.collections / c2profile.logger are not the module `collections` / a logging.Logger")

    walk, wrapper = slice_as_dict(S, M)
    fields = profile_fields(S, M)

    registry = {
        "Token": (M.Token, "cls", TOKEN),
        "collections.defaultdict": (collections.defaultdict, "t11ddlist", None),
        "logger.debug": (M.logger.debug, "noop", None),
        "string_token_to_bytes": (M.string_token_to_bytes, "extern", ("string_token_to_bytes", 1, [])),
        "reconstruct_items": (_reconstruct_items, "extern", ("reconstruct_items", 1, [])),
        "%hash": (builtins.hash, "extern", ("tree_hash", 1, [])),
    }
    unit = py2leanu.Unit("Gen.PyC2Dict", ["CsVerif.Model.PyU_T12", "CsVerif.Model.PyU_T11", "CsVerif.Gen.PyC2Prof"], registry)
    unit.t11 = TOKEN
    unit.hoist_if_vars = True
    flds = ", ".join(py2leanu.lean_string(f) for f in fields)
    unit.prelude.append("/-- `dissect.cobaltstrike.c2profile.C2Profile`: the attributes of an instance, in the order the constructors assign them -/\n"
                        f"def C2ProfileCls : PyU.Cls := {{ cid := {PROFILE_CID}, fields := [{flds}], isTuple := false, bases := [] }}\n")
    names = ["C2ProfileCls"]

    unit.translate(walk)
    unit.t11_self = ("self", fields, {})
    unit.owned_params = {"as_dict": ["self"]}
    unit.translate(wrapper)
    builders(S, M, unit, py2leanu)
    names += unit.names
    return "PyC2Dict.lean", unit.render("c2profile.py: C2Profile.as_dict (token walk + cache) and the block builders (C11), translated by the untyped translator"), names


if __name__ == "__main__":
    sys.path.insert(0, sys.argv[1] if len(sys.argv) > 1 else "/repo")
    print(generate(Path(sys.argv[1] if len(sys.argv) > 1 else "/repo"))[1])

"""C16 translator plug-in: the two Unicode tables that CPython's `int(str)` consults
(`Py_UNICODE_ISSPACE`, `Py_UNICODE_TODECIMAL`), taken from the running interpreter (`str.isspace`,
`unicodedata.decimal`).  `parse_raw_http` computes `int(status.decode())` with a UTF-8 decode, so
non-ASCII decimal digits and Unicode spaces are reachable from the wire.

The decimal table is emitted as the list of code points whose decimal value is 0; the plug-in checks
(and fails loudly otherwise) that every decimal digit of the interpreter lies in a run z, z+1, .., z+9
with values 0..9, which is what the Lean model `C16.decimalOf` assumes.
"""
from __future__ import annotations

import sys
import unicodedata


def generate(repo):
    spaces = [c for c in range(sys.maxunicode + 1) if chr(c).isspace()]
    dec = {c: unicodedata.decimal(chr(c)) for c in range(sys.maxunicode + 1) if unicodedata.decimal(chr(c), None) is not None}
    zeros = sorted(c for c, v in dec.items() if v == 0)
    covered = set()
    for z in zeros:
        for i in range(10):
            if dec.get(z + i) != i:
                raise ValueError(f"decimal digits are not a run of ten at U+{z:04X}")
            covered.add(z + i)
    if covered != set(dec):
        raise ValueError("a decimal digit lies outside the runs of ten")
    # int() must agree with the tables on single characters (cheap self-check of the introspection)
    for c in list(dec)[:50] + [0x660, 0xFF10, 0x1D7CE]:
        if int(chr(c)) != dec[c]:
            raise ValueError(f"int() disagrees with unicodedata.decimal at U+{c:04X}")
    text = (
        "namespace C16.Gen\n\n"
        f"/-- every code point with `str.isspace()` (Unicode {unicodedata.unidata_version}) -/\n"
        "def unicodeSpaces : List Nat := [" + ", ".join(map(str, spaces)) + "]\n\n"
        "/-- code points with decimal value 0; each starts a run of ten decimal digits 0..9 -/\n"
        "def decimalZeros : List Nat := [" + ", ".join(map(str, zeros)) + "]\n\n"
        "end C16.Gen\n"
    )
    return "C16Unicode.lean", text, ["unicodeSpaces", "decimalZeros"]

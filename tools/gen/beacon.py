"""Translator plug-in: tables of dissect/cobaltstrike/beacon.py  →  lean/CsVerif/Gen/Beacon.lean

Everything is obtained by introspecting the *imported* package (cstruct enum/flag/struct objects and
module-level dicts), never by parsing source text.  Used by C02 (settings decoding, views) and C03
(structured settings: opcode tables).  Namespace `Gen.Beacon`.

Tables (names are an interface – keep them stable):
  settingMembers      List (String × Nat)   every BeaconSetting member in definition order (aliases included)
  settingNames        List (Nat × String)   for every defined value v: BeaconSetting(v).name (cstruct alias resolution)
  settingNameBytes, deprecatedNameBytes : List (Nat × Bytes), unknownPrefixBytes, deprecatedUnknownPrefixBytes : Bytes
                      the same names as ASCII byte lists (used by the C02 model: kernel `decide` on String is slow)
  deprecatedNames     List (Nat × String)   DeprecatedBeaconSetting(v).name
  unknownPrefix, deprecatedUnknownPrefix    String: `str(enum(v)).replace(".", "_")` minus the digits, for nameless values
  settingsTypes       List (Nat × String)   SettingsType
  prettyKeys          List Nat              values of the keys of SETTING_TO_PRETTYFUNC (dict order)
  defaultXorKeys      List Bytes            DEFAULT_XOR_KEYS
  settingStruct       List (String × String) fields of `struct Setting` (name, type name) in order
  settingStructBigEndian, settingIndexBytes, settingTypeBytes, settingLengthBytes
  settingUserAgent, settingWatermarkHash, deprecatedInjectOptions, typeNone, typeShort, typeInt, typePtr   (Nat constants)
  transformStep, injectExecutor, injectAllocator, bofAllocator, beaconProtocol, proxyServer, cryptoScheme : List (Nat × String)
  beaconGateFields    List String           BeaconGateOptions field order (all fields uint8, checked)
"""
from __future__ import annotations

import importlib
import sys
from pathlib import Path


def _lean_str(s: str) -> str:
    out = ['"']
    for ch in s:
        if ch == '"':
            out.append('\\"')
        elif ch == "\\":
            out.append("\\\\")
        elif 32 <= ord(ch) < 127:
            out.append(ch)
        else:
            out.append("\\u{%x}" % ord(ch))
    out.append('"')
    return "".join(out)


def _chunks(items, per_line=4):
    lines = []
    for i in range(0, len(items), per_line):
        lines.append("  " + ", ".join(items[i:i + per_line]))
    return ",\n".join(lines)


def _table_ns(name, pairs):
    """List (Nat × String)"""
    if not pairs:
        return f"def {name} : List (Nat × String) := []\n"
    body = _chunks([f"({int(v)}, {_lean_str(n)})" for v, n in pairs], 3)
    return f"def {name} : List (Nat × String) := [\n{body}]\n"


def _ascii(s: str) -> str:
    b = s.encode("ascii")  # raises for a non-ASCII identifier (not translatable to the Bytes model)
    if not b:
        raise ValueError("empty enum member name")
    return "[" + ", ".join(str(x) for x in b) + "]"


def _table_nb(name, pairs):
    """List (Nat × Bytes): the same table with the names as ASCII byte lists (cheap to decide about in the kernel)."""
    body = _chunks([f"({int(v)}, {_ascii(n)})" for v, n in pairs], 1)
    return f"def {name} : List (Nat × Bytes) := [\n{body}]\n"


def _members(enum_cls):
    """(name, value) of every member in definition order, aliases included."""
    mem = enum_cls.__members__
    if not mem:
        raise ValueError(f"{enum_cls!r} has no members")
    out = []
    for n, m in mem.items():
        v = int(m.value)
        if not isinstance(n, str) or v < 0:
            raise ValueError(f"cannot translate member {n!r}={v!r} of {enum_cls!r}")
        out.append((n, v))
    return out


def _resolved(enum_cls):
    """For every defined value v (ascending): the name cstruct resolves `enum_cls(v).name` to."""
    vals = sorted({v for _, v in _members(enum_cls)})
    out = []
    for v in vals:
        nm = enum_cls(v).name
        if not isinstance(nm, str):
            raise ValueError(f"{enum_cls.__name__}({v}).name is {nm!r}")
        out.append((v, nm))
    return out


def generate(repo: Path):
    if str(repo) not in sys.path:
        sys.path.insert(0, str(repo))
    B = importlib.import_module("dissect.cobaltstrike.beacon")
    BS, DBS, ST = B.BeaconSetting, B.DeprecatedBeaconSetting, B.SettingsType

    tables = []
    out = ["import CsVerif.Model.Basic\n", "namespace Gen.Beacon\n"]

    def emit(name, text):
        tables.append(name)
        out.append(text)

    # ---- BeaconSetting --------------------------------------------------------------------
    members = _members(BS)
    body = _chunks([f"({_lean_str(n)}, {v})" for n, v in members], 3)
    emit("settingMembers", f"def settingMembers : List (String × Nat) := [\n{body}]\n")
    names = _resolved(BS)
    emit("settingNames", _table_ns("settingNames", names))
    emit("settingNameBytes", _table_nb("settingNameBytes", names))
    # unknown values have no name and print as "BeaconSetting.<v>" (checked on a value that is not defined)
    defined = {v for v, _ in names}
    probe = next(v for v in range(1, 70000) if v not in defined)
    if BS(probe).name is not None or str(BS(probe)) != f"BeaconSetting.{probe}" or int(BS(probe).value) != probe:
        raise ValueError("unknown BeaconSetting values no longer behave as (name None, str 'BeaconSetting.<v>')")
    emit("unknownPrefix", f"def unknownPrefix : String := {_lean_str(BS.__name__ + '_')}\n")
    emit("unknownPrefixBytes", f"def unknownPrefixBytes : Bytes := {_ascii(BS.__name__ + '_')}\n")

    emit("deprecatedNames", _table_ns("deprecatedNames", _resolved(DBS)))
    emit("deprecatedNameBytes", _table_nb("deprecatedNameBytes", _resolved(DBS)))
    dprobe = next(v for v in range(1, 70000) if v not in {x for x, _ in _resolved(DBS)})
    if DBS(dprobe).name is not None or str(DBS(dprobe)) != f"{DBS.__name__}.{dprobe}":
        raise ValueError("unknown DeprecatedBeaconSetting values no longer behave as (name None, str '<Enum>.<v>')")
    emit("deprecatedUnknownPrefix", f"def deprecatedUnknownPrefix : String := {_lean_str(DBS.__name__ + '_')}\n")
    emit("deprecatedUnknownPrefixBytes", f"def deprecatedUnknownPrefixBytes : Bytes := {_ascii(DBS.__name__ + '_')}\n")
    emit("settingsTypes", _table_ns("settingsTypes", _resolved(ST)))

    # ---- SETTING_TO_PRETTYFUNC: keys; the lookup `get(setting.index)` must succeed exactly through BeaconSetting(v)
    pk = []
    for k, fn in B.SETTING_TO_PRETTYFUNC.items():
        if not isinstance(k, BS):
            raise ValueError(f"SETTING_TO_PRETTYFUNC key {k!r} is not a BeaconSetting")
        v = int(k.value)
        if B.SETTING_TO_PRETTYFUNC.get(BS(v)) is not fn:
            raise ValueError(f"SETTING_TO_PRETTYFUNC key {k!r} is not reachable through BeaconSetting({v}) (alias name mismatch)")
        if not callable(fn):
            raise ValueError(f"SETTING_TO_PRETTYFUNC[{k!r}] is not callable")
        pk.append(v)
    for v in range(0, 300):
        if (B.SETTING_TO_PRETTYFUNC.get(BS(v)) is not None) != (v in pk):
            raise ValueError(f"SETTING_TO_PRETTYFUNC dispatch for value {v} disagrees with its key list")
    for v, _ in _resolved(DBS):
        if B.SETTING_TO_PRETTYFUNC.get(DBS(v)) is not None:
            raise ValueError(f"a DeprecatedBeaconSetting({v}) key now has a pretty function")
    emit("prettyKeys", "def prettyKeys : List Nat := [" + ", ".join(map(str, pk)) + "]\n")

    # ---- DEFAULT_XOR_KEYS -----------------------------------------------------------------
    keys = B.DEFAULT_XOR_KEYS
    if not isinstance(keys, list) or not all(isinstance(k, bytes) for k in keys):
        raise ValueError("DEFAULT_XOR_KEYS is not a list of bytes")
    emit("defaultXorKeys", "def defaultXorKeys : List Bytes := [" + ", ".join("[" + ", ".join(str(x) for x in k) + "]" for k in keys) + "]\n")

    # ---- struct Setting layout ------------------------------------------------------------
    S = B.Setting
    fields = [(n, f.type.__name__) for n, f in S.fields.items()]
    body = ", ".join(f"({_lean_str(n)}, {_lean_str(t)})" for n, t in fields)
    emit("settingStruct", f"def settingStruct : List (String × String) := [{body}]\n")
    emit("settingStructBigEndian", f"def settingStructBigEndian : Bool := {'true' if B.cs_struct.endian == '>' else 'false'}\n")

    def fsize(n):
        sz = S.fields[n].type.size
        if not isinstance(sz, int):
            raise ValueError(f"Setting.{n} has no static size")
        return sz

    for lean_name, field in (("settingIndexBytes", "index"), ("settingTypeBytes", "type"), ("settingLengthBytes", "length")):
        if field not in S.fields:
            raise ValueError(f"struct Setting has no field {field}")
        emit(lean_name, f"def {lean_name} : Nat := {fsize(field)}\n")
    vt = S.fields["value"].type if "value" in S.fields else None
    if vt is None or not issubclass(vt, bytes) or getattr(vt, "num_entries", None) is None:
        raise ValueError("Setting.value is no longer a dynamic char array")
    emit("settingValueLengthExpr", f"def settingValueLengthExpr : String := {_lean_str(str(vt.num_entries))}\n")

    # ---- constants used by iter_settings / settings_map -----------------------------------
    consts = [
        ("settingUserAgent", BS.SETTING_USERAGENT),
        ("settingWatermarkHash", BS.SETTING_WATERMARKHASH),
        ("deprecatedInjectOptions", DBS.SETTING_INJECT_OPTIONS),
        ("typeNone", ST.TYPE_NONE),
        ("typeShort", ST.TYPE_SHORT),
        ("typeInt", ST.TYPE_INT),
        ("typePtr", ST.TYPE_PTR),
    ]
    for n, m in consts:
        emit(n, f"def {n} : Nat := {int(m.value)}\n")

    # ---- opcode tables (C03) --------------------------------------------------------------
    for lean_name, cls in (
        ("transformStep", B.TransformStep),
        ("injectExecutor", B.InjectExecutor),
        ("injectAllocator", B.InjectAllocator),
        ("bofAllocator", B.BofAllocator),
        ("cryptoScheme", B.CryptoScheme),
    ):
        emit(lean_name, _table_ns(lean_name, _resolved(cls)))
    # flags: members in definition order (value 0 included), no alias resolution needed but checked unique
    for lean_name, cls in (("beaconProtocol", B.BeaconProtocol), ("proxyServer", B.ProxyServer)):
        mem = _members(cls)
        if len({v for _, v in mem}) != len(mem):
            raise ValueError(f"flag {cls!r} has aliased values")
        emit(lean_name, _table_ns(lean_name, [(v, n) for n, v in mem]))

    G = B.BeaconGateOptions
    gf = []
    for n, f in G.fields.items():
        if f.type.__name__ != "uint8":
            raise ValueError(f"BeaconGateOptions.{n} is {f.type.__name__}, expected uint8")
        gf.append(n)
    emit("beaconGateFields", "def beaconGateFields : List String := [\n" + _chunks([_lean_str(n) for n in gf], 4) + "]\n")

    out.append("end Gen.Beacon\n")
    return "Beacon.lean", "\n".join(out), tables


if __name__ == "__main__":
    print(generate(Path(sys.argv[1] if len(sys.argv) > 1 else "/repo"))[1])

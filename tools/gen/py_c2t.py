"""Translator plug-in: `HttpDataTransform.__init__ / transform / recover` of dissect/cobaltstrike/c2.py (property C04), translated
statement by statement from their *source* by the untyped translator (tools/py2leanu.py) → lean/CsVerif/Gen/PyC2T.lean
(namespace `Gen.PyC2T`).

Props/C04Gen.lean proves each translated definition equal to the hand-written model of C04 (Model/C04.lean), so the C04 theorems
are theorems about the source text as it stands on every run.

The file contains
  * the class descriptor `HttpDataTransform` (a plain class; its attributes are read off `__init__`: the `self.<a>` in the order of
    their first assignment), after checking that the class has no machinery that could change what attribute access and
    construction mean (no `__slots__`, `__getattr__`, `__setattr__`, `__new__`, metaclass, base classes, properties);
  * the NamedTuple classes `HttpRequest`, `HttpResponse`, `C2Data`, `ClientC2Data`, `ServerC2Data` are the descriptors of
    Gen/PyC2U.lean (plug-in gen/py_c2u.py, which checks that they behave like plain namedtuples);
  * the typed translations `netbios_encode`, `netbios_decode`, `xor`, `p32be` of Gen/PyUtils.lean (the very objects c2.py imports
    from utils.py: checked by identity), lifted to dynamic values by `PyU.liftBytes1 / liftBytes2 / liftIntBytes`
    (lean/CsVerif/Model/PyU_T04.lean).
External functions (parameters of the translated definitions): `base64.b64encode / urlsafe_b64encode / b64decode /
urlsafe_b64decode` (one positional argument each) and the stream `random.getrandbits` (gets the number of earlier calls first).
"""
from __future__ import annotations

import base64
import functools
import importlib
import inspect
import random
import sys
from pathlib import Path

NTCLASSES = ["HttpRequest", "HttpResponse", "C2Data", "ClientC2Data", "ServerC2Data"]
METHODS = ["transform", "recover"]
CLS_CID = 6        # after the six classes of Gen/PyC2U.lean


def _plain_class(py2leanu, cls):
    name = cls.__name__
    if type(cls) is not type or cls.__bases__ != (object,):
        raise py2leanu.Unsupported(f"{name}: metaclass / base classes")
    allowed = {"__module__", "__doc__", "__dict__", "__weakref__", "__init__", "__annotations__", "__qualname__", "__firstlineno__",
               "__static_attributes__"}
    for k, v in cls.__dict__.items():
        if k in allowed:
            continue
        if k.startswith("__") or not inspect.isfunction(v):
            raise py2leanu.Unsupported(f"{name}.{k}: not a plain method")
    if not inspect.isfunction(cls.__dict__.get("__init__")):
        raise py2leanu.Unsupported(f"{name}: no `__init__` of its own")


def generate(repo: Path):
    tools = str(Path(__file__).resolve().parent.parent)
    if tools not in sys.path:
        sys.path.insert(0, tools)
    import py2lean
    import py2leanu
    from gen import py_c2u, py_utils
    M = importlib.import_module("dissect.cobaltstrike.c2")
    U = importlib.import_module("dissect.cobaltstrike.utils")

    registry = {
        "base64.b64encode": (base64.b64encode, "extern", ("b64encode", 1, [])),
        "base64.urlsafe_b64encode": (base64.urlsafe_b64encode, "extern", ("urlsafe_b64encode", 1, [])),
        "base64.b64decode": (base64.b64decode, "extern", ("b64decode", 1, [])),
        "base64.urlsafe_b64decode": (base64.urlsafe_b64decode, "extern", ("urlsafe_b64decode", 1, [])),
        "random.getrandbits": (random.getrandbits, "stream", ("getrandbits", 1)),
    }
    unit = py2leanu.Unit("Gen.PyC2T", ["CsVerif.Model.PyU_T04", "CsVerif.Gen.PyUtils", "CsVerif.Gen.PyC2U"], registry)

    # the NamedTuple classes: descriptors of Gen/PyC2U.lean (same checks as there; the cids are the positions in that list)
    import urllib.parse
    classes = [getattr(M, n) for n in NTCLASSES] + [urllib.parse.SplitResultBytes]
    cids = {c.__name__: i for i, c in enumerate(classes)}
    for c in classes[:len(NTCLASSES)]:
        if c.__name__ not in NTCLASSES:
            raise py2leanu.Unsupported(f"c2.{c.__name__}: renamed NamedTuple class")
        py_c2u._nt_descriptor(py2leanu, c, cids[c.__name__], cids)
        registry[c.__name__] = (c, "ntcls", f"Gen.PyC2U.{c.__name__}")

    # utils.py functions that c2.py imports: the typed translations, lifted to dynamic values
    tu = py2lean.Unit("Gen.PyUtils")
    for f in py_utils.FUNCS:
        tu.translate(getattr(U, f))
    for p in py_utils.PARTIALS:
        obj = getattr(U, p)
        if not isinstance(obj, functools.partial):
            raise py2leanu.Unsupported(f"utils.{p} is no longer a functools.partial")
        tu.declare_partial(p, obj)

    def typed(name, want_params, want_ret):
        sg = tu.sigs[name]
        got = [t for _, t, _ in sg.params]
        if sg.externs or sg.ret != want_ret or got[:len(want_params)] != want_params or any(d is None for _, _, d in sg.params[len(want_params):]):
            raise py2leanu.Unsupported(f"utils.{name}: signature {sg.params} → {sg.ret}")
        if getattr(M, name, None) is not getattr(U, name):
            raise py2leanu.Unsupported(f"c2.{name} is not utils.{name}")
        args = " ".join(d for _, _, d in sg.params[len(want_params):])
        shown = ", ".join(f"{p}={d}" for p, _, d in sg.params[len(want_params):])
        return sg.name, args, shown

    for name in ("netbios_encode", "netbios_decode"):
        ln, args, shown = typed(name, ["Bytes"], "Bytes")
        unit.prelude.append(f"/-- `utils.{name}` (typed translation `Gen.PyUtils.{ln}`; {shown}) on a dynamic value -/\n"
                            f"def {name} (data : V) : Py V := open PyRt in PyU.liftBytes1 (fun d => Gen.PyUtils.{ln} d {args}) data\n")
        registry[name] = (getattr(U, name), "func", (name, 1))
    ln, args, shown = typed("xor", ["Bytes", "Bytes"], "Bytes")
    unit.prelude.append(f"/-- `utils.xor` (typed translation `Gen.PyUtils.{ln}`) on dynamic values -/\n"
                        f"def xor (data key : V) : Py V := PyU.liftBytes2 Gen.PyUtils.{ln} data key\n")
    registry["xor"] = (U.xor, "func", ("xor", 2))
    ln, args, shown = typed("p32be", ["Int"], "Bytes")
    unit.prelude.append(f"/-- `utils.p32be` (typed translation `Gen.PyUtils.{ln}`; {shown}) on a dynamic value -/\n"
                        f"def p32be (n : V) : Py V := open PyRt in PyU.liftIntBytes (fun v => Gen.PyUtils.{ln} v {args}) n\n")
    registry["p32be"] = (U.p32be, "func", ("p32be", 1))

    # the class
    cls = M.HttpDataTransform
    if cls.__name__ != "HttpDataTransform":
        raise py2leanu.Unsupported("c2.HttpDataTransform: renamed")
    _plain_class(py2leanu, cls)
    registry["HttpDataTransform"] = (cls, "cls", "HttpDataTransform")
    unit.translate(cls.__dict__["__init__"], lean_name="http_data_transform_init", init_of=(cls, "HttpDataTransform"))
    fields = ", ".join(py2leanu.lean_string(f) for f in unit.init_fields)
    unit.prelude.append(f"/-- `dissect.cobaltstrike.c2.HttpDataTransform` (plain class); attributes as `__init__` assigns them -/\n"
                        f"def HttpDataTransform : PyU.Cls := {{ cid := {CLS_CID}, fields := [{fields}], isTuple := false, bases := [] }}\n")
    for m in METHODS:
        fn = cls.__dict__.get(m)
        if not inspect.isfunction(fn):
            raise py2leanu.Unsupported(f"HttpDataTransform.{m} is not a plain method")
        unit.translate(fn)
    names = ["HttpDataTransform", "netbios_encode", "netbios_decode", "xor", "p32be"] + unit.names
    return "PyC2T.lean", unit.render("c2.py: HttpDataTransform.__init__ / transform / recover (C04), translated by the untyped translator"), names


if __name__ == "__main__":
    sys.path.insert(0, sys.argv[1] if len(sys.argv) > 1 else "/repo")
    print(generate(Path(sys.argv[1] if len(sys.argv) > 1 else "/repo"))[1])

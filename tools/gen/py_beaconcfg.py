"""Translator plug-in: settings decoding and the settings views of dissect/cobaltstrike/beacon.py (property C02), translated
statement by statement from their *source* by the untyped translator (tools/py2leanu.py)
→ lean/CsVerif/Gen/PyBeaconCfg.lean (namespace `Gen.PyBeaconCfg`).

Translated:  `iter_settings` (a generator over an `io.BytesIO`: the definition returns the list of the yielded `Setting` objects),
`BeaconConfig.__init__` (the constructor call `BeaconConfig(config_block)`), `BeaconConfig.settings_map`,
`BeaconConfig.setting_enums` / `max_setting_enum` (property getters), and the UNCACHED bodies of the four cached view
properties `raw_settings`, `raw_settings_by_index`, `settings`, `settings_by_index`: each getter must have the shape
    if self._x is None: self._x = self.settings_map(<keyword constants>)
    return self._x
and the definition is the call `settings_map self <those arguments>` (the per-instance cache is C14's subject).
Props/C02Gen.lean proves the translated definitions equal to the hand-written model of C02 (`C02.iterSettingsE`,
`C02.settingsMap`, …), so the C02 theorems are theorems about the source text as it stands on every run.

Besides the functions, the file contains
  * one `PyU.EnumCls` descriptor per cstruct enum (`BeaconSetting`, `SettingsType`, `DeprecatedBeaconSetting`): member tables =
    the GENERATED tables of `Gen/Beacon.lean`; `enumNames` (class names, for `str(member)`);
  * `Setting : PyU.StructCls`: the layout of `struct Setting` by introspection of the cstruct class (field order, enum / unsigned
    integer / `char[<field>]` types, byte order), checked against the real `Setting(fh)` on probe inputs here and on random inputs
    by the `pyu` stream of C02;
  * `prettyTable`: `SETTING_TO_PRETTYFUNC` as a dict from `BeaconSetting` members (keys: `Gen.Beacon.prettyKeys`, dict order) to
    function objects `PrettyFn(key value)`; CALLING a function object is the external function `callv` (a parameter of the
    translated definitions — the content of the pretty functions is C03's subject);
  * the typed translations `u16be`, `u32be` of `Gen/PyUtils.lean`, lifted to dynamic values.
"""
from __future__ import annotations

import ast
import collections
import functools
import importlib
import inspect
import io
import sys
import textwrap
import types
from pathlib import Path

ENUM_CIDS = {"BeaconSetting": 10, "SettingsType": 11, "DeprecatedBeaconSetting": 12}
ENUM_TABLES = {
    # value -> resolved name first (what `.name` answers), then every member name (aliases included) for `Cls.NAME`
    "BeaconSetting": "(Gen.Beacon.settingNames ++ Gen.Beacon.settingMembers.map (fun p => (p.2, p.1)))",
    "SettingsType": "Gen.Beacon.settingsTypes",
    "DeprecatedBeaconSetting": "Gen.Beacon.deprecatedNames",
}
SETTING_CID, PRETTYFN_CID, CONFIG_CID = 20, 21, 22
VIEWS = ["raw_settings", "raw_settings_by_index", "settings", "settings_by_index"]
TYPED = ["u16be", "u32be"]


def _check_enum(py2leanu, cls, table_pairs):
    """the member table reproduces `.name`, `Cls.NAME` and `str()` of the real class"""
    def first(pred):
        return next((p for p in table_pairs if pred(p)), None)
    for v in list(range(0, 300)) + [65535, 70000]:
        hit = first(lambda p: p[0] == v)
        if cls(v).name != (hit[1] if hit else None):
            raise py2leanu.Unsupported(f"{cls.__name__}({v}).name = {cls(v).name!r}, the generated table says {hit}")
        want = f"{cls.__name__}.{hit[1] if hit else v}"
        if str(cls(v)) != want:
            raise py2leanu.Unsupported(f"str({cls.__name__}({v})) = {str(cls(v))!r}, modelled {want!r}")
    for name, m in cls.__members__.items():
        hit = first(lambda p: p[1] == name)
        if hit is None or hit[0] != int(m.value):
            raise py2leanu.Unsupported(f"{cls.__name__}.{name} = {int(m.value)}, the generated table says {hit}")
    if cls(-5).name is not None or str(cls(-5)) != f"{cls.__name__}.-5":
        raise py2leanu.Unsupported(f"{cls.__name__}(-5) does not behave as modelled")


def _struct_descriptor(py2leanu, B, S, enums: dict) -> str:
    """`struct Setting` by introspection; every assumption of `PyU.structRead` is probed"""
    if S.cs is not B.cs_struct or B.cs_struct.endian not in ("<", ">"):
        raise py2leanu.Unsupported("Setting is not a structure of beacon.cs_struct / unknown byte order")
    big = B.cs_struct.endian == ">"
    names, tys, widths = [], [], []
    for name, f in S.fields.items():
        t = f.type
        if t in enums.values():
            tys.append(f"PyU.FieldTy.enum {t.__name__}")
            widths.append(t.type.size)
        elif isinstance(t, type) and issubclass(t, int) and isinstance(getattr(t, "size", None), int) and 1 <= t.size <= 8:
            tys.append(f"PyU.FieldTy.uint {t.size}")
            widths.append(t.size)
        elif isinstance(t, type) and issubclass(t, bytes) and getattr(t, "num_entries", None) is not None and str(t.num_entries) in names \
                and getattr(getattr(t, "type", None), "size", None) == 1:
            tys.append(f"PyU.FieldTy.chars {py2leanu.lean_string(str(t.num_entries))}")
            widths.append(None)
        else:
            raise py2leanu.Unsupported(f"Setting.{name}: field type {t!r} is outside the modelled kinds")
        names.append(name)
    if [n for n, _ in S.fields.items()] != [f.name for f in S.__fields__]:
        raise py2leanu.Unsupported("Setting.fields and Setting.__fields__ disagree")
    # probes: all-ones header fields (unsigned, byte order), a dynamic tail, short data at every cut, trailing data ignored
    if widths.count(None) != 1 or widths[-1] is not None:
        raise py2leanu.Unsupported("Setting: the modelled layout is fixed-width fields followed by one char array")
    order = "big" if big else "little"
    len_field = str(S.fields[names[-1]].type.num_entries)
    for fill, n in ((0xFF, 3), (0x01, 0), (0x80, 5), (0xFE, 300)):
        vals, data = [], b""
        for nm, w in zip(names[:-1], widths[:-1]):
            raw = n.to_bytes(w, order) if nm == len_field else bytes([fill] * w)
            vals.append(int.from_bytes(raw, order))
            data += raw
        payload = bytes((i * 7 + 3) % 256 for i in range(n))
        full = data + payload
        fh = io.BytesIO(b"pre" + full + b"XYZ")
        fh.seek(3)
        obj = S(fh)
        got = [getattr(obj, nm) for nm in names]
        want = vals + [payload]
        if [bytes(g) if isinstance(g, bytes) else int(g) for g in got] != want or fh.tell() != 3 + len(full):
            raise py2leanu.Unsupported(f"Setting(fh) on a probe: {got!r} / position {fh.tell()}, modelled {want!r} / {3 + len(full)}")
        for g, nm in zip(got, names):
            t = S.fields[nm].type
            if t in enums.values() and type(g) is not t:
                raise py2leanu.Unsupported(f"Setting.{nm} is not a {t.__name__} member")
        for cut in range(len(full)):
            try:
                S(io.BytesIO(full[:cut]))
                raise py2leanu.Unsupported(f"Setting(fh) on {cut} of {len(full)} bytes does not raise")
            except EOFError:
                pass
    obj = S(io.BytesIO(bytes(sum(w for w in widths if w))))
    if set(vars(obj)) - {"__dynamic_sizes__"} != set(names):
        raise py2leanu.Unsupported(f"a Setting instance has the attributes {sorted(vars(obj))}")
    fields = ", ".join(py2leanu.lean_string(n) for n in names)
    return (f"/-- instances of `struct Setting` (cstruct structure: a plain object with one attribute per field) -/\n"
            f"def SettingCls : PyU.Cls := {{ cid := {SETTING_CID}, fields := [{fields}], isTuple := false, bases := [] }}\n\n"
            f"/-- `struct Setting` of beacon.py: field types in declaration order, byte order of `cs_struct` -/\n"
            f"def Setting : PyU.StructCls := {{ cls := SettingCls, bigEndian := {'true' if big else 'false'}, tys := [{', '.join(tys)}] }}\n")


def _view_call(py2leanu, cls, name: str, sm_sig) -> str:
    """the uncached body of a cached view property: `settings_map self <arguments of the call in the getter>`"""
    prop = cls.__dict__.get(name)
    if not isinstance(prop, property) or prop.fset is not None or prop.fdel is not None:
        raise py2leanu.Unsupported(f"BeaconConfig.{name} is not a read-only property")
    fd = ast.parse(textwrap.dedent(inspect.getsource(prop.fget))).body[0]
    body = [s for s in fd.body if not (isinstance(s, ast.Expr) and isinstance(s.value, ast.Constant) and isinstance(s.value.value, str))]
    me = fd.args.args[0].arg if fd.args.args else None
    slot = f"_{name}"

    def is_slot(n, ctx):
        return isinstance(n, ast.Attribute) and n.attr == slot and isinstance(n.value, ast.Name) and n.value.id == me and isinstance(n.ctx, ctx)

    ok = (len(fd.args.args) == 1 and len(body) == 2 and isinstance(body[0], ast.If) and not body[0].orelse and len(body[0].body) == 1
          and isinstance(body[0].test, ast.Compare) and len(body[0].test.ops) == 1 and isinstance(body[0].test.ops[0], ast.Is)
          and is_slot(body[0].test.left, ast.Load) and isinstance(body[0].test.comparators[0], ast.Constant)
          and body[0].test.comparators[0].value is None
          and isinstance(body[0].body[0], ast.Assign) and len(body[0].body[0].targets) == 1 and is_slot(body[0].body[0].targets[0], ast.Store)
          and isinstance(body[1], ast.Return) and is_slot(body[1].value, ast.Load))
    call = body[0].body[0].value if ok else None
    if not (ok and isinstance(call, ast.Call) and isinstance(call.func, ast.Attribute) and call.func.attr == "settings_map"
            and isinstance(call.func.value, ast.Name) and call.func.value.id == me and not call.args
            and all(k.arg is not None and isinstance(k.value, ast.Constant) for k in call.keywords)):
        raise py2leanu.Unsupported(f"BeaconConfig.{name}: not `if self.{slot} is None: self.{slot} = self.settings_map(<keyword constants>)` / `return self.{slot}`")
    given = {k.arg: py2leanu.const_term(k.value.value) for k in call.keywords}
    params = sm_sig.params[1:]          # without `self`
    if set(given) - {p for p, _ in params} or len(given) != len(call.keywords):
        raise py2leanu.Unsupported(f"BeaconConfig.{name}: unknown / repeated keyword of settings_map")
    args = [given.get(p, d) for p, d in params]
    if any(a is None for a in args):
        raise py2leanu.Unsupported(f"BeaconConfig.{name}: settings_map has a parameter without default")
    shown = ", ".join(f"{k.arg}={ast.unparse(k.value)}" for k in call.keywords)
    xb = " (callv : V → V → Py V)" if sm_sig.externs else ""
    xa = " callv" if sm_sig.externs else ""
    return (f"/-- the uncached body of the property `BeaconConfig.{name}`: `self.settings_map({shown})` (read from the getter's source) -/\n"
            f"def {name}{xb} (self : V) : Py V := settings_map{xa} self {' '.join(args)}\n")


def generate(repo: Path):
    tools = str(Path(__file__).resolve().parent.parent)
    if tools not in sys.path:
        sys.path.insert(0, tools)
    import py2lean
    import py2leanu
    from gen import beacon as gen_beacon
    from gen import py_beacon, py_utils
    B = importlib.import_module("dissect.cobaltstrike.beacon")
    U = importlib.import_module("dissect.cobaltstrike.utils")

    if not (isinstance(io.SEEK_CUR, int) and io.SEEK_CUR == 1 and B.io is io):
        raise py2leanu.Unsupported("beacon.io is not the module io / io.SEEK_CUR is not 1")
    registry = {"io.BytesIO": (io.BytesIO, "bytesio", None), "io.SEEK_CUR": (io.SEEK_CUR, "const", "(V.int 1)")}
    unit = py2leanu.Unit("Gen.PyBeaconCfg", ["CsVerif.Model.PyU_T15", "CsVerif.Model.PyU_T02", "CsVerif.Gen.Beacon", "CsVerif.Gen.PyUtils"], registry)
    unit.owned_params = {"iter_settings": ["fobj"]}
    unit.hoist_if_vars = True
    unit.t02_builtins = True
    unit.enum_names = "enumNames"
    # `BeaconConfig.__init__` passes its argument on to `iter_settings`, which changes a BytesIO argument in place: the translated
    # constructor is exact for immutable arguments (`bytes`, the annotated type); stated as the domain of `gen_beacon_config_init`
    unit.owned_calls_assume_immutable = True

    # cstruct enums
    enums = {}
    tables = {"BeaconSetting": gen_beacon._resolved(B.BeaconSetting) + [(v, n) for n, v in gen_beacon._members(B.BeaconSetting)],
              "SettingsType": gen_beacon._resolved(B.SettingsType), "DeprecatedBeaconSetting": gen_beacon._resolved(B.DeprecatedBeaconSetting)}
    for name, cid in ENUM_CIDS.items():
        cls = getattr(B, name)
        if cls.__name__ != name:
            raise py2leanu.Unsupported(f"beacon.{name} is now called {cls.__name__}")
        _check_enum(py2leanu, cls, [(int(v), n) for v, n in tables[name]])
        unit.prelude.append(py_beacon._enum_descriptor(py2leanu, cls, cid, ENUM_TABLES[name]))
        registry[name] = (cls, "enum", name)
        enums[name] = cls
    pairs = ", ".join(f"({cid}, {py2leanu.lean_string(n)})" for n, cid in ENUM_CIDS.items())
    unit.prelude.append(f"/-- the names of the enum classes, by `cid` (`str(member)` is `<class name>.<member name or value>`) -/\n"
                        f"def enumNames : List (Nat × String) := [{pairs}]\n")

    # struct Setting
    S = B.Setting
    if S.__name__ != "Setting":
        raise py2leanu.Unsupported(f"beacon.Setting is now called {S.__name__}")
    unit.prelude.append(_struct_descriptor(py2leanu, B, S, enums))
    registry["Setting"] = (S, "struct", "Setting")

    # typed translations of utils.py
    tu = py2lean.Unit("Gen.PyUtils")
    for f in py_utils.FUNCS:
        tu.translate(getattr(U, f))
    for p in py_utils.PARTIALS:
        obj = getattr(U, p)
        if not isinstance(obj, functools.partial):
            raise py2leanu.Unsupported(f"utils.{p} is no longer a functools.partial")
        tu.declare_partial(p, obj)
    for name in TYPED:
        sg = tu.sigs[name]
        if sg.externs or sg.ret != "Int" or not sg.params or sg.params[0][1] != "Bytes" or any(d is None for _, _, d in sg.params[1:]):
            raise py2leanu.Unsupported(f"utils.{name}: signature {sg.params} → {sg.ret} is not `bytes → int` with defaults")
        if getattr(B, name, None) is not getattr(U, name):
            raise py2leanu.Unsupported(f"beacon.{name} is not utils.{name}")
        args = " ".join(d for _, _, d in sg.params[1:])
        shown = ", ".join(f"{p}={d}" for p, _, d in sg.params[1:])
        unit.prelude.append(f"/-- `utils.{name}` (typed translation `Gen.PyUtils.{sg.name}`; {shown}) on a dynamic value -/\n"
                            f"def {name} (data : V) : Py V := open PyRt in PyU.liftBytesInt (fun d => Gen.PyUtils.{sg.name} d {args}) data\n")
        registry[name] = (getattr(U, name), "func", (name, 1))

    # SETTING_TO_PRETTYFUNC: keys by introspection (the generated `Gen.Beacon.prettyKeys`), the functions stay abstract
    table = B.SETTING_TO_PRETTYFUNC
    if type(table) is not dict or not table or any(type(k) is not B.BeaconSetting or not callable(v) or not v for k, v in table.items()):
        raise py2leanu.Unsupported("SETTING_TO_PRETTYFUNC is not a non-empty dict from BeaconSetting members to callables")
    unit.prelude.append(
        f"/-- a function object of `SETTING_TO_PRETTYFUNC`, identified by the value of its key; what calling it computes is the\n"
        f"external function `callv` -/\n"
        f"def PrettyFn : PyU.Cls := {{ cid := {PRETTYFN_CID}, fields := [\"<key>\"], isTuple := false, bases := [] }}\n\n"
        f"/-- `SETTING_TO_PRETTYFUNC` ({len(table)} entries; keys: `Gen.Beacon.prettyKeys`, in dict order) -/\n"
        f"def prettyTable : V := V.dict (Gen.Beacon.prettyKeys.map fun (k : Nat) => V.enum BeaconSetting (k : Int))\n"
        f"  (Gen.Beacon.prettyKeys.map fun (k : Nat) => V.inst PrettyFn [V.int (k : Int)])\n")
    registry["SETTING_TO_PRETTYFUNC"] = (table, "const", "prettyTable")
    registry["%callvalue"] = (None, "extern", ("callv", 2, []))

    # collections.OrderedDict() / types.MappingProxyType(d)
    if B.OrderedDict is not collections.OrderedDict or B.MappingProxyType is not types.MappingProxyType:
        raise py2leanu.Unsupported("beacon.OrderedDict / beacon.MappingProxyType are not the standard classes")
    registry["OrderedDict"] = (collections.OrderedDict, "dictctor", None)
    registry["MappingProxyType"] = (types.MappingProxyType, "func", ("PyU.mappingProxy", 1))

    # the functions
    unit.translate(B.iter_settings)
    cls = B.BeaconConfig
    if cls.__name__ != "BeaconConfig" or cls.__mro__ != (cls, object) or "__slots__" in cls.__dict__ \
            or any(m in cls.__dict__ for m in ("__getattr__", "__getattribute__", "__setattr__", "__eq__", "__hash__", "__bool__", "__len__")):
        raise py2leanu.Unsupported("BeaconConfig is not a plain class (bases / slots / attribute hooks)")
    registry["BeaconConfig"] = (cls, "cls", "BeaconConfig")
    unit.translate(cls.__dict__["__init__"], lean_name="beacon_config_init", init_of=(cls, "BeaconConfig"))
    fields = ", ".join(py2leanu.lean_string(f) for f in unit.init_fields)
    unit.prelude.append(f"/-- `dissect.cobaltstrike.beacon.BeaconConfig` (plain class); attributes as `__init__` assigns them -/\n"
                        f"def BeaconConfig : PyU.Cls := {{ cid := {CONFIG_CID}, fields := [{fields}], isTuple := false, bases := [] }}\n")
    sm = cls.__dict__.get("settings_map")
    if not inspect.isfunction(sm):
        raise py2leanu.Unsupported("BeaconConfig.settings_map is not a plain method")
    sm_sig = unit.translate(sm)
    # the two uncached property getters
    unit.t02_properties = {}
    unit.t02_property_getters = True
    for prop in ("setting_enums", "max_setting_enum"):
        pr = cls.__dict__.get(prop)
        if not isinstance(pr, property) or pr.fset is not None or pr.fdel is not None or not inspect.isfunction(pr.fget):
            raise py2leanu.Unsupported(f"BeaconConfig.{prop} is not a read-only property")
        unit.translate(pr.fget)
        unit.t02_properties[prop] = prop
    names = list(ENUM_CIDS) + ["enumNames", "SettingCls", "Setting"] + TYPED + ["PrettyFn", "prettyTable", "BeaconConfig"]
    for v in VIEWS:
        unit.defs.append(_view_call(py2leanu, cls, v, sm_sig))
        unit.names.append(v)
    names += unit.names
    return "PyBeaconCfg.lean", unit.render("beacon.py: iter_settings, BeaconConfig.__init__ / settings_map / the views (C02), translated by the untyped translator"), names


if __name__ == "__main__":
    sys.path.insert(0, sys.argv[1] if len(sys.argv) > 1 else "/repo")
    print(generate(Path(sys.argv[1] if len(sys.argv) > 1 else "/repo"))[1])

"""Translator plug-in: the pattern scanners of C15 — `utils.iter_find_needle` and `artifact.iter_artifactkit_payloads` —
translated statement by statement from their *source* by the untyped translator (tools/py2leanu.py)
→ lean/CsVerif/Gen/PyScan.lean (namespace `Gen.PyScan`).

Props/C15Gen.lean proves each translated definition equal to the hand-written model of C15 (`C15.iterFindNeedle`,
`C15.iterArtifactkit`) for every file object, every argument and every sufficient fuel, so the C15 theorems are theorems about
the source text as it stands on every run.

Both functions are GENERATORS over a FILE PARAMETER: the translated definition returns the tuple
`(list of the yielded values, the file object afterwards)`; `io.DEFAULT_BUFFER_SIZE` (read at call time) is the value
parameter `bufsize`.  Besides the functions, the file contains
  * the class descriptor of the NamedTuple `ArtifactKitPayload` (field names by introspection);
  * the typed translations `u32` and `xor` of `Gen/PyUtils.lean` (the very objects artifact.py reaches as `utils.u32` /
    `utils.xor`), lifted to dynamic values.
"""
from __future__ import annotations

import functools
import importlib
import io
import sys
from pathlib import Path


TUPLE_SLOTS = ["__eq__", "__ne__", "__len__", "__getitem__", "__iter__", "__hash__", "__contains__", "__lt__", "__add__", "__mul__"]


def _nt_descriptor(py2leanu, cls, cid: int) -> str:
    """a `typing.NamedTuple` class that behaves like a plain namedtuple (as in gen/py_c2u.py)"""
    import collections
    name = cls.__name__
    if not (isinstance(cls, type) and issubclass(cls, tuple) and hasattr(cls, "_fields")):
        raise py2leanu.Unsupported(f"{name} is not a NamedTuple class")
    ref = collections.namedtuple("Ref", "a b")
    if not getattr(cls.__new__, "__module__", "").startswith("namedtuple_") or getattr(cls._replace, "__code__", None) is not ref._replace.__code__:
        raise py2leanu.Unsupported(f"{name}: `__new__` / `_replace` are not the generated ones")
    if cls.__init__ is not object.__init__ and cls.__init__ is not tuple.__init__:
        raise py2leanu.Unsupported(f"{name}: has an `__init__`")
    for m in TUPLE_SLOTS + ["__bool__"]:
        if getattr(cls, m, None) is not getattr(tuple, m, None):
            raise py2leanu.Unsupported(f"{name}: overrides {m}")
    for f in cls._fields:
        d = cls.__dict__.get(f)
        if type(d).__name__ != "_tuplegetter":
            raise py2leanu.Unsupported(f"{name}.{f} is not the generated field accessor")
    for d in cls._field_defaults.values():
        py2leanu.const_term(d)      # defaults must be literals
    if [b for b in cls.__mro__[1:] if b not in (tuple, object)]:
        raise py2leanu.Unsupported(f"{name}: base classes other than tuple")
    fields = ", ".join(py2leanu.lean_string(f) for f in cls._fields)
    return (f"/-- `{cls.__module__}.{name}` (NamedTuple); defaults: {dict(cls._field_defaults)!r} -/\n"
            f"def {name} : PyU.Cls := {{ cid := {cid}, fields := [{fields}], isTuple := true, bases := [] }}\n")


def generate(repo: Path):
    tools = str(Path(__file__).resolve().parent.parent)
    if tools not in sys.path:
        sys.path.insert(0, tools)
    import py2lean
    import py2leanu
    from gen import py_utils
    U = importlib.import_module("dissect.cobaltstrike.utils")
    A = importlib.import_module("dissect.cobaltstrike.artifact")

    if not isinstance(io.DEFAULT_BUFFER_SIZE, int) or isinstance(io.DEFAULT_BUFFER_SIZE, bool):
        raise py2leanu.Unsupported("io.DEFAULT_BUFFER_SIZE is not an int")
    registry = {"io.DEFAULT_BUFFER_SIZE": (io.DEFAULT_BUFFER_SIZE, "gparam", "bufsize")}
    unit = py2leanu.Unit("Gen.PyScan", ["CsVerif.Model.PyU_T15", "CsVerif.Gen.PyUtils"], registry)
    if getattr(U, "io", None) is not io or getattr(A, "utils", None) is not U:
        raise py2leanu.Unsupported("utils.io / artifact.utils are not the modules `io` / `dissect.cobaltstrike.utils`")

    # --- utils.iter_find_needle
    unit.translate(U.iter_find_needle, files=["fp"])

    # --- artifact.iter_artifactkit_payloads: the NamedTuple class, utils.u32 / utils.xor (typed translations)
    cls = A.ArtifactKitPayload
    if cls.__name__ != "ArtifactKitPayload":
        raise py2leanu.Unsupported(f"artifact.ArtifactKitPayload is now called {cls.__name__}")
    unit.prelude.append(_nt_descriptor(py2leanu, cls, 0))
    registry["ArtifactKitPayload"] = (cls, "ntcls", "ArtifactKitPayload")
    tu = py2lean.Unit("Gen.PyUtils")
    for f in py_utils.FUNCS:
        tu.translate(getattr(U, f))
    for p in py_utils.PARTIALS:
        obj = getattr(U, p)
        if not isinstance(obj, functools.partial):
            raise py2leanu.Unsupported(f"utils.{p} is no longer a functools.partial")
        tu.declare_partial(p, obj)
    sg = tu.sigs["u32"]
    if sg.externs or sg.ret != "Int" or not sg.params or sg.params[0][1] != "Bytes" or any(d is None for _, _, d in sg.params[1:]):
        raise py2leanu.Unsupported(f"utils.u32: signature {sg.params} → {sg.ret} is not `bytes → int` with defaults")
    args = " ".join(d for _, _, d in sg.params[1:])
    shown = ", ".join(f"{p}={d}" for p, _, d in sg.params[1:])
    unit.prelude.append(f"/-- `utils.u32` (typed translation `Gen.PyUtils.{sg.name}`; {shown}) on a dynamic value -/\n"
                        f"def u32 (data : V) : Py V := open PyRt in PyU.liftBytesInt (fun d => Gen.PyUtils.{sg.name} d {args}) data\n")
    registry["utils.u32"] = (U.u32, "func", ("u32", 1))
    sx = tu.sigs["xor"]
    if sx.externs or sx.ret != "Bytes" or [t for _, t, _ in sx.params] != ["Bytes", "Bytes"]:
        raise py2leanu.Unsupported(f"utils.xor: signature {sx.params} → {sx.ret} is not `bytes, bytes → bytes`")
    unit.prelude.append(f"/-- `utils.xor` (typed translation `Gen.PyUtils.{sx.name}`) on dynamic values -/\n"
                        f"def xor (data key : V) : Py V := PyU.liftXor Gen.PyUtils.{sx.name} data key\n")
    registry["utils.xor"] = (U.xor, "func", ("xor", 2))
    unit.translate(A.iter_artifactkit_payloads, files=["fobj"])

    names = ["ArtifactKitPayload", "u32", "xor"] + unit.names
    return "PyScan.lean", unit.render("utils.py iter_find_needle and artifact.py iter_artifactkit_payloads (C15), translated by the untyped translator"), names


if __name__ == "__main__":
    sys.path.insert(0, sys.argv[1] if len(sys.argv) > 1 else "/repo")
    print(generate(Path(sys.argv[1] if len(sys.argv) > 1 else "/repo"))[1])

"""Translator plug-in for C12: the STRING terminal of c2profile.lark *as Lark loaded it*.

Generates lean/CsVerif/Gen/StrLit.lean with
  * `stringPattern`      – `c2profile_parser.get_terminal("STRING").pattern.to_regexp()` (the regex text Lark
                           hands to `re`), as a list of code points and as a Lean string,
  * `stringPatternFlags` – the terminal's own regex flags (sorted),
  * `globalRegexFlags`   – the parser's `g_regex_flags`,
  * `stringTerminalNames`– names of all terminals whose regex text starts with a double quote (the model
                           assumes STRING is the only one).
Props/C12.lean proves by `decide` that these equal the pattern the model `scanString` was derived from,
so an edit of the grammar's STRING terminal breaks a proof obligation.
"""
from __future__ import annotations

import importlib
from pathlib import Path


def _lean_str(s: str) -> str:
    out = ['"']
    for ch in s:
        if ch == '"':
            out.append('\\"')
        elif ch == "\\":
            out.append("\\\\")
        elif ch == "\n":
            out.append("\\n")
        elif 32 <= ord(ch) < 127:
            out.append(ch)
        else:
            out.append("\\u{%x}" % ord(ch))
    out.append('"')
    return "".join(out)


def string_terminal(repo: Path | None = None):
    """(regexp text, sorted flags, global flags, names of terminals starting with a double quote)."""
    mod = importlib.import_module("dissect.cobaltstrike.c2profile")
    parser = mod.c2profile_parser
    term = parser.get_terminal("STRING")
    pat = term.pattern
    if type(pat).__name__ != "PatternRE":
        raise ValueError(f"STRING terminal is not a regular-expression terminal but {type(pat).__name__}")
    rx = pat.to_regexp()
    if not isinstance(rx, str):
        raise ValueError("STRING pattern is not text")
    flags = sorted(str(f) for f in pat.flags)
    gflags = int(parser.options.g_regex_flags)
    quoted = sorted(
        t.name for t in parser.terminals if t.pattern.to_regexp().startswith('"') or t.pattern.to_regexp().startswith('\\"')
    )
    return rx, flags, gflags, quoted


def generate(repo: Path):
    rx, flags, gflags, quoted = string_terminal(repo)
    lines = [
        "/-! STRING terminal of c2profile.lark as loaded by Lark (C12). -/",
        "namespace Gen.StrLit",
        "",
        "/-- `c2profile_parser.get_terminal(\"STRING\").pattern.to_regexp()` -/",
        f"def stringPattern : String := {_lean_str(rx)}",
        "",
        "/-- the same text as Unicode code points -/",
        "def stringPatternCodes : List Nat := [" + ", ".join(str(ord(c)) for c in rx) + "]",
        "",
        "/-- regex flags attached to the terminal itself -/",
        "def stringPatternFlags : List String := [" + ", ".join(_lean_str(f) for f in flags) + "]",
        "",
        "/-- `c2profile_parser.options.g_regex_flags` -/",
        f"def globalRegexFlags : Nat := {gflags}",
        "",
        "/-- terminals whose regex text starts with a double quote -/",
        "def quoteTerminals : List String := [" + ", ".join(_lean_str(n) for n in quoted) + "]",
        "",
        "end Gen.StrLit",
        "",
    ]
    return "StrLit.lean", "\n".join(lines), ["stringPattern", "stringPatternFlags", "globalRegexFlags", "quoteTerminals"]

"""Translator plug-in: the pure functions of dissect/cobaltstrike/utils.py, translated statement by statement from
their *source* (tools/py2lean.py) → lean/CsVerif/Gen/PyUtils.lean (namespace `Gen.PyUtils`).

Props/C20Gen.lean proves each translated definition equal to the hand-written model of C20 for all arguments, so the
C20 theorems are theorems about the source text as it stands on every run.
"""
from __future__ import annotations

import functools
import importlib
import sys
from pathlib import Path

FUNCS = ["xor", "netbios_encode", "netbios_decode", "unpack", "pack", "checksum8", "is_stager_x86", "is_stager_x64"]
PARTIALS = ["unpack_be", "pack_be", "u8", "p8", "u16", "p16", "u16be", "p16be", "u32", "p32", "u32be", "p32be", "u64", "p64", "u64be", "p64be"]


def generate(repo: Path):
    tools = str(Path(__file__).resolve().parent.parent)
    if tools not in sys.path:
        sys.path.insert(0, tools)
    import py2lean
    U = importlib.import_module("dissect.cobaltstrike.utils")
    unit = py2lean.Unit("Gen.PyUtils")
    names = []
    for f in FUNCS:
        unit.translate(getattr(U, f))
        names.append(f)
    for p in PARTIALS:
        obj = getattr(U, p)
        if not isinstance(obj, functools.partial):
            raise py2lean.Unsupported(f"utils.{p} is no longer a functools.partial")
        unit.declare_partial(p, obj)
        names.append(p)
    return "PyUtils.lean", unit.render("utils.py: xor, NetBIOS codec, pack/unpack (+ the partial applications), checksum8, stager classifiers"), names

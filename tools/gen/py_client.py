"""Translator plug-in: the anchored pieces of dissect/cobaltstrike/client.py (C19), translated statement by statement from their
*source* by the untyped translator (tools/py2leanu.py) → lean/CsVerif/Gen/PyClient.lean (namespace `Gen.PyClient`).

`HttpBeaconClient.run` is one long method full of network / randomness / logging; the property is about three SLICES of it.  For
each slice the plug-in locates the statements in the AST of `run` by WHAT THEY ASSIGN (never by line number), wraps them into a
synthetic function (a real Python function object compiled from the unparsed statements, with the module's globals) and translates
that:

  normalise_beacon_id(beacon_id)                     the two assignments of `self.beacon_id` and the range check behind them
                                                     (`self.beacon_id` ↦ the local `self__beacon_id`; result: the id presented)
  session_keys(self__beacon_id)                      `random.seed(…)` … `self.hmac_key = …` (`random.seed(E)` + the
                                                     `random.getrandbits(K)` of the next statement ↦ `seeded_getrandbits(E, K)`,
                                                     `hashlib.sha256(X).digest()` ↦ `sha256_digest(X)`, both EXTERNAL; result:
                                                     `(aes_rand, aes_key, hmac_key)`)
  make_info(self__computer, self__user, self__process)   the two assignments of `info`; result: the value stored in
                                                     `self.metadata.info`

and the registry / dispatch code, with the client object threaded as a value (`V.inst HttpBeaconClientCls [task_map]`):

  register_task(self, command_id, func)              the method (+ `return self`: the client afterwards)
  handle_decorator(self, command, func)              the inner function of `handle` (closure variables ↦ parameters;
                                                     `self.register_task(a, b)` ↦ `self = register_task(self, a, b)`; result
                                                     `(func, self)`)
  catch_all_decorator(self, func)                    the same for `catch_all`
  get_handlers(self, command_id)                     the method (`getattr(self, name, None)` EXTERNAL; `BeaconCommand` a Python IntEnum)
  dispatch(self, task)                               the statements of the body of `_beacon_loop` from `command_id = …` to the end of
                                                     the `for` over the handlers (`self.get_handlers(x)` ↦ `get_handlers(self, x)`;
                                                     `callable` EXTERNAL; the `try` statement around the call of one handler ↦
                                                     `events.append(invoke_handler(handler, task))`, EXTERNAL; result: the events)

Everything the slicing relies on is CHECKED here and raises `Unsupported` (→ proof obligation broken) when it does not hold:
the statements of a slice are consecutive top-level statements of `run`; the attributes / variables they assign are assigned
nowhere else in the class; the values reach `self.metadata` / `C2Http(…)` by the expected statements; `self.task_map` occurs only in
`__init__`, `register_task` and `get_handlers`; the parts of `_beacon_loop` that are not translated have the expected shape.
"""
from __future__ import annotations

import ast
import builtins
import copy
import enum
import hashlib
import importlib
import inspect
import linecache
import random
import sys
import textwrap
from pathlib import Path

CLIENT_CID = 7100          # `cid` of the class descriptor of HttpBeaconClient
ENUM_CID = 7101            # `cid` of the descriptor of the IntEnum BeaconCommand


def _dump(n) -> str:
    return ast.dump(n, annotate_fields=False, include_attributes=False)


def _stmt(src: str):
    return ast.parse(textwrap.dedent(src)).body[0]


def _is_self_attr(n, attr=None) -> bool:
    return (isinstance(n, ast.Attribute) and isinstance(n.value, ast.Name) and n.value.id == "self"
            and (attr is None or n.attr == attr))


def _targets(st):
    if isinstance(st, ast.Assign):
        return list(st.targets)
    if isinstance(st, (ast.AnnAssign, ast.AugAssign)):
        return [st.target]
    return []


def _dotted(n):
    parts = []
    while isinstance(n, ast.Attribute):
        parts.append(n.attr)
        n = n.value
    return ".".join([n.id] + parts[::-1]) if isinstance(n, ast.Name) else None


class _Rename(ast.NodeTransformer):
    """`self.a` ↦ the variable `self__a` for the listed attributes"""

    def __init__(self, attrs):
        self.attrs = set(attrs)

    def visit_Attribute(self, n):
        if _is_self_attr(n) and n.attr in self.attrs:
            return ast.copy_location(ast.Name(id=f"self__{n.attr}", ctx=n.ctx), n)
        return self.generic_visit(n)


class Slicer:
    def __init__(self, py2leanu, module, cls):
        self.U = py2leanu.Unsupported
        self.module = module
        self.cls = cls
        src = textwrap.dedent(inspect.getsource(cls))
        tree = ast.parse(src)
        if len(tree.body) != 1 or not isinstance(tree.body[0], ast.ClassDef):
            raise self.U("cannot isolate the class HttpBeaconClient")
        self.cdef = tree.body[0]
        self.methods = {}
        for st in self.cdef.body:
            if isinstance(st, ast.FunctionDef):
                if st.name in self.methods:
                    raise self.U(f"HttpBeaconClient.{st.name} is defined twice")
                self.methods[st.name] = st
        self.globs = dict(module.__dict__)       # the globals of the synthetic functions: the module's, plus the helpers
        self.sources = {}

    def bad(self, msg):
        return self.U("client.py: " + msg)

    def method(self, name) -> ast.FunctionDef:
        if name not in self.methods:
            raise self.bad(f"HttpBeaconClient.{name} not found")
        fd = self.methods[name]
        if fd.decorator_list:
            raise self.bad(f"{name}: decorators")
        real = self.cls.__dict__.get(name)
        if not inspect.isfunction(real):
            raise self.bad(f"{name} is not a plain function of the class")
        return fd

    # -- counting stores --------------------------------------------------------------------------------------------------
    def stores_of_attr(self, attr) -> list:
        """every place in the class where `self.<attr>` is assigned / deleted (method name, node)"""
        out = []
        for name, fd in self.methods.items():
            for n in ast.walk(fd):
                if _is_self_attr(n, attr) and not isinstance(n.ctx, ast.Load):
                    out.append((name, n))
        return out

    def no_dynamic_attr_writes(self):
        """no `setattr(self, …)`, `self.__dict__`, `vars(self)`, `del` in the class: attribute stores are the visible ones"""
        for name, fd in self.methods.items():
            for n in ast.walk(fd):
                if isinstance(n, ast.Call) and isinstance(n.func, ast.Name) and n.func.id in ("setattr", "delattr", "vars", "exec", "eval"):
                    raise self.bad(f"{name}: call of {n.func.id}")
                if isinstance(n, ast.Attribute) and n.attr in ("__dict__", "__setattr__", "__class__"):
                    raise self.bad(f"{name}: use of {n.attr}")
                if isinstance(n, (ast.Delete, ast.Global, ast.Nonlocal)):
                    raise self.bad(f"{name}: {type(n).__name__}")
        for k in ("__setattr__", "__getattr__", "__getattribute__", "__slots__", "__delattr__"):
            if any(k in c.__dict__ for c in self.cls.__mro__ if c is not object):
                raise self.bad(f"the class defines {k}")

    # -- synthetic functions ----------------------------------------------------------------------------------------------
    def synth(self, name, params, body, doc):
        """a real function object made of the given statements (with the module's globals + the helpers)"""
        args = ast.arguments(posonlyargs=[], args=[ast.arg(arg=p) for p in params], kwonlyargs=[], kw_defaults=[], defaults=[])
        fd = ast.FunctionDef(name=name, args=args, body=[copy.deepcopy(s) for s in body], decorator_list=[], type_params=[])
        mod = ast.fix_missing_locations(ast.Module(body=[fd], type_ignores=[]))
        src = ast.unparse(mod) + "\n"
        filename = f"<py_client:{name}>"
        code = compile(src, filename, "exec")
        linecache.cache[filename] = (len(src), None, src.splitlines(True), filename)
        ns = self.globs
        exec(code, ns)
        fn = ns[name]
        fn.__doc__ = doc
        self.sources[name] = src
        return fn


def _slice_beacon_id(S: Slicer):
    run = S.method("run")
    stores = S.stores_of_attr("beacon_id")
    idx = [i for i, st in enumerate(run.body) if any(_is_self_attr(t, "beacon_id") for t in _targets(st))]
    if len(idx) != 2 or idx[1] != idx[0] + 1 or len(stores) != 2 or any(m != "run" for m, _ in stores):
        raise S.bad("`self.beacon_id` is not assigned by exactly two consecutive top-level statements of `run` (and nowhere else in the class)")
    if not all(isinstance(run.body[i], ast.Assign) and len(run.body[i].targets) == 1 for i in idx):
        raise S.bad("`self.beacon_id` is assigned by something other than `self.beacon_id = …`")
    chk = run.body[idx[1] + 1] if idx[1] + 1 < len(run.body) else None
    if not (isinstance(chk, ast.If) and not chk.orelse and len(chk.body) == 1 and isinstance(chk.body[0], ast.Raise)
            and any(_is_self_attr(n, "beacon_id") for n in ast.walk(chk.test))):
        raise S.bad("the statement after the two assignments of `self.beacon_id` is not `if <test on self.beacon_id>: raise …`")
    if any(isinstance(n, ast.Name) and n.id == "beacon_id" and not isinstance(n.ctx, ast.Load) for n in ast.walk(run)):
        raise S.bad("the parameter `beacon_id` of `run` is assigned")
    if "beacon_id" not in [a.arg for a in run.args.args]:
        raise S.bad("`run` has no parameter `beacon_id`")
    # the id reaches the metadata by this statement
    sink = _dump(_stmt("self.metadata.bid = self.beacon_id"))
    if sum(1 for st in run.body[idx[1] + 2:] if _dump(st) == sink) != 1:
        raise S.bad("`self.metadata.bid = self.beacon_id` not found (once, after the range check)")
    rn = _Rename(["beacon_id"])
    body = [rn.visit(copy.deepcopy(st)) for st in run.body[idx[0]:idx[1] + 2]]
    body.append(_stmt("return self__beacon_id"))
    return S.synth("normalise_beacon_id", ["beacon_id"], body,
                   "slice of HttpBeaconClient.run: the two assignments of `self.beacon_id` and the range check")


def _seeded_getrandbits(seed, k):
    """`random.seed(seed)` followed by `random.getrandbits(k)`"""
    random.seed(seed)
    return random.getrandbits(k)


def _sha256_digest(data):
    """`hashlib.sha256(data).digest()`"""
    return hashlib.sha256(data).digest()


class _Sha(ast.NodeTransformer):
    """`hashlib.sha256(X).digest()` ↦ `sha256_digest(X)`"""

    def visit_Call(self, n):
        n = self.generic_visit(n)
        f = n.func
        if (isinstance(f, ast.Attribute) and f.attr == "digest" and not n.args and not n.keywords and isinstance(f.value, ast.Call)
                and _dotted(f.value.func) == "hashlib.sha256" and len(f.value.args) == 1 and not f.value.keywords):
            return ast.copy_location(ast.Call(func=ast.Name(id="sha256_digest", ctx=ast.Load()), args=f.value.args, keywords=[]), n)
        return n


def _slice_keys(S: Slicer):
    run = S.method("run")
    if S.module.__dict__.get("random") is not random or S.module.__dict__.get("hashlib") is not hashlib:
        raise S.bad("`random` / `hashlib` are not the standard modules")
    seeds = [i for i, st in enumerate(run.body) if isinstance(st, ast.Expr) and isinstance(st.value, ast.Call)
             and _dotted(st.value.func) == "random.seed"]
    all_seeds = [n for fd in S.methods.values() for n in ast.walk(fd) if isinstance(n, ast.Call) and _dotted(n.func) == "random.seed"]
    if len(seeds) != 1 or len(all_seeds) != 1:
        raise S.bad("`random.seed(…)` is not exactly one top-level statement of `run`")
    i0 = seeds[0]
    seed_call = run.body[i0].value
    if len(seed_call.args) != 1 or seed_call.keywords:
        raise S.bad("`random.seed` is not called with one positional argument")
    attrs = ["aes_rand", "aes_key", "hmac_key"]
    end = i0
    seen = []
    for j in range(i0 + 1, len(run.body)):
        st = run.body[j]
        tg = _targets(st)
        ok = isinstance(st, ast.Assign) and len(tg) == 1 and (
            any(_is_self_attr(tg[0], a) for a in attrs) or (isinstance(tg[0], ast.Name) and tg[0].id == "digest"))
        if not ok:
            break
        seen.append(tg[0].attr if isinstance(tg[0], ast.Attribute) else tg[0].id)
        end = j
    if sorted(seen) != sorted(attrs + ["digest"]):
        raise S.bad(f"after `random.seed(…)`: expected consecutive assignments of self.aes_rand, digest, self.aes_key, self.hmac_key, found {seen}")
    for a in attrs:
        st_ = S.stores_of_attr(a)
        if len(st_) != 1 or st_[0][0] != "run":
            raise S.bad(f"`self.{a}` is assigned more than once in the class")
    if sum(1 for n in ast.walk(run) if isinstance(n, ast.Name) and n.id == "digest" and not isinstance(n.ctx, ast.Load)) != 1:
        raise S.bad("`digest` is assigned more than once in `run`")
    # `random.seed(E)` + the one `random.getrandbits(K)` of the next statement ↦ `seeded_getrandbits(E, K)`
    nxt = copy.deepcopy(run.body[i0 + 1])
    rnd = [n for n in ast.walk(nxt) if isinstance(n, ast.Attribute) and isinstance(n.value, ast.Name) and n.value.id == "random"]
    calls = [n for n in ast.walk(nxt) if isinstance(n, ast.Call) and _dotted(n.func) == "random.getrandbits"]
    if len(rnd) != 1 or len(calls) != 1 or len(calls[0].args) != 1 or calls[0].keywords:
        raise S.bad("the statement after `random.seed(…)` does not contain exactly one call `random.getrandbits(K)` (and no other use of `random`)")
    calls[0].func = ast.Name(id="seeded_getrandbits", ctx=ast.Load())
    calls[0].args = [copy.deepcopy(seed_call.args[0])] + calls[0].args
    body = [nxt] + [copy.deepcopy(st) for st in run.body[i0 + 2:end + 1]]
    if any(isinstance(n, ast.Attribute) and isinstance(n.value, ast.Name) and n.value.id == "random" for st in body for n in ast.walk(st)):
        raise S.bad("another use of `random` inside the key derivation")
    # sinks
    rest = run.body[end + 1:]
    for text in ("self.metadata.aes_rand = self.aes_rand", "self.c2http = C2Http(bconfig, aes_key=self.aes_key, hmac_key=self.hmac_key)"):
        if sum(1 for st in rest if _dump(st) == _dump(_stmt(text))) != 1:
            raise S.bad(f"`{text}` not found (once, after the key derivation)")
    if any(isinstance(n, ast.Name) and n.id == "bconfig" and not isinstance(n.ctx, ast.Load) for n in ast.walk(run)):
        raise S.bad("the parameter `bconfig` of `run` is assigned")
    rn, sha = _Rename(attrs + ["beacon_id"]), _Sha()
    body = [sha.visit(rn.visit(st)) for st in body]
    body.append(_stmt("return (self__aes_rand, self__aes_key, self__hmac_key)"))
    S.globs["seeded_getrandbits"] = _seeded_getrandbits
    S.globs["sha256_digest"] = _sha256_digest
    return S.synth("session_keys", ["self__beacon_id"], body,
                   "slice of HttpBeaconClient.run: `random.seed(…)` … `self.hmac_key = …`")


def _slice_info(S: Slicer):
    run = S.method("run")
    idx = [i for i, st in enumerate(run.body) if any(isinstance(t, ast.Name) and t.id == "info" for t in _targets(st))]
    n_stores = sum(1 for n in ast.walk(run) if isinstance(n, ast.Name) and n.id == "info" and not isinstance(n.ctx, ast.Load))
    if len(idx) != 2 or idx[1] != idx[0] + 1 or n_stores != 2:
        raise S.bad("`info` is not assigned by exactly two consecutive top-level statements of `run`")
    if not all(isinstance(run.body[i], ast.Assign) and len(run.body[i].targets) == 1 for i in idx):
        raise S.bad("`info` is assigned by something other than `info = …`")
    sinks = [st for st in run.body[idx[1] + 1:] if isinstance(st, ast.Assign) and len(st.targets) == 1
             and _dump(st.targets[0]) == _dump(_stmt("self.metadata.info = 0").targets[0])]
    all_sinks = [n for n in ast.walk(run) if isinstance(n, ast.Attribute) and n.attr == "info" and not isinstance(n.ctx, ast.Load)]
    if len(sinks) != 1 or len(all_sinks) != 1:
        raise S.bad("`self.metadata.info = …` is not exactly one top-level statement of `run` after the assignments of `info`")
    # the three names are the arguments of `run` when they are given
    names = {"user": "self.user = random_username_name() if user is None else user",
             "computer": "self.computer = random_computer_name(self.user) if computer is None else computer",
             "process": "self.process = random_process_name() if process is None else process"}
    for a, text in names.items():
        st_ = S.stores_of_attr(a)
        pos = [i for i, st in enumerate(run.body[:idx[0]]) if _dump(st) == _dump(_stmt(text))]
        if len(st_) != 1 or len(pos) != 1:
            raise S.bad(f"`{text}` not found (the only assignment of self.{a}, before `info`)")
        if any(isinstance(n, ast.Name) and n.id == a and not isinstance(n.ctx, ast.Load) for n in ast.walk(run)):
            raise S.bad(f"the parameter `{a}` of `run` is assigned")
    rn = _Rename(["computer", "user", "process"])
    body = [rn.visit(copy.deepcopy(run.body[i])) for i in idx]
    body.append(ast.Return(value=rn.visit(copy.deepcopy(sinks[0].value))))
    return S.synth("make_info", ["self__computer", "self__user", "self__process"], body,
                   "slice of HttpBeaconClient.run: the two assignments of `info` and the value stored in `self.metadata.info`")


class _SelfCalls(ast.NodeTransformer):
    """`self.<m>(args)` for a translated method `m` that does not change the client ↦ `m(self, args)`"""

    def __init__(self, names):
        self.names = set(names)

    def visit_Call(self, n):
        n = self.generic_visit(n)
        if _is_self_attr(n.func) and n.func.attr in self.names:
            return ast.copy_location(ast.Call(func=ast.Name(id=n.func.attr, ctx=ast.Load()),
                                              args=[ast.Name(id="self", ctx=ast.Load())] + n.args, keywords=n.keywords), n)
        return n


def _check_task_map(S: Slicer):
    """`self.task_map` is created empty by `__init__` and touched by `register_task` / `get_handlers` only, the lists in it are
    never handed out: `get_handlers` copies (`list(self.task_map.get(…))`)"""
    init = S.method("__init__")
    if sum(1 for st in init.body if _dump(st) == _dump(_stmt("self.task_map = {}"))) != 1:
        raise S.bad("`__init__` does not contain the statement `self.task_map = {}`")
    st_ = S.stores_of_attr("task_map")
    if len(st_) != 1 or st_[0][0] != "__init__":
        raise S.bad("`self.task_map` is assigned outside `__init__`")
    users = sorted(name for name, fd in S.methods.items() if any(_is_self_attr(n, "task_map") for n in ast.walk(fd)))
    if users != ["__init__", "get_handlers", "register_task"]:
        raise S.bad(f"`self.task_map` is used by {users}, expected __init__, get_handlers, register_task")
    if any(isinstance(n, ast.Attribute) and n.attr == "task_map" and not _is_self_attr(n) for fd in S.methods.values() for n in ast.walk(fd)):
        raise S.bad("`<something>.task_map` other than `self.task_map`")
    gh = S.method("get_handlers")
    parents = {id(c): n for n in ast.walk(gh) for c in ast.iter_child_nodes(n)}
    for n in ast.walk(gh):
        if _is_self_attr(n, "task_map"):
            get = parents.get(id(n))
            call = parents.get(id(get))
            outer = parents.get(id(call))
            if not (isinstance(get, ast.Attribute) and get.attr == "get" and isinstance(call, ast.Call) and call.func is get
                    and isinstance(outer, ast.Call) and isinstance(outer.func, ast.Name) and outer.func.id == "list" and outer.args == [call]
                    and not outer.keywords):
                raise S.bad("get_handlers: `self.task_map` is used other than as `list(self.task_map.get(…))`")


def _method_fn(S: Slicer, name, extra=(), rewrite=None):
    """the method as a synthetic module-level function (`self` an ordinary parameter; the client is threaded as a value)"""
    fd = copy.deepcopy(S.method(name))
    a = fd.args
    if a.vararg or a.kwarg or a.posonlyargs or a.kwonlyargs or a.defaults:
        raise S.bad(f"{name}: parameters other than plain positional ones")
    body = [st for st in fd.body]
    if rewrite is not None:
        body = [rewrite.visit(st) for st in body]
    return S.synth(name, [x.arg for x in a.args], body + [copy.deepcopy(e) for e in extra], f"HttpBeaconClient.{name}")


def _decorator_fn(S: Slicer, name, params):
    """`def <name>(self, …): [docstring]; def decorator(func): <body>; return decorator` ↦ `<name>_decorator(self, …, func)`:
    the closure variables are parameters, `self.register_task(a, b)` ↦ `self = register_task(self, a, b)`, `return func` ↦
    `return (func, self)`"""
    fd = S.method(name)
    body = [st for st in fd.body if not (isinstance(st, ast.Expr) and isinstance(st.value, ast.Constant) and isinstance(st.value.value, str))]
    if [x.arg for x in fd.args.args] != params or fd.args.defaults or fd.args.vararg or fd.args.kwarg or fd.args.kwonlyargs:
        raise S.bad(f"{name}: the parameters are not {params}")
    if not (len(body) == 2 and isinstance(body[0], ast.FunctionDef) and body[0].name == "decorator" and not body[0].decorator_list
            and _dump(body[1]) == _dump(_stmt("return decorator"))):
        raise S.bad(f"{name} is not `def decorator(func): …; return decorator`")
    inner = body[0]
    if [x.arg for x in inner.args.args] != ["func"] or inner.args.defaults or inner.args.vararg or inner.args.kwarg or inner.args.kwonlyargs:
        raise S.bad(f"{name}.decorator: the parameters are not (func)")
    if any(isinstance(n, ast.Name) and n.id in params and not isinstance(n.ctx, ast.Load) for n in ast.walk(inner)):
        raise S.bad(f"{name}.decorator assigns a variable of the enclosing function")
    out = []
    n_reg = 0
    for st in inner.body:
        st = copy.deepcopy(st)
        if (isinstance(st, ast.Expr) and isinstance(st.value, ast.Call) and _is_self_attr(st.value.func, "register_task")
                and len(st.value.args) == 2 and not st.value.keywords):
            n_reg += 1
            call = ast.Call(func=ast.Name(id="register_task", ctx=ast.Load()), args=[ast.Name(id="self", ctx=ast.Load())] + st.value.args, keywords=[])
            st = ast.Assign(targets=[ast.Name(id="self", ctx=ast.Store())], value=call)
        elif _dump(st) == _dump(_stmt("return func")):
            st = _stmt("return (func, self)")
        elif any(isinstance(n, ast.Name) and n.id == "self" for n in ast.walk(st)) or any(isinstance(n, ast.Return) for n in ast.walk(st)):
            raise S.bad(f"{name}.decorator: `self` / `return` in a statement other than `self.register_task(a, b)` / `return func`")
        out.append(st)
    if n_reg != 1 or not out or _dump(out[-1]) != _dump(_stmt("return (func, self)")):
        raise S.bad(f"{name}.decorator does not call `self.register_task(a, b)` once and end with `return func`")
    return S.synth(f"{name}_decorator", params + ["func"], out, f"the inner function of HttpBeaconClient.{name}")


def _strip_logging(stmts):
    """the statements without `logger.<level>(…)` / `log_task(task)` calls (an `if` left without statements is dropped)"""
    out = []
    for st in stmts:
        if isinstance(st, ast.Expr) and isinstance(st.value, ast.Call):
            d = _dotted(st.value.func)
            if d is not None and (d.startswith("logger.") or d == "log_task"):
                continue
        if isinstance(st, ast.If):
            st = copy.deepcopy(st)
            st.body = _strip_logging(st.body)
            st.orelse = _strip_logging(st.orelse)
            if not st.body and not st.orelse:
                continue
            if not st.body:
                st.body = [ast.Pass()]
        out.append(st)
    return out


LOOP_HEAD = """
task = self.get_task()
if task:
    if self.writer:
        self.writer.write(c2packet_to_record(task))
elif not self.silent:
    sleeptime = self.get_sleep_time()
    time.sleep(sleeptime / 1000)
    continue
"""
LOOP_TAIL = """
sleeptime = self.get_sleep_time()
time.sleep(sleeptime / 1000)
"""
INVOKE = """
try:
    response = handler(task)
    if response:
        self.send_callback(*response)
except Exception as e:
    pass
"""


def _invoke_handler(handler, task):
    """stands for the `try` statement around the call of one handler in `_beacon_loop` (INVOKE); never called"""
    raise NotImplementedError


def _dispatch_fn(S: Slicer):
    loop = S.method("_beacon_loop")
    body = [st for st in loop.body if not (isinstance(st, ast.Expr) and isinstance(st.value, ast.Constant))]
    if not (len(body) == 1 and isinstance(body[0], ast.While) and _dump(body[0].test) == _dump(ast.Constant(value=True)) and not body[0].orelse):
        raise S.bad("_beacon_loop is not one `while True:` loop")
    stmts = _strip_logging(body[0].body)
    head, tail = _strip_logging(ast.parse(textwrap.dedent(LOOP_HEAD)).body), ast.parse(textwrap.dedent(LOOP_TAIL)).body
    if len(stmts) != len(head) + 3 + len(tail):
        raise S.bad("_beacon_loop: the loop body does not have the expected statements")
    if [_dump(x) for x in stmts[:len(head)]] != [_dump(x) for x in head]:
        raise S.bad("_beacon_loop: the statements before `command_id = …` are not the expected ones (get_task / empty task / silent)")
    if [_dump(x) for x in stmts[-len(tail):]] != [_dump(x) for x in tail]:
        raise S.bad("_beacon_loop: the statements after the `for` over the handlers are not the expected ones (sleep)")
    mid = stmts[len(head):len(head) + 3]
    a1, a2, loop_for = mid
    ok = (isinstance(a1, ast.Assign) and len(a1.targets) == 1 and _dump(a1.targets[0]) == _dump(ast.Name(id="command_id", ctx=ast.Store()))
          and _dump(a2) == _dump(_stmt("handlers = self.get_handlers(command_id)"))
          and isinstance(loop_for, ast.For) and not loop_for.orelse and _dump(loop_for.target) == _dump(ast.Name(id="handler", ctx=ast.Store()))
          and _dump(loop_for.iter) == _dump(ast.Name(id="handlers", ctx=ast.Load())))
    if not ok:
        raise S.bad("_beacon_loop: expected `command_id = …; handlers = self.get_handlers(command_id); for handler in handlers: …`")
    fb = _strip_logging(loop_for.body)
    if not (len(fb) == 1 and isinstance(fb[0], ast.If) and not fb[0].orelse and len(fb[0].body) == 1 and isinstance(fb[0].body[0], ast.Try)):
        raise S.bad("_beacon_loop: the body of the `for` is not `if <test>: try: …`")
    tr = copy.deepcopy(fb[0].body[0])
    for h in tr.handlers:
        h.body = _strip_logging(h.body) or [ast.Pass()]
    tr.body = _strip_logging(tr.body)
    if _dump(tr) != _dump(_stmt(INVOKE)):
        raise S.bad("_beacon_loop: the `try` statement around the call of a handler is not the expected one")
    for v in ("task", "command_id", "handlers", "handler"):
        n = sum(1 for m in ast.walk(loop) if isinstance(m, ast.Name) and m.id == v and not isinstance(m.ctx, ast.Load))
        if n != 1:
            raise S.bad(f"_beacon_loop: `{v}` is assigned {n} times")
    new_if = copy.deepcopy(fb[0])
    new_if.body = [_stmt("events.append(invoke_handler(handler, task))")]
    new_for = copy.deepcopy(loop_for)
    new_for.body = [new_if]
    rw = _SelfCalls(["get_handlers"])
    out = [_stmt("events = []"), copy.deepcopy(a1), rw.visit(copy.deepcopy(a2)), new_for, _stmt("return events")]
    S.globs["invoke_handler"] = _invoke_handler
    return S.synth("dispatch", ["self", "task"], out, "slice of HttpBeaconClient._beacon_loop: `command_id = …` to the end of the `for` over the handlers")


def _intenum_descriptor(py2leanu, BC) -> str:
    if not (isinstance(BC, type) and issubclass(BC, enum.IntEnum)):
        raise py2leanu.Unsupported("client.BeaconCommand is not a stdlib IntEnum")
    for k in ("_missing_", "__bool__", "__eq__", "__hash__", "__call__", "__new__", "__init__", "name", "value"):
        if k in BC.__dict__ and k != "__new__":
            raise py2leanu.Unsupported(f"BeaconCommand defines {k}")
    if BC._missing_.__func__ is not enum.Enum._missing_.__func__ or type(BC) is not enum.EnumType:
        raise py2leanu.Unsupported("BeaconCommand has its own `_missing_` / metaclass")
    rows = []
    for m in BC:                      # canonical members only (aliases are reached by value through the canonical one)
        v = int(m.value)
        if v < 0 or not m.name.isascii() or BC(v) is not m or m.name != BC(v).name:
            raise py2leanu.Unsupported(f"BeaconCommand member {m!r}: negative value / non-ASCII name / not canonical")
        if not all(c.isalnum() or c == "_" for c in m.name):
            raise py2leanu.Unsupported(f"BeaconCommand member name {m.name!r} is not an identifier")
        # the name as `String.ofList [chars]` (not a string literal): `String.toList (String.ofList l) = l` is a library THEOREM,
        # whereas the kernel evaluates `String.toList "literal"` through the UTF-8 representation (≈ 0.1 s per name)
        rows.append(f"({v}, String.ofList [{', '.join(repr(c) for c in m.name)}])  -- {m.name}")
    return ("/-- `dissect.cobaltstrike.c_c2.BeaconCommand` (a Python `enum.IntEnum`): the canonical members `(value, name)`; `size` / `bigEndian` unused -/\n"
            f"def BeaconCommand : PyU.EnumCls := {{ cid := {ENUM_CID}, size := 0, bigEndian := false, members := [\n  "
            + "\n  ".join(r.replace("  -- ", ("," if i + 1 < len(rows) else "") + "  -- ") for i, r in enumerate(rows)) + "\n  ] }\n")


def generate(repo: Path):
    tools = str(Path(__file__).resolve().parent.parent)
    if tools not in sys.path:
        sys.path.insert(0, tools)
    import py2leanu
    M = importlib.import_module("dissect.cobaltstrike.client")
    cls = M.HttpBeaconClient
    S = Slicer(py2leanu, M, cls)
    S.no_dynamic_attr_writes()

    f_id = _slice_beacon_id(S)
    f_keys = _slice_keys(S)
    f_info = _slice_info(S)

    # registry / dispatch
    _check_task_map(S)
    for b in ("getattr", "callable", "list", "isinstance", "int"):
        if b in M.__dict__:
            raise py2leanu.Unsupported(f"client.py defines its own `{b}`")
    S.globs["getattr"] = builtins.getattr
    S.globs["callable"] = builtins.callable
    f_reg = _method_fn(S, "register_task", extra=[_stmt("return self")])
    f_handle = _decorator_fn(S, "handle", ["self", "command"])
    f_catch = _decorator_fn(S, "catch_all", ["self"])
    f_gh = _method_fn(S, "get_handlers")
    f_disp = _dispatch_fn(S)

    registry = {
        "random.getrandbits": (random.getrandbits, "extern", ("getrandbits", 1, [])),
        "seeded_getrandbits": (_seeded_getrandbits, "extern", ("seeded_getrandbits", 2, [])),
        "sha256_digest": (_sha256_digest, "extern", ("sha256_digest", 1, [])),
        "getattr": (builtins.getattr, "extern", ("getattr_", 3, [])),
        "callable": (builtins.callable, "extern", ("callable_", 1, [])),
        "invoke_handler": (_invoke_handler, "extern", ("invoke_handler", 2, [])),
        "BeaconCommand": (M.BeaconCommand, "intenum", "BeaconCommand"),
        "logger.debug": (M.logger.debug, "noop", None),
    }
    unit = py2leanu.Unit("Gen.PyClient", ["CsVerif.Model.PyU_T19"], registry)
    unit.t19 = True
    unit.prelude.append(f"/-- `HttpBeaconClient` as far as the translated methods look at it: an object with the attribute `task_map` (created empty by "
                        f"`__init__`); its `on_*` attributes are reached through the external function `getattr_` -/\n"
                        f"def HttpBeaconClientCls : PyU.Cls := {{ cid := {CLIENT_CID}, fields := [\"task_map\"], isTuple := false, bases := [] }}\n")
    unit.prelude.append(_intenum_descriptor(py2leanu, M.BeaconCommand))
    names = ["HttpBeaconClientCls", "BeaconCommand"]
    for fn in (f_id, f_keys, f_info, f_reg, f_handle, f_catch, f_gh, f_disp):
        unit.translate(fn)
    names += unit.names
    header = ("client.py: the beacon id / session key / info slices of HttpBeaconClient.run, register_task, the handle / catch_all "
              "decorators, get_handlers and the dispatch part of _beacon_loop (C19), translated by the untyped translator\n\n"
              "The synthetic functions the slices were wrapped into (see tools/gen/py_client.py):\n\n"
              + "\n".join(S.sources[k] for k in S.sources).replace("-/", "- /"))
    return "PyClient.lean", unit.render(header), names


if __name__ == "__main__":
    sys.path.insert(0, sys.argv[1] if len(sys.argv) > 1 else "/repo")
    print(generate(Path(sys.argv[1] if len(sys.argv) > 1 else "/repo"))[1])

"""Translator plug-in: the configuration extraction of C01 — `beacon.find_beacon_config_bytes`, `beacon.iter_beacon_config_blocks`,
`BeaconConfig.from_file / from_bytes` and (again, for file-like objects of any class) `utils.iter_find_needle` — translated
statement by statement from their *source* by the untyped translator (tools/py2leanu.py) → lean/CsVerif/Gen/PyExtract.lean
(namespace `Gen.PyExtract`).  Props/C01Gen.lean proves the translated definitions equal to the hand-written model of C01.

FIRST-YIELD FORM.  `BeaconConfig.from_file` runs `iter_beacon_config_blocks(...)` only up to its first `yield` (every path through
the body of its `for` statement ends in `return` / an exception: the generator is never resumed); that generator in turn resumes
`find_beacon_config_bytes(...)` only after it has yielded itself, and so on down to `iter_find_needle`.  So what the anchored entry
points observe of each generator is: the value of its FIRST yield (or that it ends without one, or the exception it raises before),
and the state in which it leaves the file object at that moment.  That is what is translated: the first-yield form `g__first` of
a generator function `g` is the ordinary function that runs the body of `g` up to the first `yield e` and returns the 1-tuple
`(e,)`, or `None` when the body ends without a yield.  It is obtained from the source of `g` by the rewriting below (`first_yield_form`;
exact, no assumption about what happens after the first yield is needed):
  * `yield e`                       ->  `ret0 = (e,)` followed by `break` inside a loop; statements after it in the block are dropped
                                        (they would only run when the generator is resumed)
  * after a loop that contains a yield (inside another loop)   `if ret0 is not None: break`
  * after a statement that contains a yield (not inside a loop) the rest of the block runs under `if ret0 is None:`
  * `ret0 = None` at the start, `return ret0` at the end; a generator with a `return` statement is rejected
  * `yield from E`                  ->  `for yf0 in E: yield yf0` (E a call of a generator function that has a first-yield form)
  * `for x in g(args): BODY` where `g` has a first-yield form and every path through BODY ends — in its first run — in `yield`,
    `return` or `raise` without `break` / `continue`:   `r<k> = g__first(args)`; `if r<k> is not None: x = r<k>[0]; BODY`
  * `typing.cast(T, e)`             ->  `e`
The full runs of the generators (what `list(g(...))` returns; there `find_beacon_config_bytes` moves the file under the running
scanner) stay tied by correspondence (`blocks` stream of C01).

File-like objects: see lean/CsVerif/Model/PyU_T01.lean and `_Fn.t01_scan` of the translator (dynamic dispatch of read / seek / tell
between an ordinary file and the `XorEncodedFile` view translated in Gen/PyXor.lean; handles).
"""
from __future__ import annotations

import ast
import functools
import importlib
import inspect
import io
import logging
import sys
import types
import typing
from pathlib import Path

RET = "ret0"


def _unsupported(msg):
    import py2leanu
    return py2leanu.Unsupported(msg)


def _has_yield(node) -> bool:
    return any(isinstance(m, (ast.Yield, ast.YieldFrom)) for m in ast.walk(node))


def _is_yield_stmt(st) -> bool:
    return isinstance(st, ast.Expr) and isinstance(st.value, ast.Yield) and st.value.value is not None


def _name(i, ctx=None):
    return ast.Name(id=i, ctx=ctx or ast.Load())


def _is_none_test(var, negate):
    return ast.Compare(left=_name(var), ops=[ast.IsNot() if negate else ast.Is()], comparators=[ast.Constant(value=None)])


class _Rewriter:
    """the rewriting of the module docstring for one function definition"""

    def __init__(self, fname, globs, firsts):
        self.fname = fname
        self.globs = globs
        self.firsts = firsts          # python generator function object -> name of its first-yield form in the unit
        self.k = 0

    def bad(self, msg):
        return _unsupported(f"{self.fname} (first-yield form): {msg}")

    # -- typing.cast
    def strip_casts(self, fd):
        rw = self

        class R(ast.NodeTransformer):
            def visit_Call(self, n):
                self.generic_visit(n)
                if isinstance(n.func, ast.Name) and n.func.id == "cast" and rw.globs.get("cast") is typing.cast:
                    if len(n.args) != 2 or n.keywords:
                        raise rw.bad("cast(…) with other than two positional arguments")
                    if any(isinstance(m, (ast.Call, ast.Yield, ast.Await, ast.NamedExpr)) for m in ast.walk(n.args[0])):
                        raise rw.bad("cast(T, e): the type expression has an effect")
                    return n.args[1]
                return n
        stored = {m.id for m in ast.walk(fd) if isinstance(m, ast.Name) and not isinstance(m.ctx, ast.Load)} | {a.arg for a in fd.args.args}
        if "cast" in stored:
            raise self.bad("a local variable named cast")
        return R().visit(fd)

    # -- consumers of generators that have a first-yield form
    def gen_first(self, call):
        """the name of the first-yield form of the generator function called by `call`, or None"""
        if not isinstance(call, ast.Call) or not isinstance(call.func, ast.Name):
            return None
        if getattr(call, "_t01_first", None) is not None:
            return call._t01_first
        obj = self.globs.get(call.func.id)
        for g, name, adapt in self.firsts:
            if obj is g:
                call._t01_first = name if adapt is None else adapt(self, call)
                return call._t01_first
        return None

    def always_exits(self, stmts) -> bool:
        """every path through the block ends in yield / return / raise, and no `break` / `continue` leaves it"""
        if not stmts:
            return False
        for st in stmts:
            for m in ast.walk(st):
                if isinstance(m, (ast.Break, ast.Continue)):
                    inner = any(isinstance(l, (ast.For, ast.While)) and any(m is x for x in ast.walk(l)) for s in stmts for l in ast.walk(s))
                    if not inner:
                        return False
        last = stmts[-1]
        if _is_yield_stmt(last) or isinstance(last, (ast.Return, ast.Raise)):
            return True
        if isinstance(last, ast.If) and last.orelse:
            return self.always_exits(last.body) and self.always_exits(last.orelse)
        return False

    def consumers(self, stmts):
        out = []
        for st in stmts:
            if isinstance(st, ast.Expr) and isinstance(st.value, ast.YieldFrom):
                tgt = "yf0"
                st = ast.For(target=_name(tgt, ast.Store()), iter=st.value.value,
                             body=[ast.Expr(value=ast.Yield(value=_name(tgt)))], orelse=[], type_comment=None)
            for field in ("body", "orelse", "finalbody"):
                blk = getattr(st, field, None)
                if isinstance(blk, list) and blk and isinstance(blk[0], ast.stmt):
                    setattr(st, field, self.consumers(blk))
            if isinstance(st, ast.Try):
                for h in st.handlers:
                    h.body = self.consumers(h.body)
            if isinstance(st, ast.For) and self.gen_first(st.iter) is not None:
                if st.orelse or not self.always_exits(st.body):
                    raise self.bad(f"the loop over {ast.unparse(st.iter)[:50]} can resume the generator (its body does not end in yield / "
                                   f"return / raise on every path, or has break / continue / else)")
                self.k += 1
                r = f"r{self.k}"
                call = ast.Call(func=_name(self.gen_first(st.iter)), args=st.iter.args, keywords=st.iter.keywords)
                out.append(ast.Assign(targets=[_name(r, ast.Store())], value=call))
                take = ast.Assign(targets=[st.target], value=ast.Subscript(value=_name(r), slice=ast.Constant(value=0), ctx=ast.Load()))
                out.append(ast.If(test=_is_none_test(r, True), body=[take] + st.body, orelse=[]))
            else:
                out.append(st)
        return out

    # -- the first-yield form of a block
    def first(self, stmts, in_loop):
        out = []
        for i, st in enumerate(stmts):
            if _is_yield_stmt(st):
                out.append(ast.Assign(targets=[_name(RET, ast.Store())], value=ast.Tuple(elts=[st.value.value], ctx=ast.Load())))
                if in_loop:
                    out.append(ast.Break())
                return out           # what follows runs only when the generator is resumed
            if not _has_yield(st):
                out.append(st)
                continue
            is_loop = isinstance(st, (ast.For, ast.While))
            yield_in_inner_loop = any(isinstance(l, (ast.For, ast.While)) and _has_yield(l) for l in ast.walk(st))
            if isinstance(st, ast.If):
                st.body = self.first(st.body, in_loop)
                st.orelse = self.first(st.orelse, in_loop)
            elif is_loop:
                if st.orelse or _has_yield(st.iter if isinstance(st, ast.For) else st.test):
                    raise self.bad("loop … else / a yield expression in a loop header")
                st.body = self.first(st.body, True)
            elif isinstance(st, ast.Try):
                if st.orelse or st.finalbody or any(_has_yield(h) for h in st.handlers):
                    raise self.bad("try … else / finally / a yield inside an exception handler")
                st.body = self.first(st.body, in_loop)
            else:
                raise self.bad(f"yield inside {type(st).__name__}: {ast.unparse(st)[:50]}")
            out.append(st)
            rest = stmts[i + 1:]
            if rest:
                if in_loop:
                    # inside a loop a `break` has already left it — except when the yield sits in an inner loop
                    if yield_in_inner_loop:
                        out.append(ast.If(test=_is_none_test(RET, True), body=[ast.Break()], orelse=[]))
                    out += self.first(rest, in_loop)
                else:
                    out.append(ast.If(test=_is_none_test(RET, False), body=self.first(rest, False), orelse=[]))
            return out
        return out

    def run(self, fd, new_name=None, generator=True):
        names = {m.id for m in ast.walk(fd) if isinstance(m, ast.Name)} | {a.arg for a in fd.args.args}
        if names & ({RET, "yf0"} | {f"r{i}" for i in range(1, 10)}):
            raise self.bad("a variable name clashes with ret0 / yf0 / r1 …")
        for m in ast.walk(fd):
            if isinstance(m, ast.Yield) and m.value is None or isinstance(m, (ast.Lambda, ast.FunctionDef, ast.AsyncFunctionDef)) and m is not fd:
                raise self.bad("bare yield / nested function")
        fd = self.strip_casts(fd)
        fd.body = self.consumers(fd.body)
        if generator:
            if not _has_yield(fd):
                raise self.bad("not a generator function")
            if any(isinstance(m, ast.Return) for m in ast.walk(fd)):
                raise self.bad("`return` in a generator")
            doc = []
            body = list(fd.body)
            if body and isinstance(body[0], ast.Expr) and isinstance(body[0].value, ast.Constant) and isinstance(body[0].value.value, str):
                doc, body = body[:1], body[1:]
            fd.body = (doc + [ast.Assign(targets=[_name(RET, ast.Store())], value=ast.Constant(value=None))] + self.first(body, False)
                       + [ast.Return(value=_name(RET))])
        elif _has_yield(fd):
            raise self.bad("a generator function where an ordinary function is expected")
        if new_name:
            fd.name = new_name
        fd.returns = None
        return ast.fix_missing_locations(fd)


def _pure_test(n) -> bool:
    """a condition without effect that cannot raise: a variable, `not <such>`"""
    return isinstance(n, ast.Name) or isinstance(n, ast.UnaryOp) and isinstance(n.op, ast.Not) and _pure_test(n.operand)


def specialise(fd, consts: dict, fname):
    """PARTIAL EVALUATION of a function for parameters that its callers leave to a constant: the parameter `p` (never assigned in
    the body; when `consts[p]` is its default the callers in question simply do not pass it) is removed and every read of `p` is
    replaced by the constant `consts[p]`; then `not <const>` is folded, a conjunction with the operand `True` loses that operand, a
    conjunction `… and False` whose other operands are plain variables (possibly negated: evaluating them has no effect and cannot
    raise) is `False`, `if True: B` is `B` and `if False: B else: C` is `C`.  A keyword argument `p=<the same constant>` of a call
    of the function itself is dropped (the specialised function has no such parameter).  Exact for the calls described."""
    for m in ast.walk(fd):
        if isinstance(m, ast.Name) and m.id in consts and not isinstance(m.ctx, ast.Load):
            raise _unsupported(f"{fname}: the parameter {m.id} is assigned (cannot be specialised)")
    keep, defaults = [], []
    nd = len(fd.args.defaults)
    all_defaults = [None] * (len(fd.args.args) - nd) + list(fd.args.defaults)
    for a, d in zip(fd.args.args, all_defaults):
        if a.arg in consts:
            continue
        keep.append(a)
        defaults.append(d)
    if any(d is None for d in defaults[next((i for i, d in enumerate(defaults) if d is not None), len(defaults)):]):
        raise _unsupported(f"{fname}: a parameter without default would follow one with a default")
    fd.args.args = keep
    fd.args.defaults = [d for d in defaults if d is not None]

    class R(ast.NodeTransformer):
        def visit_Name(self, n):
            if n.id in consts and isinstance(n.ctx, ast.Load):
                return ast.copy_location(ast.Constant(value=consts[n.id]), n)
            return n

        def visit_Call(self, n):
            self.generic_visit(n)
            if isinstance(n.func, ast.Name) and n.func.id == fname:
                kw = []
                for k in n.keywords:
                    if k.arg in consts:
                        if not (isinstance(k.value, ast.Constant) and k.value.value is consts[k.arg]):
                            raise _unsupported(f"{fname}: the recursive call passes {k.arg}={ast.unparse(k.value)}")
                        continue
                    kw.append(k)
                n.keywords = kw
            return n

        def visit_UnaryOp(self, n):
            self.generic_visit(n)
            if isinstance(n.op, ast.Not) and isinstance(n.operand, ast.Constant) and isinstance(n.operand.value, bool):
                return ast.copy_location(ast.Constant(value=not n.operand.value), n)
            return n

        def visit_BoolOp(self, n):
            self.generic_visit(n)
            if isinstance(n.op, ast.And):
                if any(isinstance(v, ast.Constant) and v.value is False for v in n.values) and \
                        all(_pure_test(v) or isinstance(v, ast.Constant) and isinstance(v.value, bool) for v in n.values):
                    return ast.copy_location(ast.Constant(value=False), n)
                vals = [v for v in n.values if not (isinstance(v, ast.Constant) and v.value is True)]
                if len(vals) != len(n.values) and all(isinstance(v, ast.Constant) and isinstance(v.value, bool) or True for v in vals):
                    # `A and True` has the VALUE of `True` when A is true: only in condition position is it `A` — checked below
                    n.values = vals or [ast.Constant(value=True)]
                    n._t01_cond_only = True
                    if len(n.values) == 1:
                        only = n.values[0]
                        only._t01_cond_only = True
                        return only
            return n

    cond_positions = set()
    for m in ast.walk(fd):
        if isinstance(m, (ast.If, ast.While)):
            cond_positions.add(id(m.test))
    before = {id(m) for m in ast.walk(fd) if isinstance(m, ast.BoolOp)}
    # a conjunction may only lose a `True` operand where it is used as a condition
    for m in ast.walk(fd):
        if isinstance(m, ast.BoolOp) and isinstance(m.op, ast.And) and id(m) not in cond_positions \
                and any(isinstance(v, ast.Name) and v.id in consts for v in ast.walk(m)):
            raise _unsupported(f"{fname}: a specialised parameter inside a conjunction that is not the test of an `if`")
    fd = R().visit(fd)

    def fold(stmts):
        out = []
        for st in stmts:
            for field in ("body", "orelse", "finalbody"):
                blk = getattr(st, field, None)
                if isinstance(blk, list) and (not blk or isinstance(blk[0], ast.stmt)):
                    setattr(st, field, fold(blk))
            if isinstance(st, ast.Try):
                for h in st.handlers:
                    h.body = fold(h.body)
            if isinstance(st, ast.If) and isinstance(st.test, ast.Constant) and isinstance(st.test.value, bool):
                out += st.body if st.test.value else st.orelse
            else:
                out.append(st)
        return out
    fd.body = fold(fd.body)
    if not fd.body:
        fd.body = [ast.Pass()]
    return ast.fix_missing_locations(fd)


def cut_slice(fd, first_target: str, last_pred, new_name: str, result: str):
    """STATEMENT SLICE: the run of consecutive statements of one block of `fd` that starts with the assignment `first_target = …`
    and ends with the first later statement for which `last_pred` holds becomes the body of a function `new_name` of the variables
    it reads (in order of first use), ending in `return <result>`; in `fd` it is replaced by `result = new_name(<those variables>)`.
    Required (checked): exactly one such place; of the variables the slice assigns only `result` is mentioned after it; the slice
    contains no return / yield / break / continue that would leave it.  Answers (fd, the new FunctionDef, its parameters)."""
    places = []
    for holder in ast.walk(fd):
        for field in ("body", "orelse", "finalbody"):
            blk = getattr(holder, field, None)
            if not (isinstance(blk, list) and blk and isinstance(blk[0], ast.stmt)):
                continue
            for i, st in enumerate(blk):
                if isinstance(st, ast.Assign) and len(st.targets) == 1 and isinstance(st.targets[0], ast.Name) and st.targets[0].id == first_target:
                    j = next((k for k in range(i, len(blk)) if last_pred(blk[k])), None)
                    if j is not None:
                        places.append((blk, i, j))
    if len(places) != 1:
        raise _unsupported(f"{fd.name}: cannot locate the statements from `{first_target} = …` on ({len(places)} places)")
    blk, i, j = places[0]
    piece = blk[i:j + 1]
    for st in piece:
        for m in ast.walk(st):
            if isinstance(m, (ast.Return, ast.Yield, ast.YieldFrom, ast.Global, ast.Nonlocal)):
                raise _unsupported(f"{fd.name}: {type(m).__name__} inside the slice `{first_target} = …`")
            if isinstance(m, (ast.Break, ast.Continue)) and not any(
                    isinstance(l, (ast.For, ast.While)) and any(m is x for x in ast.walk(l)) for s in piece for l in ast.walk(s)):
                raise _unsupported(f"{fd.name}: break / continue leaves the slice `{first_target} = …`")
    lam_params = {a.arg for st in piece for m in ast.walk(st) if isinstance(m, ast.Lambda) for a in m.args.args}
    comp_vars = {m.id for st in piece for c in ast.walk(st) if isinstance(c, ast.comprehension) for m in ast.walk(c.target) if isinstance(m, ast.Name)}
    assigned, reads = [], []
    for st in piece:
        for m in ast.walk(st):
            if isinstance(m, ast.Name):
                if isinstance(m.ctx, ast.Load):
                    if m.id not in assigned and m.id not in reads and m.id not in lam_params and m.id not in comp_vars:
                        reads.append(m.id)
                elif m.id not in assigned:
                    assigned.append(m.id)
    fn_locals = {m.id for m in ast.walk(fd) if isinstance(m, ast.Name) and not isinstance(m.ctx, ast.Load)} | {a.arg for a in fd.args.args}
    params = [v for v in reads if v in fn_locals]
    # (a variable that is read before the slice assigns it must come from outside; order of `ast.walk` is not evaluation order,
    #  so require that no variable is both read-from-outside and assigned by the slice)
    if set(params) & set(assigned):
        raise _unsupported(f"{fd.name}: the slice `{first_target} = …` reads and assigns {sorted(set(params) & set(assigned))}")
    after = [m.id for holder in [fd] for m in ast.walk(holder) if isinstance(m, ast.Name)
             and not any(m is x for st in piece for x in ast.walk(st))]
    leaked = [v for v in assigned if v != result and v in after]
    if leaked or result not in assigned:
        raise _unsupported(f"{fd.name}: the slice `{first_target} = …` assigns {leaked}, which the rest of the function mentions")
    new = ast.FunctionDef(name=new_name, args=ast.arguments(posonlyargs=[], args=[ast.arg(arg=v) for v in params], kwonlyargs=[], kw_defaults=[], defaults=[]),
                          body=piece + [ast.Return(value=_name(result))], decorator_list=[], returns=None, type_comment=None)
    if hasattr(fd, "type_params"):
        new.type_params = []
    call = ast.Assign(targets=[_name(result, ast.Store())], value=ast.Call(func=_name(new_name), args=[_name(v) for v in params], keywords=[]))
    blk[i:j + 1] = [call]
    return ast.fix_missing_locations(fd), ast.fix_missing_locations(new), params


def method_as_function(fd, globs, cls_name: str):
    """a `@classmethod` that is called on the class itself (`BeaconConfig.from_file(…)`): the decorator and the first parameter are
    removed and `cls(args)` — the only permitted use of `cls` — becomes `<cls_name>(args)` (the class as named in the module)"""
    if [ast.unparse(d) for d in fd.decorator_list] != ["classmethod"] or globs.get("classmethod", classmethod) is not classmethod:
        raise _unsupported(f"{fd.name}: decorators other than @classmethod")
    fd.decorator_list = []
    me = fd.args.args[0].arg
    fd.args.args = fd.args.args[1:]
    parents = {id(c): n for n in ast.walk(fd) for c in ast.iter_child_nodes(n)}
    for m in ast.walk(fd):
        if isinstance(m, ast.Name) and m.id == me:
            par = parents.get(id(m))
            if not (isinstance(m.ctx, ast.Load) and isinstance(par, ast.Call) and par.func is m):
                raise _unsupported(f"{fd.name}: `{me}` is used other than as `{me}(…)`")
            m.id = cls_name
    if any(isinstance(m, ast.Name) and m.id == cls_name and not isinstance(m.ctx, ast.Load) for m in ast.walk(fd)):
        raise _unsupported(f"{fd.name}: a local variable named {cls_name}")
    return fd


def _map_blocks(node, f):
    """apply `f` (statement list -> statement list) to every block below `node`, innermost first"""
    for field in ("body", "orelse", "finalbody"):
        blk = getattr(node, field, None)
        if isinstance(blk, list) and blk and isinstance(blk[0], ast.stmt):
            for st in blk:
                _map_blocks(st, f)
            setattr(node, field, f(blk))
    if isinstance(node, ast.Try):
        for h in node.handlers:
            for st in h.body:
                _map_blocks(st, f)
            h.body = f(h.body)
    return node


def split_conditional_try(fd):
    """`try: H = (E if C else F) except ValueError: H = F` with `C` a variable or an attribute of a variable (reading it has no effect
    and raises no ValueError) becomes `if C: try: H = E except ValueError: H = F  else: H = F`"""
    def f(stmts):
        out = []
        for st in stmts:
            if (isinstance(st, ast.Try) and len(st.body) == 1 and not st.orelse and not st.finalbody and len(st.handlers) == 1
                    and isinstance(st.body[0], ast.Assign) and isinstance(st.body[0].value, ast.IfExp) and len(st.body[0].targets) == 1
                    and isinstance(st.body[0].targets[0], ast.Name)):
                a = st.body[0]
                c, e, alt = a.value.test, a.value.body, a.value.orelse
                h = st.handlers[0]
                pure_c = isinstance(c, ast.Name) or isinstance(c, ast.Attribute) and isinstance(c.value, ast.Name)
                same = (len(h.body) == 1 and isinstance(h.body[0], ast.Assign) and ast.dump(h.body[0].targets[0]) == ast.dump(a.targets[0])
                        and ast.dump(h.body[0].value) == ast.dump(alt) and isinstance(alt, ast.Name))
                if not (pure_c and same):
                    raise _unsupported(f"{fd.name}: try over a conditional expression of an unexpected shape: {ast.unparse(st)[:80]}")
                inner = ast.Try(body=[ast.Assign(targets=a.targets, value=e)], handlers=st.handlers, orelse=[], finalbody=[])
                other = ast.Assign(targets=[ast.Name(id=a.targets[0].id, ctx=ast.Store())], value=alt)
                out.append(ast.If(test=c, body=[inner], orelse=[other]))
            else:
                out.append(st)
        return out
    return _map_blocks(fd, f)


def split_attr_unpack(fd):
    """`a.x, a.y = E` becomes `u<k>, u<k+1> = E; a.x = u<k>; a.y = u<k+1>` (Python unpacks `E` completely, then stores left to right)"""
    count = [0]

    def f(stmts):
        out = []
        for st in stmts:
            if (isinstance(st, ast.Assign) and len(st.targets) == 1 and isinstance(st.targets[0], ast.Tuple)
                    and any(isinstance(e, ast.Attribute) for e in st.targets[0].elts)):
                elts = st.targets[0].elts
                if not all(isinstance(e, ast.Attribute) and isinstance(e.value, ast.Name) for e in elts) or len(elts) not in (2, 3):
                    raise _unsupported(f"{fd.name}: assignment target {ast.unparse(st.targets[0])[:60]}")
                tmps = []
                for _ in elts:
                    count[0] += 1
                    tmps.append(f"u{count[0]}")
                out.append(ast.Assign(targets=[ast.Tuple(elts=[_name(t, ast.Store()) for t in tmps], ctx=ast.Store())], value=st.value))
                out += [ast.Assign(targets=[e], value=_name(t)) for e, t in zip(elts, tmps)]
            else:
                out.append(st)
        return out
    names = {m.id for m in ast.walk(fd) if isinstance(m, ast.Name)}
    if names & {f"u{i}" for i in range(1, 10)}:
        raise _unsupported(f"{fd.name}: a variable named u1 …")
    return _map_blocks(fd, f)


def select_loops(fd, rewriter):
    """`for x in IT: <guards>; <tail>` (not inside another loop) where every guard is `if <cond>: continue` and every path through
    <tail> ends in return / raise without break / continue: the tail runs at most once — for the first item that passes the guards —
    and then the function ends.  It becomes
        sel<k> = None
        for x in IT: <guards>; sel<k> = (x,); break
        if sel<k> is not None: x = sel<k>[0]; <tail>
    (the items are delivered by `IT` before the tail runs: exact when `IT` is a list; for an external generator function this is the
    modelling assumption "the generator is run to its end before the loop body" of DESIGN §12.4)"""
    count = [0]

    def f(stmts):
        out = []
        for st in stmts:
            if isinstance(st, ast.For) and any(isinstance(m, ast.Return) for m in ast.walk(st)):
                if st.orelse or not isinstance(st.target, ast.Name):
                    raise rewriter.bad("a loop with `return` inside: else clause / a target that is not a variable")
                k = 0
                while k < len(st.body) and isinstance(st.body[k], ast.If) and not st.body[k].orelse and len(st.body[k].body) == 1 \
                        and isinstance(st.body[k].body[0], ast.Continue):
                    k += 1
                guards, tail = st.body[:k], st.body[k:]
                if not rewriter.always_exits(tail) or any(isinstance(m, (ast.Yield, ast.YieldFrom)) for t in tail for m in ast.walk(t)):
                    raise rewriter.bad(f"the loop over {ast.unparse(st.iter)[:40]} returns from a body that is not <guards>; <tail ending in return / raise>")
                count[0] += 1
                sel = f"sel{count[0]}"
                x = st.target.id
                pick = ast.Assign(targets=[_name(sel, ast.Store())], value=ast.Tuple(elts=[_name(x)], ctx=ast.Load()))
                out.append(ast.Assign(targets=[_name(sel, ast.Store())], value=ast.Constant(value=None)))
                out.append(ast.For(target=st.target, iter=st.iter, body=guards + [pick, ast.Break()], orelse=[], type_comment=None))
                take = ast.Assign(targets=[_name(x, ast.Store())], value=ast.Subscript(value=_name(sel), slice=ast.Constant(value=0), ctx=ast.Load()))
                out.append(ast.If(test=_is_none_test(sel, True), body=[take] + tail, orelse=[]))
            else:
                out.append(st)
        return out
    names = {m.id for m in ast.walk(fd) if isinstance(m, ast.Name)}
    if names & {f"sel{i}" for i in range(1, 10)}:
        raise rewriter.bad("a variable named sel1 …")
    for m in ast.walk(fd):
        if isinstance(m, (ast.For, ast.While)):
            for inner in ast.walk(m):
                if inner is not m and isinstance(inner, (ast.For, ast.While)) and any(isinstance(r, ast.Return) for r in ast.walk(inner)):
                    raise rewriter.bad("`return` inside a nested loop")
    fd.body = f(fd.body)
    for st in fd.body:
        if isinstance(st, ast.If):
            st.body = f(st.body)
            st.orelse = f(st.orelse)
    return fd


def split_chained_eq(fd):
    """`a == b == c` (all operators `==`, the inner operands variables / constants / `v[<constant>]`: evaluating one of them a second
    time has no effect and gives the same value or the same exception) becomes `a == b and b == c` (same short-circuit order)"""
    def simple(n):
        return isinstance(n, (ast.Name, ast.Constant)) or isinstance(n, ast.Subscript) and isinstance(n.value, ast.Name) \
            and isinstance(n.slice, ast.Constant)

    class R(ast.NodeTransformer):
        def visit_Compare(self, n):
            self.generic_visit(n)
            if len(n.ops) > 1:
                if not all(isinstance(o, ast.Eq) for o in n.ops) or not all(simple(c) for c in n.comparators[:-1]):
                    raise _unsupported(f"{fd.name}: chained comparison {ast.unparse(n)[:60]}")
                terms = [n.left] + list(n.comparators)
                import copy
                return ast.BoolOp(op=ast.And(), values=[ast.Compare(left=copy.deepcopy(a), ops=[ast.Eq()], comparators=[copy.deepcopy(b)])
                                                        for a, b in zip(terms, terms[1:])])
            return n
    return ast.fix_missing_locations(R().visit(fd))


def sort_with_key(fd, helper: str):
    """the statement `v.sort(key=lambda x: E)` for a local list variable `v` becomes `v = <helper>(v, [E for x in v])`: CPython computes
    the keys of all items first, in list order, then sorts stably by `<` on the keys — what the run-time function registered under
    `helper` does (the list object `v` is rebound instead of changed in place: the translator checks that no second reference exists)"""
    def f(stmts):
        out = []
        for st in stmts:
            c = st.value if isinstance(st, ast.Expr) else None
            if (isinstance(c, ast.Call) and isinstance(c.func, ast.Attribute) and c.func.attr == "sort" and isinstance(c.func.value, ast.Name)):
                v = c.func.value.id
                if c.args or len(c.keywords) != 1 or c.keywords[0].arg != "key" or not isinstance(c.keywords[0].value, ast.Lambda):
                    raise _unsupported(f"{fd.name}: {ast.unparse(c)[:60]} is not `v.sort(key=lambda x: …)`")
                lam = c.keywords[0].value
                a = lam.args
                if len(a.args) != 1 or a.vararg or a.kwarg or a.kwonlyargs or a.defaults or a.posonlyargs:
                    raise _unsupported(f"{fd.name}: the key function of {v}.sort is not a one-parameter lambda")
                x = a.args[0].arg
                if x == v or any(isinstance(m, ast.Name) and m.id == v for m in ast.walk(lam.body)):
                    raise _unsupported(f"{fd.name}: the key function of {v}.sort mentions {v} (the list is empty while it is sorted)")
                keys = ast.ListComp(elt=lam.body, generators=[ast.comprehension(target=_name(x, ast.Store()), iter=_name(v), ifs=[], is_async=0)])
                out.append(ast.Assign(targets=[_name(v, ast.Store())], value=ast.Call(func=_name(helper), args=[_name(v), keys], keywords=[])))
            else:
                out.append(st)
        return out
    return ast.fix_missing_locations(_map_blocks(fd, f))


MAKE_BYTE_LIST_BODY = "return sorted({p8(x) for x in range(256)} - set(exclude or []))"
GROUPER_BODY = "args = [iter(iterable)] * n\nreturn itertools.zip_longest(*args, fillvalue=fillvalue)"


def _lift_utils(py2lean, py2leanu, unit, registry, U, names):
    """`utils.xor` / `utils.p8` … : the typed translations of Gen/PyUtils.lean lifted to dynamic values (as in gen/py_scan.py)"""
    from gen import py_utils
    tu = py2lean.Unit("Gen.PyUtils")
    for f in py_utils.FUNCS:
        tu.translate(getattr(U, f))
    for p in py_utils.PARTIALS:
        obj = getattr(U, p)
        if not isinstance(obj, functools.partial):
            raise py2leanu.Unsupported(f"utils.{p} is no longer a functools.partial")
        tu.declare_partial(p, obj)
    if "xor" in names:
        sx = tu.sigs["xor"]
        if sx.externs or sx.ret != "Bytes" or [t for _, t, _ in sx.params] != ["Bytes", "Bytes"]:
            raise py2leanu.Unsupported(f"utils.xor: signature {sx.params} → {sx.ret} is not `bytes, bytes → bytes`")
        unit.prelude.append(f"/-- `utils.xor` (typed translation `Gen.PyUtils.{sx.name}`) on dynamic values -/\n"
                            f"def xor (data key : V) : Py V := PyU.liftXor Gen.PyUtils.{sx.name} data key\n")
        registry["xor"] = (U.xor, "func", ("xor", 2))
    if "p8" in names:
        sg = tu.sigs["p8"]
        if sg.externs or sg.ret != "Bytes" or not sg.params or sg.params[0][1] != "Int" or any(d is None for _, _, d in sg.params[1:]):
            raise py2leanu.Unsupported(f"utils.p8: signature {sg.params} → {sg.ret} is not `int → bytes` with defaults")
        args = " ".join(d for _, _, d in sg.params[1:])
        shown = ", ".join(f"{p}={d}" for p, _, d in sg.params[1:])
        unit.prelude.append(f"/-- `utils.p8` (typed translation `Gen.PyUtils.{sg.name}`; {shown}) on a dynamic value -/\n"
                            f"def p8 (n : V) : Py V := open PyRt in PyU.t01LiftIntBytes (fun v => Gen.PyUtils.{sg.name} v {args}) n\n")
        registry["p8"] = (U.p8, "func", ("p8", 1))
    return tu


def generate(repo: Path):
    tools = str(Path(__file__).resolve().parent.parent)
    if tools not in sys.path:
        sys.path.insert(0, tools)
    import py2lean
    import py2leanu
    U = importlib.import_module("dissect.cobaltstrike.utils")
    B = importlib.import_module("dissect.cobaltstrike.beacon")
    X = importlib.import_module("dissect.cobaltstrike.xordecode")

    if not isinstance(io.DEFAULT_BUFFER_SIZE, int) or isinstance(io.DEFAULT_BUFFER_SIZE, bool):
        raise py2leanu.Unsupported("io.DEFAULT_BUFFER_SIZE is not an int")
    if getattr(U, "io", None) is not io or getattr(B, "io", None) is not io:
        raise py2leanu.Unsupported("utils.io / beacon.io are not the module `io`")
    if B.iter_find_needle is not U.iter_find_needle or B.xor is not U.xor or B.XorEncodedFile is not X.XorEncodedFile:
        raise py2leanu.Unsupported("beacon.iter_find_needle / beacon.xor / beacon.XorEncodedFile are not the objects of utils.py / xordecode.py")
    for g in (U.iter_find_needle, B.find_beacon_config_bytes, B.iter_beacon_config_blocks):
        if not inspect.isgeneratorfunction(g):
            raise py2leanu.Unsupported(f"{g.__name__} is not a generator function")
    registry = {"io.DEFAULT_BUFFER_SIZE": (io.DEFAULT_BUFFER_SIZE, "gparam", "bufsize")}
    unit = py2leanu.Unit("Gen.PyExtract", ["CsVerif.Model.PyU_T01", "CsVerif.Model.PyU_T02", "CsVerif.Gen.PyUtils"], registry)
    unit.t01 = True
    _lift_utils(py2lean, py2leanu, unit, registry, U, {"xor", "p8"})
    lg = getattr(B, "logger", None)
    if isinstance(lg, logging.Logger) and type(lg).debug is logging.Logger.debug:
        registry["logger.debug"] = (lg.debug, "noop", None)

    firsts = []       # (generator function, name of its first-yield form, adapter of the call or None), in translation order

    def first_form(fn, files, name=None, pre=None, adapt=None, register=True):
        name = name or f"{fn.__name__}__first"

        def rw(fd, globs):
            if pre is not None:
                fd = pre(fd)
            return _Rewriter(fn.__name__, globs, list(firsts)).run(fd, new_name=name)
        unit.t01_rewrite = rw
        try:
            unit.translate(fn, files=files)
        finally:
            unit.t01_rewrite = None
        if register:
            firsts.append((fn, name, adapt))

    # --- utils.iter_find_needle, first-yield form, for a file-like object of any class
    first_form(U.iter_find_needle, ["fp"])
    # --- beacon.find_beacon_config_bytes, first-yield form
    first_form(B.find_beacon_config_bytes, ["fh"])

    # --- beacon.iter_beacon_config_blocks, first-yield form, as `BeaconConfig.from_file` calls it (`xordecode` left to its default)
    fn = B.iter_beacon_config_blocks
    sig = inspect.signature(fn)
    if list(sig.parameters) != ["fobj", "xor_keys", "xordecode", "all_xor_keys"] or sig.parameters["xordecode"].default is not True \
            or sig.parameters["all_xor_keys"].default is not False or sig.parameters["xor_keys"].default is not None:
        raise py2leanu.Unsupported("iter_beacon_config_blocks: parameters / defaults changed")
    keys = B.DEFAULT_XOR_KEYS
    if not isinstance(keys, list) or not all(type(k) is bytes for k in keys):
        raise py2leanu.Unsupported("DEFAULT_XOR_KEYS is not a list of bytes")
    registry["DEFAULT_XOR_KEYS"] = (keys, "const", "(V.list [" + ", ".join(py2leanu.const_term(k) for k in keys) + "])")
    registry["XorEncodedFile.from_file"] = (X.XorEncodedFile.from_file, "t01xff", "xff")
    # (1) the recursive call `iter_beacon_config_blocks(fobj, left_xor_keys, xordecode=xordecode, all_xor_keys=False)`: the function
    #     specialised to `xordecode=True, all_xor_keys=False` (its retry block is dead code and disappears — no recursion left)
    NR = "iter_beacon_config_blocks_nr__first"
    first_form(fn, ["fobj"], name=NR, register=False,
               pre=lambda fd: specialise(fd, {"xordecode": True, "all_xor_keys": False}, fn.__name__))
    # (2) the function itself, specialised to `xordecode=True`; the statements that compute the order of the residual keys
    #     (`left_xor_keys = make_byte_list(…)` … `left_xor_keys.sort(…)`) are cut out as the function `…__left_keys(fxor, xor_keys)`

    def adapt_self(rw, call):
        kws = {k.arg: k.value for k in call.keywords}
        if not (isinstance(kws.get("all_xor_keys"), ast.Constant) and kws["all_xor_keys"].value is False) or len(call.args) > 2 \
                or set(kws) - {"xor_keys", "all_xor_keys"}:
            raise rw.bad(f"the recursive call {ast.unparse(call)[:70]} is not `…(fobj, keys, all_xor_keys=False)`")
        call.keywords = [k for k in call.keywords if k.arg != "all_xor_keys"]
        return NR

    slices = {}

    def pre_full(fd):
        fd = specialise(fd, {"xordecode": True}, fn.__name__)
        is_sort = lambda st: (isinstance(st, ast.Expr) and isinstance(st.value, ast.Call) and isinstance(st.value.func, ast.Attribute)
                              and st.value.func.attr == "sort" and isinstance(st.value.func.value, ast.Name) and st.value.func.value.id == "left_xor_keys")
        fd, new, params = cut_slice(fd, "left_xor_keys", is_sort, "iter_beacon_config_blocks__left_keys", "left_xor_keys")
        if params != ["xor_keys", "fxor"] and params != ["fxor", "xor_keys"]:
            raise py2leanu.Unsupported(f"iter_beacon_config_blocks: the key-order statements read {params}")
        # the file-like object first (the translator's convention for calls that are handed one)
        for m in ast.walk(fd):
            if isinstance(m, ast.Call) and isinstance(m.func, ast.Name) and m.func.id == new.name:
                m.args = [_name("fxor"), _name("xor_keys")]
        new.args.args = [ast.arg(arg="fxor"), ast.arg(arg="xor_keys")]
        slices["left_keys"] = new
        return fd

    registry["iter_beacon_config_blocks__left_keys"] = (None, "t01fileext", ("left_keys", 2))
    _resolve_orig = py2leanu._resolve
    firsts.append((fn, None, adapt_self))
    try:
        # the synthetic function is not a global of beacon.py: `global_entry` must accept the registered placeholder
        py2leanu._resolve = lambda globs, dotted: None if dotted == "iter_beacon_config_blocks__left_keys" else _resolve_orig(globs, dotted)
        first_form(fn, ["fobj"], pre=pre_full, register=False)
    finally:
        py2leanu._resolve = _resolve_orig
        firsts.pop()
    firsts.append((fn, "iter_beacon_config_blocks__first", None))

    # (3) the key-order statements cut out in (2), as the function `iter_beacon_config_blocks__left_keys(fxor, xor_keys)` — what the
    #     external parameter `left_keys` of (2) stands for.  `make_byte_list` and `utils.grouper` are run-time functions that model
    #     exactly their (checked) source text; `v.sort(key=lambda …)` and the chained `==` are rewritten (see above).
    import collections as _collections
    import itertools as _itertools
    import textwrap as _textwrap

    def pinned(f, body, params):
        fdm = ast.parse(_textwrap.dedent(inspect.getsource(f))).body[0]
        stmts = [st for st in fdm.body if not (isinstance(st, ast.Expr) and isinstance(st.value, ast.Constant) and isinstance(st.value.value, str))]
        if "\n".join(ast.unparse(st) for st in stmts) != body or [a.arg for a in fdm.args.args] != params or fdm.decorator_list:
            raise py2leanu.Unsupported(f"{f.__name__} is no longer `{body}`")
    pinned(B.make_byte_list, MAKE_BYTE_LIST_BODY, ["exclude"])
    pinned(U.grouper, GROUPER_BODY, ["iterable", "n", "fillvalue"])
    if inspect.signature(B.make_byte_list).parameters["exclude"].default is not None or B.p8 is not U.p8 or B.grouper is not U.grouper \
            or inspect.signature(U.grouper).parameters["fillvalue"].default is not None or getattr(U, "itertools", None) is not _itertools \
            or B.collections is not _collections or B.functools is not functools:
        raise py2leanu.Unsupported("make_byte_list / grouper defaults, beacon.p8 / grouper / collections / functools changed")
    registry["make_byte_list"] = (B.make_byte_list, "kwfunc", ("PyU.t01MakeByteList", ["exclude"], {"exclude": None}, False))
    registry["grouper"] = (U.grouper, "kwfunc", ("PyU.grouper", ["iterable", "n", "fillvalue"], {"fillvalue": None}, True))
    registry["collections.Counter"] = (_collections.Counter, "counterctor", None)
    registry["sortbykeys0"] = (None, "func", ("PyU.t01SortByKeys", 2))
    py2leanu.METHODS.setdefault("index", ("PyU.t01Index", 1, 1, []))
    new = slices["left_keys"]
    new = split_chained_eq(new)
    new = sort_with_key(new, "sortbykeys0")
    src_fn = types.FunctionType(compile(ast.Module(body=[new], type_ignores=[]), "<slice of iter_beacon_config_blocks>", "exec").co_consts[0],
                                fn.__globals__, new.name)
    unit.imports.append("CsVerif.Model.PyU_T17")
    unit.t17 = True
    unit.t01_rewrite = lambda fd, globs: new
    _ig = inspect.getsource
    try:
        py2leanu._resolve = lambda globs, dotted: None if dotted == "sortbykeys0" else _resolve_orig(globs, dotted)
        inspect.getsource = lambda f: ast.unparse(new) if f is src_fn else _ig(f)
        unit.translate(src_fn, files=["fxor"])
    finally:
        inspect.getsource = _ig
        py2leanu._resolve = _resolve_orig
        unit.t01_rewrite = None
        unit.t17 = False

    # --- BeaconConfig.from_file (and from_bytes: `from_file(io.BytesIO(data), …)`) as called on the class BeaconConfig itself
    G = importlib.import_module("dissect.cobaltstrike.guardrails")
    PE = importlib.import_module("dissect.cobaltstrike.pe")
    cls = B.BeaconConfig
    raw = cls.__dict__.get("from_file")
    if not isinstance(raw, classmethod) or type(cls) is not type or cls.__new__ is not object.__new__ or B.pe is not PE \
            or B.iter_guardrail_configs_with_beacon is not G.iter_guardrail_configs_with_beacon:
        raise py2leanu.Unsupported("BeaconConfig.from_file is not a classmethod of a plain class / beacon.pe, beacon.iter_guardrail_configs_with_beacon changed")
    for special in ("__getattr__", "__getattribute__", "__setattr__", "__slots__"):
        if any(special in k.__dict__ for k in cls.__mro__[:-1]):
            raise py2leanu.Unsupported(f"BeaconConfig defines {special}")
    if inspect.signature(raw.__func__).parameters.keys() != {"cls", "fobj", "xor_keys", "all_xor_keys"}:
        raise py2leanu.Unsupported("BeaconConfig.from_file: parameters changed")
    registry["BeaconConfig"] = (cls, "t01ctor", ("new_config", 1))
    registry["pe.find_compile_stamps"] = (PE.find_compile_stamps, "t01fileext", ("find_compile_stamps", 1))
    registry["pe.find_architecture"] = (PE.find_architecture, "t01fileext", ("find_architecture", 1))
    registry["iter_guardrail_configs_with_beacon"] = (G.iter_guardrail_configs_with_beacon, "t01fileext", ("iter_guardrail", 1))
    unit.t15_builtins = True      # (a variable that both branches of an `if` / `try` assign is declared before the statement)

    def rw_from_file(fd, globs):
        fd = method_as_function(fd, globs, "BeaconConfig")
        fd = split_conditional_try(fd)
        fd = split_attr_unpack(fd)
        r = _Rewriter("from_file", globs, list(firsts))
        fd = r.run(fd, new_name="from_file", generator=False)
        fd = select_loops(fd, r)
        return ast.fix_missing_locations(fd)
    unit.t01_rewrite = rw_from_file
    try:
        unit.translate(raw.__func__, files=["fobj"])
    finally:
        unit.t01_rewrite = None

    # --- from_bytes / from_path are one-line wrappers of from_file: not translated, but their shape is checked
    import textwrap
    expect = {"from_bytes": "return cls.from_file(io.BytesIO(data), xor_keys=xor_keys, all_xor_keys=all_xor_keys)",
              "from_path": "with open(path, 'rb') as fobj:\n    return cls.from_file(fobj, xor_keys=xor_keys, all_xor_keys=all_xor_keys)"}
    for nm, body in expect.items():
        m = cls.__dict__.get(nm)
        if not isinstance(m, classmethod):
            raise py2leanu.Unsupported(f"BeaconConfig.{nm} is not a classmethod")
        fdm = ast.parse(textwrap.dedent(inspect.getsource(m.__func__))).body[0]
        stmts = [st for st in fdm.body if not (isinstance(st, ast.Expr) and isinstance(st.value, ast.Constant) and isinstance(st.value.value, str))]
        want = ast.parse(body).body
        if [ast.dump(x) for x in stmts] != [ast.dump(x) for x in want] or [a.arg for a in fdm.args.args][2:] != ["xor_keys", "all_xor_keys"] \
                or [ast.dump(d) for d in fdm.args.defaults] != [ast.dump(ast.Constant(value=None)), ast.dump(ast.Constant(value=False))]:
            raise py2leanu.Unsupported(f"BeaconConfig.{nm} is no longer the one-line wrapper of from_file ({ast.unparse(stmts)[:80]})")

    names = ["xor"] + unit.names
    return "PyExtract.lean", unit.render("beacon.py: find_beacon_config_bytes / iter_beacon_config_blocks / BeaconConfig.from_file (C01) in "
                                         "first-yield form, translated by the untyped translator"), names


if __name__ == "__main__":
    sys.path.insert(0, sys.argv[1] if len(sys.argv) > 1 else "/repo")
    print(generate(Path(sys.argv[1] if len(sys.argv) > 1 else "/repo"))[1])

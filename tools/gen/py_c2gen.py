"""Translator plug-in: `C2Profile.from_beacon_config` of dissect/cobaltstrike/c2profile.py (C13), translated statement by statement
from its *source* by the untyped translator (tools/py2leanu.py) → lean/CsVerif/Gen/PyC2Gen.lean (namespace `Gen.PyC2Gen`).

`from_beacon_config` is one long class method: nine block objects are created, a loop over `config.settings_by_index.items()` runs an
`if / elif` chain of 48 branches that call the builder methods of the blocks, and nine `set_non_empty_config_block` calls assemble the
profile.  The plug-in prepares the function for the translator in four steps, each of them CHECKED (anything unexpected raises
`Unsupported` → proof obligation broken), and translates the result:

 1. logging.  The expression statements `logger.debug(…)` are dropped (assumed: formatting the values for the log neither raises nor
    changes anything).
 2. the builder API is EXTERNAL.  The classes `ConfigBlock`, `C2Profile`, `DataTransformBlock`, `ExecuteOptionsBlock`, `BeaconGateBlock`
    … are not translated here (C11's subject; another translation unit): their constructors and
    methods become parameters of the translated definitions, instantiated in `Model/C13Gen.lean` with the builder functions of the
    C13 model.  A block object is threaded as a value: the statement `X.m(a, b)` for a BLOCK VARIABLE `X` (a variable every
    assignment of which is a constructor call of a block class) becomes `X = <Owner>__m(X, a, b)` where `<Owner>` is the class that
    defines `m` for the class of `X` (resolved here, statically: `C2Profile.set_option` for `profile`, `ConfigBlock.set_option` for every
    other block, …).  This is exact when no second reference to a block object can be used afterwards, which is checked:
    a block variable occurs only as the receiver of `set_option / _pair / _enable / set_config_block / set_non_empty_config_block` in an
    expression statement, as the `config_block` argument of `set_config_block / set_non_empty_config_block` (a MOVE: the parent keeps
    the children list of the child; the child variable must be dead afterwards — not mentioned again in the rest of its block nor
    behind the enclosing statements — and must have been constructed at the same loop depth), and in `return X`.
    `cls()` is read as `C2Profile()` (the class method is translated for `cls = C2Profile`); all constructor calls without arguments
    are one external function `ConfigBlock_new` (checked: the classes define no `__init__` of their own, `C2Profile.__init__` only adds
    its two cache attributes; a new block has an empty children list); `HttpOptionsBlock(output=X)` becomes the helper
    `HttpOptionsBlock__output(X)`.
 3. outlining.  The statements of the loop body in front of the chain (`if isinstance(value, str): value = value.encode("latin-1")`)
    become `value = settings_value(value)`.  The body of every branch of the chain that is more than one simple statement becomes a synthetic function
    `branch_<SETTING NAME>(<the outer variables it reads>)` returning the outer variable it changes; the branch itself becomes
    `<var> = branch_<SETTING NAME>(…)`.  Outer variables = the parameters, the variables assigned before the loop, and the loop targets.
    (The translator rejects a use of a branch-local variable outside its branch: "may be used before it is assigned".)
 4. the synthetic functions are compiled to real function objects (module globals of c2profile.py + the helpers) and translated in
    dependency order; the main function keeps the name `from_beacon_config(config)`.

The texts of the synthetic functions are written into the header of the generated file.  As a self-test the synthetic
`from_beacon_config` is RUN (in Python) on a few configurations and its tree compared with the one of the real class method.
"""
from __future__ import annotations

import ast
import collections
import copy
import importlib
import inspect
import linecache
import logging
import sys
import textwrap
import types
from pathlib import Path

ENUM_CID = 10              # the `cid` py_beaconcfg.py uses for BeaconSetting (same class, same descriptor)
CONFIG_CID = 7300          # class descriptor of the configuration object as far as the function looks at it
BLOCK_METHODS = ("set_option", "_pair", "_enable", "set_config_block", "set_non_empty_config_block")
MOVES = ("set_config_block", "set_non_empty_config_block")
NOARG_CLASSES = ("C2Profile", "HttpGetBlock", "HttpPostBlock", "StageBlock", "HttpOptionsBlock", "ProcessInjectBlock", "DnsBeaconBlock",
                 "HttpBeaconBlock", "StageTransformBlock", "ExecuteOptionsBlock")
GATE_CTOR = "BeaconGateBlock.from_beacon_gate_option_strings"


def _dump(n) -> str:
    return ast.dump(n, annotate_fields=False, include_attributes=False)


def _stmt(src: str):
    return ast.parse(textwrap.dedent(src)).body[0]


def _dotted(n):
    parts = []
    while isinstance(n, ast.Attribute):
        parts.append(n.attr)
        n = n.value
    return ".".join([n.id] + parts[::-1]) if isinstance(n, ast.Name) else None


def _names(nodes) -> set:
    return {m.id for n in nodes for m in ast.walk(n) if isinstance(m, ast.Name)}


class Prep:
    def __init__(self, py2leanu, M):
        self.U = py2leanu.Unsupported
        self.M = M
        self.globs = dict(M.__dict__)
        self.sources = {}
        self.wrappers = {}         # python name of a method wrapper -> (function object, lean name)

    def bad(self, msg):
        return self.U("c2profile.py from_beacon_config: " + msg)

    # -- facts about the builder classes ------------------------------------------------------------------------------------
    def check_classes(self):
        M = self.M
        CB = M.ConfigBlock
        for name in NOARG_CLASSES + ("DataTransformBlock", "BeaconGateBlock"):
            C = getattr(M, name, None)
            if not (isinstance(C, type) and issubclass(C, CB)) or C.__name__ != name:
                raise self.bad(f"{name} is not a subclass of ConfigBlock")
        for name in NOARG_CLASSES:
            C = getattr(M, name)
            if name != "C2Profile" and "__init__" in C.__dict__:
                raise self.bad(f"{name} defines its own __init__")
            if any(isinstance(c.__dict__.get("tree"), property) for c in C.__mro__ if c is not object):
                raise self.bad(f"{name}.tree is a property")
            obj = C()
            if not (type(obj.tree) is M.Tree and list(obj.tree.children) == [] and type(obj.tree.children) is list):
                raise self.bad(f"{name}() does not start with an empty children list")
        init = ast.parse(textwrap.dedent(inspect.getsource(M.C2Profile.__dict__["__init__"]))).body[0]
        want = ast.parse("def __init__(self, **kwargs):\n    super().__init__(**kwargs)\n    self._dict_cache = {}\n    self._dict_hash = None\n").body[0]
        if _dump(init) != _dump(want):
            raise self.bad("C2Profile.__init__ is not `super().__init__(**kwargs)` + the two cache attributes")
        if M.C2Profile().tree.data != "start":
            raise self.bad("the root label of a C2Profile is not `start`")
        if any(k in c.__dict__ for c in M.C2Profile.__mro__ if c is not object for k in ("__getattr__", "__getattribute__", "__setattr__", "__slots__")):
            raise self.bad("the builder classes define __getattr__ / __setattr__ / __slots__")

    def owner_of(self, cls_name, meth) -> str:
        C = getattr(self.M, cls_name)
        for c in C.__mro__:
            if meth in c.__dict__:
                if c.__name__ not in ("ConfigBlock", "C2Profile") or not inspect.isfunction(c.__dict__[meth]):
                    raise self.bad(f"{cls_name}.{meth} is defined by {c.__name__} / is not a plain function")
                return c.__name__
        raise self.bad(f"{cls_name} has no method {meth}")

    def wrapper(self, owner, meth) -> str:
        """the python name of the function that stands for `block.<meth>(a, b)` resolved to `<owner>.<meth>`"""
        name = f"{owner}__{meth}"
        if name not in self.wrappers:
            fn = getattr(self.M, owner).__dict__[meth]

            def w(block, a, b, _fn=fn):
                _fn(block, a, b)
                return block
            w.__name__ = w.__qualname__ = name
            w.__doc__ = f"`block.{meth}(a, b)` for a block whose class takes `{meth}` from `{owner}`; answers the block"
            self.wrappers[name] = (w, f"{owner}_{meth.lstrip('_')}")
            self.globs[name] = w
        return name

    # -- step 1: logging -----------------------------------------------------------------------------------------------------
    def strip_logging(self, stmts):
        out = []
        for st in stmts:
            if isinstance(st, ast.Expr) and isinstance(st.value, ast.Call) and (_dotted(st.value.func) or "").startswith("logger."):
                continue
            st = copy.copy(st)
            for fld in ("body", "orelse"):
                if isinstance(getattr(st, fld, None), list) and not isinstance(st, ast.Expr):
                    setattr(st, fld, self.strip_logging(getattr(st, fld)))
            if isinstance(st, (ast.If, ast.For, ast.While)) and not st.body:
                st.body = [ast.Pass()]
            out.append(st)
        return out

    # -- step 2: block variables -----------------------------------------------------------------------------------------------
    def ctor_class(self, e):
        """the class of the block a constructor expression creates, else None"""
        if not isinstance(e, ast.Call):
            return None
        d = _dotted(e.func)
        if d == "cls" and not e.args and not e.keywords:
            return "C2Profile"
        if d in NOARG_CLASSES and not e.args and not e.keywords:
            return d
        if d == GATE_CTOR and len(e.args) == 1 and not e.keywords:
            return "BeaconGateBlock"
        if d == "HttpOptionsBlock" and not e.args and [k.arg for k in e.keywords] == ["output"]:
            return "HttpOptionsBlock"
        if d == "DataTransformBlock" and not e.args and [k.arg for k in e.keywords] == ["steps"]:
            return "DataTransformBlock"
        return None

    def rewrite_ctor(self, e, env):
        """a constructor expression with its own block arguments rewritten; the plain arguments must not mention block variables"""
        e = copy.deepcopy(e)
        d = _dotted(e.func)
        if d == "cls":
            e.func = ast.Name(id="C2Profile", ctx=ast.Load())
        elif d == "HttpOptionsBlock" and e.keywords:
            child = e.keywords[0].value
            if self.ctor_class(child) is None:
                raise self.bad("HttpOptionsBlock(output=…) with something other than a freshly constructed block")
            e = ast.Call(func=ast.Name(id="HttpOptionsBlock__output", ctx=ast.Load()), args=[self.rewrite_ctor(child, env)], keywords=[])
        else:
            for a in list(e.args) + [k.value for k in e.keywords]:
                if _names([a]) & set(env):
                    raise self.bad(f"a block variable inside the arguments of {ast.unparse(e)[:50]}")
        return e

    def rewrite_list(self, stmts, env, depth):
        """the statements with the method calls on block variables turned into assignments; returns (statements, moved variables)"""
        out, moved_all = [], set()
        env = dict(env)
        for i, st in enumerate(stmts):
            moved = set()
            if isinstance(st, (ast.Assign, ast.AnnAssign)) and st.value is not None and self.ctor_class(st.value) is not None:
                tg = st.targets if isinstance(st, ast.Assign) else [st.target]
                if len(tg) != 1 or not isinstance(tg[0], ast.Name):
                    raise self.bad(f"a block is bound by something other than `v = Cls(…)`: {ast.unparse(st)[:60]}")
                v = tg[0].id
                if v in env and env[v][1] != depth:
                    raise self.bad(f"block variable {v} is re-bound at another loop depth")
                new = ast.Assign(targets=[ast.Name(id=v, ctx=ast.Store())], value=self.rewrite_ctor(st.value, env))
                env[v] = (self.ctor_class(st.value), depth)
                out.append(ast.copy_location(new, st))
            elif (isinstance(st, ast.Expr) and isinstance(st.value, ast.Call) and isinstance(st.value.func, ast.Attribute)
                  and isinstance(st.value.func.value, ast.Name) and st.value.func.value.id in env):
                c = st.value
                x, m = c.func.value.id, c.func.attr
                if m not in BLOCK_METHODS or len(c.args) != 2 or c.keywords:
                    raise self.bad(f"`{ast.unparse(st)[:60]}`: not one of the builder methods {BLOCK_METHODS} with two positional arguments")
                if env[x][0] in ("DataTransformBlock",):
                    raise self.bad(f"a method of a {env[x][0]} variable")
                args = [copy.deepcopy(a) for a in c.args]
                if _names([args[0]]) & set(env):
                    raise self.bad(f"a block variable as the option of `{ast.unparse(st)[:60]}`")
                if m in MOVES:
                    a = args[1]
                    if isinstance(a, ast.Name) and a.id in env:
                        if a.id == x or env[a.id][1] != depth:
                            raise self.bad(f"`{ast.unparse(st)[:60]}`: the block {a.id} is moved at another loop depth than it was constructed at")
                        moved.add(a.id)
                    elif self.ctor_class(a) is not None:
                        args[1] = self.rewrite_ctor(a, env)
                    else:
                        raise self.bad(f"`{ast.unparse(st)[:60]}`: the config_block argument is neither a block variable nor a constructor call")
                elif _names([args[1]]) & set(env):
                    raise self.bad(f"a block variable as the value of `{ast.unparse(st)[:60]}`")
                w = self.wrapper(self.owner_of(env[x][0], m), m)
                call = ast.Call(func=ast.Name(id=w, ctx=ast.Load()), args=[ast.Name(id=x, ctx=ast.Load())] + args, keywords=[])
                out.append(ast.copy_location(ast.Assign(targets=[ast.Name(id=x, ctx=ast.Store())], value=call), st))
            elif isinstance(st, (ast.If, ast.For, ast.While)):
                st = copy.copy(st)
                heads = [st.test] if isinstance(st, (ast.If, ast.While)) else [st.target, st.iter]
                if _names(heads) & set(env):
                    raise self.bad(f"a block variable in the head of `{ast.unparse(st)[:50]}`")
                d2 = depth if isinstance(st, ast.If) else depth + 1
                st.body, m1 = self.rewrite_list(st.body, env, d2)
                st.orelse, m2 = self.rewrite_list(st.orelse, env, d2 if isinstance(st, ast.If) else depth)
                moved = m1 | m2
                out.append(st)
            elif isinstance(st, ast.Return):
                if not (isinstance(st.value, ast.Name)):
                    raise self.bad("`return` of something other than a variable")
                out.append(st)
            else:
                if isinstance(st, (ast.Try, ast.With, ast.FunctionDef, ast.ClassDef, ast.Match)):
                    raise self.bad(f"statement {type(st).__name__}")
                if _names([st]) & set(env):
                    raise self.bad(f"a block variable is used in `{ast.unparse(st)[:60]}`")
                out.append(st)
            if moved & _names(stmts[i + 1:]):
                raise self.bad(f"a block that was handed to set_config_block is used again: {sorted(moved & _names(stmts[i + 1:]))}")
            moved_all |= moved
        return out, moved_all

    # -- step 3: outlining -----------------------------------------------------------------------------------------------------
    def branch_name(self, test) -> str:
        hits = [n.attr for n in ast.walk(test) if isinstance(n, ast.Attribute) and _dotted(n.value) == "BeaconSetting"]
        if len(hits) != 1:
            raise self.bad(f"the test `{ast.unparse(test)[:60]}` of the chain does not name exactly one BeaconSetting member")
        return hits[0]

    def outline(self, fd):
        """(the function with the complex branches replaced by calls, the synthetic branch functions)"""
        loops = [i for i, st in enumerate(fd.body) if isinstance(st, (ast.For, ast.While))]
        if len(loops) != 1 or not isinstance(fd.body[loops[0]], ast.For) or fd.body[loops[0]].orelse:
            raise self.bad("expected exactly one top-level `for` loop")
        loop = fd.body[loops[0]]
        if _dump(loop.iter) != _dump(_stmt("config.settings_by_index.items()").value) or _dump(loop.target) != _dump(_stmt("(setting, value) = 0").targets[0]):
            raise self.bad("the loop is not `for setting, value in config.settings_by_index.items():`")
        outer = [a.arg for a in fd.args.args]
        for st in fd.body[:loops[0]]:
            if not (isinstance(st, (ast.Assign, ast.AnnAssign)) and isinstance((st.targets[0] if isinstance(st, ast.Assign) else st.target), ast.Name)):
                raise self.bad(f"before the loop: `{ast.unparse(st)[:60]}` is not a plain assignment")
            v = (st.targets[0] if isinstance(st, ast.Assign) else st.target).id
            if v not in outer:
                outer.append(v)
        outer += ["setting", "value"]
        if not loop.body or not isinstance(loop.body[-1], ast.If):
            raise self.bad("the loop body does not end with the if / elif chain")
        if _names(loop.body[:-1]) - {"value", "isinstance", "str"}:
            raise self.bad("the statements in front of the chain mention more than `value`")
        branches, seen = [], set()
        pre = loop.body[:-1]
        if pre:
            # the statements in front of the chain (they only look at / rebind `value`): `value = settings_value(value)`
            if any(isinstance(n, (ast.Return, ast.Yield, ast.YieldFrom, ast.Break, ast.Continue, ast.For, ast.While)) for b in pre for n in ast.walk(b)):
                raise self.bad("the statements in front of the chain contain a loop / return / break")
            stored = {m.id for b in pre for m in ast.walk(b) if isinstance(m, ast.Name) and isinstance(m.ctx, ast.Store)}
            if stored - {"value"}:
                raise self.bad(f"the statements in front of the chain assign {sorted(stored)}")
            branches.append(("settings_value", ["value"], [copy.deepcopy(b) for b in pre] + [_stmt("return value")],
                             "the statements of the settings loop of C2Profile.from_beacon_config in front of the if / elif chain"))
            loop.body = [_stmt("value = settings_value(value)"), loop.body[-1]]
        node = loop.body[-1]
        while True:
            name = self.branch_name(node.test)
            if name in seen:
                raise self.bad(f"two branches test BeaconSetting.{name}")
            seen.add(name)
            body = node.body
            simple = len(body) == 1 and isinstance(body[0], (ast.Pass, ast.Assign, ast.Expr))
            if not simple:
                for n in (m for b in body for m in ast.walk(b)):
                    if isinstance(n, (ast.Return, ast.Yield, ast.YieldFrom, ast.Global, ast.Nonlocal)):
                        raise self.bad(f"branch {name}: {type(n).__name__}")
                loose = [n for b in body for n in self.loose_jumps(b)]
                if loose:
                    raise self.bad(f"branch {name}: break / continue of the settings loop")
                # the outer variables the branch reads before it assigns them itself, and the outer variables it assigns
                defined, need = set(), []
                for st in body:
                    tg = st.targets[0] if isinstance(st, ast.Assign) and len(st.targets) == 1 else None
                    reads = {m.id for m in ast.walk(st) if isinstance(m, ast.Name) and isinstance(m.ctx, ast.Load)}
                    if isinstance(tg, ast.Name) and isinstance(st, ast.Assign):
                        reads = {m.id for m in ast.walk(st.value) if isinstance(m, ast.Name) and isinstance(m.ctx, ast.Load)}
                    need += [v for v in outer if v in reads and v not in defined and v not in need]
                    if isinstance(tg, ast.Name):
                        defined.add(tg.id)
                stored = {m.id for b in body for m in ast.walk(b) if isinstance(m, ast.Name) and isinstance(m.ctx, ast.Store)}
                outs = [v for v in outer if v in stored]
                if len(outs) != 1 or outs[0] in ("setting", "value", "config"):
                    raise self.bad(f"branch {name}: expected exactly one outer variable to be changed, found {outs}")
                params = [v for v in outer if v in need]
                fname = f"branch_{name}"
                fbody = [copy.deepcopy(b) for b in body] + [ast.Return(value=ast.Name(id=outs[0], ctx=ast.Load()))]
                branches.append((fname, params, fbody, f"the body of the branch `setting == BeaconSetting.{name}` of C2Profile.from_beacon_config"))
                call = ast.Call(func=ast.Name(id=fname, ctx=ast.Load()), args=[ast.Name(id=p, ctx=ast.Load()) for p in params], keywords=[])
                node.body = [ast.Assign(targets=[ast.Name(id=outs[0], ctx=ast.Store())], value=call)]
            if len(node.orelse) == 1 and isinstance(node.orelse[0], ast.If):
                node = node.orelse[0]
            elif not node.orelse:
                break
            else:
                raise self.bad("the chain ends with an `else` branch")
        return fd, branches

    def loose_jumps(self, st):
        """`break` / `continue` statements of `st` that are not inside a loop of `st`"""
        if isinstance(st, (ast.Break, ast.Continue)):
            return [st]
        if isinstance(st, (ast.For, ast.While)):
            return [n for b in st.orelse for n in self.loose_jumps(b)]
        out = []
        for fld in ("body", "orelse"):
            for b in getattr(st, fld, []) or []:
                if isinstance(b, ast.stmt):
                    out += self.loose_jumps(b)
        return out

    # -- step 4: synthetic functions ---------------------------------------------------------------------------------------------
    def synth(self, name, params, body, doc):
        args = ast.arguments(posonlyargs=[], args=[ast.arg(arg=p) for p in params], kwonlyargs=[], kw_defaults=[], defaults=[])
        fd = ast.FunctionDef(name=name, args=args, body=[copy.deepcopy(s) for s in body], decorator_list=[], type_params=[])
        mod = ast.fix_missing_locations(ast.Module(body=[fd], type_ignores=[]))
        src = ast.unparse(mod) + "\n"
        filename = f"<py_c2gen:{name}>"
        code = compile(src, filename, "exec")
        linecache.cache[filename] = (len(src), None, src.splitlines(True), filename)
        exec(code, self.globs)
        fn = self.globs[name]
        fn.__doc__ = doc
        self.sources[name] = src
        return fn


def _http_options_block_output(M):
    def HttpOptionsBlock__output(output):
        """`HttpOptionsBlock(output=<block>)`"""
        return M.HttpOptionsBlock(output=output)
    return HttpOptionsBlock__output


def _selftest(P: Prep, synth_fn):
    """the synthetic function, run in Python, builds the same tree as the real class method"""
    M = P.M
    BS = importlib.import_module("dissect.cobaltstrike.beacon").BeaconSetting
    cfgs = [
        ({}, []),
        ({3: 60000, 5: 10, 9: "Mozilla \\ \"x\"", 26: "GET", 27: "POST", 10: "/submit.php", 8: "a,/x,b,/y", 29: "%windir%\\a.exe", 38: 1, 41: 0,
          43: 64, 44: 32, 45: 17500, 52: 1, 60: "", 66: "8.8.8.8", 19: "0.0.0.0", 6: 255, 48: 1, 16: "VirtualAlloc", 76: 16, 77: 1,
          11: [("print", True), ("append", 3), ("prepend", 2), ("base64", True), ("mask", True)],
          12: [("_HEADER", b"A: b"), ("_PARAMETER", b"q=1"), ("_HOSTHEADER", b"Host: h"), ("BUILD", "metadata"), ("BASE64URL", True),
               ("PREPEND", b"x\\y"), ("HEADER", b"Cookie"), ("BUILD", "output"), ("PRINT", True)],
          13: [("NETBIOS", True), ("BUILD", "id"), ("PARAMETER", b"id"), ("BUILD", "output"), ("MASK", True), ("APPEND", b"\x00\xff"), ("PRINT", True)],
          46: [("append", b"\x90\x90"), ("prepend", b"")], 47: [("prepend", b"P"), ("append", b"A")],
          51: ["CreateThread \"ntdll!RtlUserThreadStart+0x21\"", "CreateThread", "NtQueueApcThread-s", "SetThreadContext", "CreateRemoteThread \"k\\x!y\"",
               "RtlCreateUserThread", "NtQueueApcThread_s", "Unknown"],
          78: ["All", "Comms", "VirtualAlloc", "ExitThread"], 4: 1048576, 58: b"\x80\x01", 57: b""}, ["/x", None, "/y"]),
        ({8: "", 46: [], 47: [], 51: [], 11: [], 43: 4, 44: 64, 52: 0, 78: [], 45: 0, 48: 0, 77: 0, 66: "", 200: 7}, [None]),
    ]
    for sbi, uris in cfgs:
        config = types.SimpleNamespace(settings_by_index=types.MappingProxyType(dict(sbi)), uris=list(uris))
        want = M.C2Profile.from_beacon_config(config).tree
        got = synth_fn(config).tree
        if want != got or repr(want) != repr(got):
            raise P.bad("self-test: the rewritten function does not build the same tree as the class method")
    del BS


def generate(repo: Path):
    tools = str(Path(__file__).resolve().parent.parent)
    if tools not in sys.path:
        sys.path.insert(0, tools)
    import py2leanu
    from gen import py_beacon, py_beaconcfg
    from gen import beacon as gen_beacon
    M = importlib.import_module("dissect.cobaltstrike.c2profile")
    B = importlib.import_module("dissect.cobaltstrike.beacon")
    P = Prep(py2leanu, M)
    P.check_classes()
    if M.__dict__.get("collections") is not collections or M.__dict__.get("BeaconSetting") is not B.BeaconSetting \
            or not isinstance(M.__dict__.get("logger"), logging.Logger):
        raise P.bad("`collections` / `BeaconSetting` / `logger` are not the expected objects")
    for b in ("isinstance", "str", "int", "list"):
        if b in M.__dict__:
            raise P.bad(f"c2profile.py defines its own `{b}`")

    cm = M.C2Profile.__dict__.get("from_beacon_config")
    if not isinstance(cm, classmethod):
        raise P.bad("C2Profile.from_beacon_config is not a classmethod")
    tree = ast.parse(textwrap.dedent(inspect.getsource(cm.__func__)))
    if len(tree.body) != 1 or not isinstance(tree.body[0], ast.FunctionDef):
        raise P.bad("cannot isolate the definition")
    fd = tree.body[0]
    if [ast.unparse(d) for d in fd.decorator_list] != ["classmethod"] or [a.arg for a in fd.args.args] != ["cls", "config"] \
            or fd.args.defaults or fd.args.vararg or fd.args.kwarg or fd.args.kwonlyargs or fd.args.posonlyargs:
        raise P.bad("expected `@classmethod def from_beacon_config(cls, config)`")
    cls_uses = [n for n in ast.walk(fd) if isinstance(n, ast.Name) and n.id == "cls"]
    if len(cls_uses) != 1 or not isinstance(cls_uses[0].ctx, ast.Load) or _dump(fd.body[1] if isinstance(fd.body[0], ast.Expr) else fd.body[0]) != _dump(_stmt("profile = cls()")):
        raise P.bad("`cls` is used other than in the first statement `profile = cls()`")
    body = [st for st in fd.body if not (isinstance(st, ast.Expr) and isinstance(st.value, ast.Constant) and isinstance(st.value.value, str))]
    body = P.strip_logging(body)
    body, _ = P.rewrite_list(body, {}, 0)
    if not body or _dump(body[-1]) != _dump(_stmt("return profile")):
        raise P.bad("the function does not end with `return profile`")
    P.globs["HttpOptionsBlock__output"] = _http_options_block_output(M)
    fd.body = body
    fd.args.args = [a for a in fd.args.args if a.arg != "cls"]
    fd, branches = P.outline(fd)

    fns = [P.synth(name, params, fbody, doc) for name, params, fbody, doc in branches]
    main = P.synth("from_beacon_config", ["config"], fd.body,
                   "C2Profile.from_beacon_config with the builder API external, logging dropped and the complex branches outlined")
    _selftest(P, main)

    registry = {
        "collections.defaultdict": (collections.defaultdict, "t13ddlist", None),
        "DataTransformBlock": (M.DataTransformBlock, "extern", ("DataTransformBlock_steps", 0, ["steps"])),
        "HttpOptionsBlock__output": (P.globs["HttpOptionsBlock__output"], "extern", ("HttpOptionsBlock_output", 1, [])),
        GATE_CTOR: (M.BeaconGateBlock.from_beacon_gate_option_strings, "extern", ("BeaconGateBlock_from_option_strings", 1, [])),
    }
    for name in NOARG_CLASSES:
        registry[name] = (getattr(M, name), "extern", ("ConfigBlock_new", 0, []))
    for pyname, (w, lean) in P.wrappers.items():
        registry[pyname] = (w, "extern", (lean, 3, []))
    # the members of the cstruct enum `BeaconSetting` the chain compares with: constants `V.enum BeaconSetting <value>` (the value is read
    # here, from the class as it is now; the descriptor's member table is checked against the class by `_check_enum` below)
    BS = B.BeaconSetting
    for n in ast.walk(fd):
        if isinstance(n, ast.Attribute) and _dotted(n.value) == "BeaconSetting":
            m = BS.__members__.get(n.attr)
            if m is None or getattr(BS, n.attr) is not m or BS(int(m.value)) != m or int(m.value) < 0:
                raise P.bad(f"BeaconSetting.{n.attr} is not a member of the enum")
            registry[f"BeaconSetting.{n.attr}"] = (m, "const", f"(V.enum BeaconSetting {int(m.value)})")
        elif isinstance(n, ast.Name) and n.id == "BeaconSetting" and not any(
                isinstance(a, ast.Attribute) and a.value is n for a in ast.walk(fd)):
            raise P.bad("`BeaconSetting` is used other than as `BeaconSetting.<MEMBER>`")
    unit = py2leanu.Unit("Gen.PyC2Gen", ["CsVerif.Model.PyU_T12", "CsVerif.Model.PyU_T13", "CsVerif.Gen.Beacon"], registry)
    unit.t13 = True

    table = gen_beacon._resolved(BS) + [(v, n) for n, v in gen_beacon._members(BS)]
    py_beaconcfg._check_enum(py2leanu, BS, [(int(v), n) for v, n in table])
    unit.prelude.append(py_beacon._enum_descriptor(py2leanu, BS, ENUM_CID, py_beaconcfg.ENUM_TABLES["BeaconSetting"]))
    unit.prelude.append("/-- the configuration object as far as `from_beacon_config` looks at it: the attributes `settings_by_index` (a mapping: the "
                        "pretty values by setting number) and `uris` (a list) -/\n"
                        f"def BeaconConfigCls : PyU.Cls := {{ cid := {CONFIG_CID}, fields := [\"settings_by_index\", \"uris\"], isTuple := false, bases := [] }}\n")
    names = ["BeaconSetting", "BeaconConfigCls"]
    for fn in fns + [main]:
        unit.translate(fn)
    names += unit.names
    header = ("c2profile.py: C2Profile.from_beacon_config (C13), translated by the untyped translator; the builder classes are external\n\n"
              "The synthetic functions the method was prepared into (see tools/gen/py_c2gen.py):\n\n"
              + "\n".join(P.sources[k] for k in P.sources).replace("-/", "- /"))
    return "PyC2Gen.lean", unit.render(header), names


if __name__ == "__main__":
    sys.path.insert(0, sys.argv[1] if len(sys.argv) > 1 else "/repo")
    print(generate(Path(sys.argv[1] if len(sys.argv) > 1 else "/repo"))[1])

"""Translator plug-in: Lark's LOADED grammar of c2profile.lark  ->  lean/CsVerif/Gen/Grammar.lean

Source of truth is `dissect.cobaltstrike.c2profile.c2profile_parser` (its compiled `.rules`, `.terminals`,
`.ignore_tokens`), i.e. exactly what the LALR parser and the `Reconstructor` work with -- not the text of the
.lark file.  Lark compiles EBNF away: `x*` becomes a helper rule `__o_star_k : x | __o_star_k x` plus two copies
of the using rule (with / without the helper), `x?` doubles the using rule, `x+` becomes `__o_plus_k`.  This
plug-in folds those helpers back so that every alternative written in the grammar is ONE `Form`

    Form := { id, origin (interned nonterminal), alias? (interned tree label), items : List Item }
    Item := kw k        anonymous, filtered-out string terminal (keyword / punctuation), k = index in `keywords`
          | tok t       named terminal that stays in the tree as a Token (STRING, OPTION), t = index in `names`
          | nt n        exactly one sub-tree of nonterminal n
          | star n      zero or more sub-trees of nonterminal n          (`n*`;  `n+` is emitted as `nt n, star n`)
          | opt n       zero or one sub-tree of nonterminal n            (`n?` / `[n]`, maybe_placeholders=False)

and then CROSS-CHECKS the folding: re-expanding the folded forms the way Lark does must reproduce the compiled
rule set exactly (same origin, expansion, alias, for every rule), otherwise `GrammarError` is raised.  Every
construct outside this fragment (inlined `_rules`, templates, `!keep_all` rules, priorities, filtered regex
terminals, `?rule` alternatives without alias, terminal flags, ...) raises as well: nothing is skipped silently.

All names (rule names, aliases, named terminals) are interned in ONE table `names`, because a tree label is
"alias, else rule name" and Lark does not distinguish the two (e.g. the alias `string` of `"string" string ";"`
and the rule `string: STRING` give the same label).

Python side: `load()` returns the same data as a `Table` (used by tools/harness/c10.py and later C11/C13).
"""
from __future__ import annotations

import itertools
import re
from dataclasses import dataclass, field
from pathlib import Path


class GrammarError(Exception):
    pass


@dataclass
class Form:
    id: int
    origin: int
    alias: int | None
    items: list  # list of (kind, arg) with kind in kw/tok/nt/star/opt ; python-only kind "plus" is emitted as nt+star
    rule_orders: list = field(default_factory=list)

    def lean_items(self):
        out = []
        for k, a in self.items:
            if k == "plus":
                out += [("nt", a), ("star", a)]
            else:
                out.append((k, a))
        return out


@dataclass
class Table:
    names: list            # interned symbol names: rule names, aliases, named terminals
    keywords: list         # keyword / punctuation texts (anonymous filtered terminals), id = index
    keyword_terms: list    # Lark's terminal name of each keyword (SET, LBRACE, __ANON_3, ...)
    forms: list            # list[Form]
    start: int             # interned start symbol
    expand1: list          # origins declared `?rule`
    named_terminals: dict  # name id -> ("alts", [texts]) | ("string", pattern)
    option_alts: list      # alternatives of OPTION (texts), in Lark's match order (longest first)
    string_pattern: str
    ignored: list          # [(terminal name, regex)]
    n_compiled_rules: int
    n_compiled_origins: int

    def name_id(self, s):
        return self.names.index(s)

    def label(self, f: Form) -> int:
        return f.alias if f.alias is not None else f.origin

    def forms_of(self, origin: int):
        return [f for f in self.forms if f.origin == origin]


HELPER = re.compile(r"^__.*_(star|plus)_\d+$")


def _sym(s):
    return ("T" if s.is_term else "N", s.name)


def load(parser=None) -> Table:
    if parser is None:
        from dissect.cobaltstrike.c2profile import c2profile_parser as parser
    from lark.lexer import PatternRE, PatternStr

    opts = parser.options
    if opts.maybe_placeholders:
        raise GrammarError("maybe_placeholders=True is not modelled (Reconstructor refuses it too)")
    if opts.keep_all_tokens:
        raise GrammarError("keep_all_tokens is not modelled")
    if list(opts.start) != ["start"] and len(opts.start) != 1:
        raise GrammarError(f"exactly one start symbol expected, got {opts.start}")
    if opts.parser != "lalr":
        raise GrammarError(f"parser={opts.parser!r} is not the modelled LALR configuration")
    if opts.postlex is not None:
        raise GrammarError("postlex is not modelled")
    if opts.g_regex_flags:
        raise GrammarError(f"global regex flags {opts.g_regex_flags} are not modelled")
    if opts.lexer != "contextual":
        raise GrammarError(f"lexer={opts.lexer!r}: the modelled configuration is LALR + contextual lexer")

    rules = list(parser.rules)
    terms = {t.name: t for t in parser.terminals}
    for t in parser.terminals:
        if t.priority != 0:
            raise GrammarError(f"terminal {t.name} has a priority ({t.priority}): lexer priorities are not modelled")
        if t.pattern.flags:
            raise GrammarError(f"terminal {t.name} has regex flags {set(t.pattern.flags)}: not modelled")

    names: list = []

    def intern(s: str) -> int:
        if s not in names:
            names.append(s)
        return names.index(s)

    keywords: list = []
    keyword_terms: list = []

    def kw_id(term_name: str) -> int:
        t = terms[term_name]
        if not isinstance(t.pattern, PatternStr):
            raise GrammarError(f"filtered-out terminal {term_name} is a regular expression: the Reconstructor cannot print it")
        if term_name not in keyword_terms:
            keyword_terms.append(term_name)
            keywords.append(t.pattern.value)
        return keyword_terms.index(term_name)

    # ---- helper rules ---------------------------------------------------------------------------------
    by_origin: dict = {}
    for r in rules:
        by_origin.setdefault(r.origin.name, []).append(r)
        o = r.options
        if o.keep_all_tokens or o.priority is not None or o.template_source is not None or any(o.empty_indices):
            raise GrammarError(f"rule {r.origin.name}: rule options {o} are not modelled")
        if "{" in r.origin.name:
            raise GrammarError(f"rule template instance {r.origin.name} is not modelled")
    helpers: dict = {}  # helper name -> (kind, element symbol name)
    for name, rs in by_origin.items():
        m = HELPER.match(name)
        if not m:
            if name.startswith("_"):
                raise GrammarError(f"inlined rule {name} (leading underscore) is not modelled")
            continue
        exps = sorted([[_sym(s) for s in r.expansion] for r in rs], key=len)
        if len(exps) != 2 or len(exps[0]) != 1 or len(exps[1]) != 2 or exps[1][0] != ("N", name) or exps[1][1] != exps[0][0]:
            raise GrammarError(f"EBNF helper {name} has an unexpected shape {exps}")
        if any(r.alias is not None or r.options.expand1 for r in rs):
            raise GrammarError(f"EBNF helper {name} carries an alias/expand1")
        kind, elem = exps[0][0]
        if kind != "N" or HELPER.match(elem) or elem.startswith("_"):
            raise GrammarError(f"EBNF helper {name} repeats {exps[0][0]}: only repetition of a plain rule is modelled")
        helpers[name] = (m.group(1), elem)

    # ---- interning order: rule names in first-appearance order, then aliases, then named terminals ------
    plain_origins = [n for n in by_origin if n not in helpers]
    for n in plain_origins:
        intern(n)
    expand1 = []
    for n in plain_origins:
        flags = {r.options.expand1 for r in by_origin[n]}
        if len(flags) != 1:
            raise GrammarError(f"rule {n}: inconsistent expand1 flags")
        if flags == {True}:
            expand1.append(intern(n))
            for r in by_origin[n]:
                if r.alias is None:
                    raise GrammarError(f"?{n} has an alternative without alias: conditional inlining is not modelled")

    # ---- fold -----------------------------------------------------------------------------------------
    forms: list = []
    used_helpers = set()
    for n in plain_origins:
        rs = sorted(by_origin[n], key=lambda r: r.order)
        pool = {}  # (expansion tuple, alias) -> rule
        for r in rs:
            key = (tuple(_sym(s) for s in r.expansion), r.alias)
            if key in pool:
                raise GrammarError(f"rule {n}: duplicate compiled alternative {key}")
            pool[key] = r
        remaining = dict(pool)
        for r in rs:
            key = (tuple(_sym(s) for s in r.expansion), r.alias)
            if key not in remaining:
                continue
            exp, alias = key
            # positions that may be dropped: star helpers (must be droppable), and single symbols whose removal
            # gives a sibling alternative with the same alias
            droppable = []
            for i, (k, nm) in enumerate(exp):
                without = (exp[:i] + exp[i + 1:], alias)
                if k == "N" and nm in helpers and helpers[nm][0] == "star":
                    if without not in remaining:
                        raise GrammarError(f"rule {n}: `*` helper {nm} without its empty variant")
                    droppable.append(i)
                elif k == "N" and nm in helpers:
                    if without in remaining:
                        raise GrammarError(f"rule {n}: `+` helper {nm} has an empty variant")
                elif without in remaining:
                    if k != "N":
                        raise GrammarError(f"rule {n}: optional terminal {nm} is not modelled")
                    droppable.append(i)
            variants = []
            for drop in itertools.product([False, True], repeat=len(droppable)):
                gone = {p for p, d in zip(droppable, drop) if d}
                variants.append((tuple(s for i, s in enumerate(exp) if i not in gone), alias))
            if len(set(variants)) != len(variants):
                raise GrammarError(f"rule {n}: optional parts of {exp} are not independent")
            orders = []
            for v in variants:
                if v not in remaining:
                    raise GrammarError(f"rule {n}: cannot fold {exp} -> {alias}: variant {v[0]} missing")
                orders.append(remaining.pop(v).order)
            items = []
            for i, (k, nm) in enumerate(exp):
                if k == "T":
                    t = terms[nm]
                    if exp_filter(r, i):
                        items.append(("kw", kw_id(nm)))
                    else:
                        items.append(("tok", nm))  # interned below
                elif nm in helpers:
                    used_helpers.add(nm)
                    items.append(("star" if helpers[nm][0] == "star" else "plus", helpers[nm][1]))
                elif i in droppable:
                    items.append(("opt", nm))
                else:
                    items.append(("nt", nm))
            forms.append(Form(len(forms), intern(n), alias, items, sorted(orders)))
        if remaining:
            raise GrammarError(f"rule {n}: alternatives left after folding: {list(remaining)}")
    if used_helpers != set(helpers):
        raise GrammarError(f"unused EBNF helpers {set(helpers) - used_helpers}")

    # aliases, then terminals, then resolve item names
    for f in forms:
        if f.alias is not None:
            if not isinstance(f.alias, str):
                raise GrammarError(f"alias {f.alias!r} is not a string")
            f.alias = intern(f.alias)
    named_terminals = {}
    for f in forms:
        new = []
        for k, a in f.items:
            if k == "tok":
                tid = intern(a)
                named_terminals.setdefault(tid, a)
                new.append((k, tid))
            elif k == "kw":
                new.append((k, a))
            else:
                if a not in plain_origins:
                    raise GrammarError(f"form {f.id}: unknown nonterminal {a}")
                new.append((k, names.index(a)))
        f.items = new

    # ---- named terminals -------------------------------------------------------------------------------
    option_alts, string_pattern = [], None
    nt_info = {}
    for tid, tname in named_terminals.items():
        t = terms[tname]
        pat = t.pattern.value
        if isinstance(t.pattern, PatternStr):
            nt_info[tid] = ("alts", [pat])
            continue
        m = re.fullmatch(r"\(\?:([A-Za-z0-9_\-|]+)\)", pat)
        if m:
            alts = m.group(1).split("|")
            if "(?:" + "|".join(alts) + ")" != pat or any(not a for a in alts):
                raise GrammarError(f"terminal {tname}: cannot split {pat!r} into literal alternatives")
            nt_info[tid] = ("alts", alts)
            if tname == "OPTION":
                option_alts = alts
        elif tname == "STRING":
            nt_info[tid] = ("string", pat)
            string_pattern = pat
        else:
            raise GrammarError(f"named terminal {tname} = {pat!r} is neither a list of literals nor STRING")
    if string_pattern is None or not option_alts:
        raise GrammarError("terminals STRING and OPTION expected in the grammar")
    ignored = []
    for nm in parser.ignore_tokens:
        t = terms[nm]
        if not isinstance(t.pattern, PatternRE):
            raise GrammarError(f"ignored terminal {nm} is not a regular expression")
        ignored.append((nm, t.pattern.value))
    # every terminal is accounted for
    accounted = set(keyword_terms) | set(named_terminals.values()) | set(parser.ignore_tokens)
    if set(terms) != accounted:
        raise GrammarError(f"terminals not used by any rule / not accounted for: {sorted(set(terms) ^ accounted)}")
    if len(set(keywords)) != len(keywords):
        raise GrammarError("two anonymous terminals with the same text")

    tab = Table(names, keywords, keyword_terms, forms, names.index(opts.start[0]), expand1, nt_info, option_alts,
                string_pattern, ignored, len(rules), len(by_origin))
    _cross_check(tab, rules, helpers)
    return tab


def exp_filter(rule, i) -> bool:
    s = rule.expansion[i]
    return bool(s.is_term and s.filter_out)


def _cross_check(tab: Table, rules, helpers):
    """Re-expand the folded forms as Lark's EBNF compiler does and compare with the compiled rules."""
    want = set()
    for r in rules:
        want.add((r.origin.name, tuple((s.name, bool(s.is_term and s.filter_out)) if s.is_term else (s.name, None) for s in r.expansion), r.alias))
    helper_of = {}
    got = set()
    # helper rules: one pair per distinct helper; which helper name serves which (form, position) is Lark's choice,
    # so helpers are compared as a multiset of (kind, element) and the using rules modulo helper renaming.
    def norm(name):
        return ("%s:%s" % helpers[name]) if name in helpers else name

    want_n = set()
    for o, exp, al in want:
        want_n.add((norm(o), tuple((norm(nm), fo) for nm, fo in exp), al))
    for f in tab.forms:
        o = tab.names[f.origin]
        al = tab.names[f.alias] if f.alias is not None else None
        slots = []
        for k, a in f.items:
            if k == "kw":
                slots.append([(tab.keyword_terms[a], True)])
            elif k == "tok":
                slots.append([(tab.names[a], False)])
            elif k == "nt":
                slots.append([(tab.names[a], None)])
            elif k == "opt":
                slots.append([(tab.names[a], None), None])
            elif k == "star":
                slots.append([("star:" + tab.names[a], None), None])
                helper_of[("star", tab.names[a])] = True
            elif k == "plus":
                slots.append([("plus:" + tab.names[a], None)])
                helper_of[("plus", tab.names[a])] = True
            else:
                raise GrammarError(f"unknown item kind {k}")
        for choice in itertools.product(*slots):
            got.add((o, tuple(c for c in choice if c is not None), al))
    for kind, elem in helper_of:
        h = f"{kind}:{elem}"
        got.add((h, ((elem, None),), None))
        got.add((h, ((h, None), (elem, None)), None))
    if got != want_n:
        raise GrammarError(f"folded forms do not re-expand to Lark's compiled rules: missing {sorted(want_n - got)[:3]} extra {sorted(got - want_n)[:3]}")
    n_rules_from_forms = sum(len(f.rule_orders) for f in tab.forms) + 2 * len(helpers)
    if n_rules_from_forms != len(rules):
        raise GrammarError(f"rule count mismatch after folding: {n_rules_from_forms} != {len(rules)}")


# ------------------------------------------------------------------------------------------------------
# Lean emission
# ------------------------------------------------------------------------------------------------------

def _codes(s: str) -> str:
    return "[" + ", ".join(str(ord(c)) for c in s) + "]"


def _lean_str(s: str) -> str:
    out = ['"']
    for ch in s:
        if ch == '"':
            out.append('\\"')
        elif ch == "\\":
            out.append("\\\\")
        elif ch == "\n":
            out.append("\\n")
        elif ch == "\r":
            out.append("\\r")
        elif ch == "\t":
            out.append("\\t")
        elif 32 <= ord(ch) < 127:
            out.append(ch)
        elif ord(ch) < 256:
            out.append("\\x%02x" % ord(ch))
        elif ord(ch) < 0x10000:
            out.append("\\u%04x" % ord(ch))
        else:
            raise GrammarError("character outside the BMP in a grammar string")
    out.append('"')
    return "".join(out)


def _item(tab, k, a) -> str:
    return f".{k} {a}"


def render(tab: Table) -> str:
    L = []
    w = L.append
    w("/-!")
    w("# Grammar of Malleable C2 profiles as loaded by Lark (c2profile.lark)")
    w("")
    w(f"{tab.n_compiled_rules} compiled rules over {tab.n_compiled_origins} origins (EBNF helpers included) fold into")
    w(f"{len(tab.forms)} forms over {len({f.origin for f in tab.forms})} nonterminals; the folding is cross-checked by the plug-in.")
    w("")
    w("* `names`     one intern table for rule names, aliases (= tree labels) and named terminals;")
    w("* `keywords`  texts of the anonymous, filtered-out terminals (keywords and punctuation) as code points;")
    w("* `forms`     every alternative of every rule, `forms[i].id = i`;")
    w("* `optionAlts` literal alternatives of the terminal OPTION; `stringPattern`, `ignored` the regular expressions")
    w("  of STRING and of the %ignore'd terminals (the hand-written lexer model is pinned to these texts).")
    w("No imports: linkable into the compiled drivers.  Used by C10, C11, C13.")
    w("-/")
    w("namespace Grammar")
    w("")
    w("/-- One symbol of the right-hand side of a production, EBNF folded back. -/")
    w("inductive Item where")
    w("  /-- anonymous filtered-out terminal: keyword or punctuation, index into `keywords` -/")
    w("  | kw (k : Nat)")
    w("  /-- named terminal that stays in the tree as a token (STRING, OPTION), index into `names` -/")
    w("  | tok (t : Nat)")
    w("  /-- exactly one sub-tree of nonterminal `n` -/")
    w("  | nt (n : Nat)")
    w("  /-- zero or more sub-trees of nonterminal `n` -/")
    w("  | star (n : Nat)")
    w("  /-- zero or one sub-tree of nonterminal `n` -/")
    w("  | opt (n : Nat)")
    w("  deriving DecidableEq, Repr, Inhabited")
    w("")
    w("/-- One alternative of a rule.  The tree label of a node built by it is `alias`, else `origin`. -/")
    w("structure Form where")
    w("  id : Nat")
    w("  origin : Nat")
    w("  alias : Option Nat")
    w("  items : List Item")
    w("  deriving DecidableEq, Repr, Inhabited")
    w("")
    w("/-- Interned symbol names (rule names, aliases, named terminals); id = position. -/")
    w("def names : List String := [")
    for i, n in enumerate(tab.names):
        w(f"  {_lean_str(n)}{',' if i + 1 < len(tab.names) else ''} -- {i}")
    w("]")
    w("")
    w("/-- Code points of `names` (kernel-friendly copy used by the naming-convention obligation). -/")
    w("def nameCodes : List (List Nat) := [")
    for i, n in enumerate(tab.names):
        w(f"  {_codes(n)}{',' if i + 1 < len(tab.names) else ''} -- {i} {n}")
    w("]")
    w("")
    w("/-- Keyword / punctuation texts as code points; id = position.  (`keywordTerms` = Lark's terminal names.) -/")
    w("def keywords : List (List Nat) := [")
    for i, k in enumerate(tab.keywords):
        w(f"  {_codes(k)}{',' if i + 1 < len(tab.keywords) else ''} -- {i} {k}")
    w("]")
    w("")
    w("def keywordStrings : List String := [")
    w("  " + ", ".join(_lean_str(k) for k in tab.keywords))
    w("]")
    w("")
    w("def keywordTerms : List String := [")
    w("  " + ", ".join(_lean_str(k) for k in tab.keyword_terms))
    w("]")
    w("")
    w(f"/-- The start symbol (`{tab.names[tab.start]}`). -/")
    w(f"def start : Nat := {tab.start}")
    w("")
    w("/-- Rules declared `?rule` (all of their alternatives carry an alias, so nothing is ever inlined). -/")
    w(f"def expand1 : List Nat := [{', '.join(map(str, tab.expand1))}]")
    w("")
    w("/-- Named terminals that stay in the tree: (id in `names`). -/")
    w(f"def namedTerminals : List Nat := [{', '.join(str(t) for t in tab.named_terminals)}]")
    for tid in tab.named_terminals:
        w(f"def term{tab.names[tid]} : Nat := {tid}")
    w("")
    w("/-- Named terminals with their definition: `none` = the STRING regular expression (`stringPattern`),")
    w("`some alts` = a list of literal alternatives in Lark's match order. -/")
    w("def terminals : List (Nat × Option (List (List Nat))) := [")
    ents = []
    for tid, (kind, val) in tab.named_terminals.items():
        if kind == "string":
            ents.append(f"  ({tid}, none)")
        else:
            ents.append(f"  ({tid}, some [" + ", ".join(_codes(a) for a in val) + "])")
    w(",\n".join(ents))
    w("]")
    w("")
    w("/-- Literal alternatives of OPTION in Lark's match order (longest first), as code points. -/")
    w("def optionAlts : List (List Nat) := [")
    for i, k in enumerate(tab.option_alts):
        w(f"  {_codes(k)}{',' if i + 1 < len(tab.option_alts) else ''} -- {k}")
    w("]")
    w("")
    w("def optionStrings : List String := [")
    w("  " + ", ".join(_lean_str(k) for k in tab.option_alts))
    w("]")
    w("")
    w("/-- Regular expression of STRING exactly as compiled by Lark. -/")
    w(f"def stringPattern : String := {_lean_str(tab.string_pattern)}")
    w("")
    w("/-- %ignore'd terminals and their regular expressions. -/")
    w("def ignored : List (String × String) := [")
    w("  " + ", ".join(f"({_lean_str(a)}, {_lean_str(b)})" for a, b in tab.ignored))
    w("]")
    w("")
    w("open Item in")
    w("def forms : List Form := [")
    for i, f in enumerate(tab.forms):
        items = ", ".join(_item(tab, k, a) for k, a in f.lean_items())
        al = f"some {f.alias}" if f.alias is not None else "none"
        txt = " ".join(_show_item(tab, k, a) for k, a in f.items)
        w(f"  ⟨{f.id}, {f.origin}, {al}, [{items}]⟩{',' if i + 1 < len(tab.forms) else ''} -- {tab.names[f.origin]}: {txt}" + (f" -> {tab.names[f.alias]}" if f.alias is not None else ""))
    w("]")
    w("")
    w(f"def compiledRuleCount : Nat := {tab.n_compiled_rules}")
    w("")
    w("end Grammar")
    return "\n".join(L) + "\n"


def _show_item(tab, k, a):
    if k == "kw":
        return '"' + tab.keywords[a] + '"'
    n = tab.names[a]
    return {"tok": n, "nt": n, "star": n + "*", "opt": n + "?", "plus": n + "+"}[k]


def generate(repo: Path):
    import importlib
    import sys

    # the table must describe the grammar of `repo`'s working tree
    mod = sys.modules.get("dissect.cobaltstrike.c2profile")
    if mod is None:
        mod = importlib.import_module("dissect.cobaltstrike.c2profile")
    src = Path(mod.__file__).resolve()
    if Path(repo).resolve() not in src.parents:
        raise GrammarError(f"dissect.cobaltstrike was imported from {src}, not from {repo}")
    tab = load(mod.c2profile_parser)
    return "Grammar.lean", render(tab), ["forms", "keywords", "names", "terminals", "optionAlts", "stringPattern", "ignored"]


if __name__ == "__main__":
    import sys
    sys.path.insert(0, sys.argv[1] if len(sys.argv) > 1 else "/repo")
    t = load()
    print(len(t.forms), "forms", len({f.origin for f in t.forms}), "origins", len(t.keywords), "keywords", len(t.names), "names")

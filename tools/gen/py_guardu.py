"""Translator plug-in: the three generator functions of dissect/cobaltstrike/guardrails.py (property C17) —
`iter_guardrail_configs_with_beacon`, `find_xor_key_candidates`, `iter_guardrail_configs` — translated statement by statement from
their *source* by the untyped translator (tools/py2leanu.py) → lean/CsVerif/Gen/PyGuardU.lean (namespace `Gen.PyGuardU`).

Props/C17Gen.lean proves each translated definition equal to the hand-written model of C17 (`C17.withBeaconOne` / `selectKey`,
`C17.findXorKeyCandidates`, `C17.iterGuardrailConfigs`), so the C17 theorems are theorems about the source text as it stands on
every run.

All three are GENERATORS over a FILE PARAMETER `fh`: the translated definition returns the tuple
`(list of the yielded values, the file object afterwards)`.
  * `iter_guardrail_configs_with_beacon`: `iter_guardrail_configs(fh)` and `find_xor_key_candidates(io.BytesIO(…))` are EXTERNAL
    (parameters `iter_guardrail_configs_x`: file ↦ (list of metadata records, file afterwards), `find_xor_key_candidates_x`:
    BytesIO ↦ list of candidate keys); `payload_checksum` is the typed translation of Gen/PyGuard.lean, `xor` the one of
    Gen/PyUtils.lean, lifted to dynamic values; `GuardrailMetadata` (a dataclass) is a class descriptor read by introspection.
  * `find_xor_key_candidates`: `io.DEFAULT_BUFFER_SIZE` (read at call time) is the value parameter `bufsize`;
    `collections.Counter` is a dict (`PyU.counterIncr`, `PyU.mostCommon`), `utils.grouper` the run-time function `PyU.grouper`
    (its body is checked here against the text it was modelled from).
  * `iter_guardrail_configs`: `GUARD_CONFIG_STARTS`, `BEACON_CONFIG_PATCH_SIZE`, `GUARD_PATCH_SIZE` are the GENERATED tables of
    Gen/Guardrails.lean; `GuardOption` / `SettingsType` are `PyU.EnumCls` descriptors over the generated member tables;
    `GuardrailSetting : PyU.StructCls` is the layout of the cstruct structure by introspection, probed here against the real
    `GuardrailSetting(io.BufferedReader(io.BytesIO(…)))`; `u32be` is the typed translation of Gen/PyUtils.lean.
The unit imports `Model/C17Fast.lean`: in COMPILED code (the driver's `g-*` streams) the typed translations of `payload_checksum` and
`utils.xor` called from here run as proved-equal linear versions (`@[csimp]`, no axioms); the definitions and theorems are unaffected.
"""
from __future__ import annotations

import ast
import collections
import dataclasses
import functools
import importlib
import inspect
import io
import itertools
import logging
import sys
import textwrap
from pathlib import Path

ENUM_CIDS = {"GuardOption": 30, "SettingsType": 31}
ENUM_TABLES = {"GuardOption": "(Gen.Guardrails.GuardOption.map fun p => (p.2, p.1))",
               "SettingsType": "(Gen.Guardrails.SettingsType.map fun p => (p.2, p.1))"}
SETTING_CID, META_CID = 32, 33
GROUPER_BODY = "args = [iter(iterable)] * n\nreturn itertools.zip_longest(*args, fillvalue=fillvalue)"


def _check_enum(py2leanu, cls):
    """`.name` / `Cls.NAME` of the real class are what a table of its members (name, value), first name per value, answers"""
    members = [(n, int(m.value)) for n, m in cls.__members__.items()]
    if [(m.name, int(m.value)) for m in cls] != members or len({v for _, v in members}) != len(members):
        raise py2leanu.Unsupported(f"enum {cls.__name__}: aliases / iteration order differ from `__members__`")
    for v in list(range(0, 40)) + [255, 256, 65535, 70000]:
        hit = next((n for n, x in members if x == v), None)
        if cls(v).name != hit:
            raise py2leanu.Unsupported(f"{cls.__name__}({v}).name = {cls(v).name!r}, the member table says {hit!r}")
    if cls(-5).name is not None:
        raise py2leanu.Unsupported(f"{cls.__name__}(-5).name is not None")


def _struct_descriptor(py2leanu, G, S, enums: dict) -> str:
    """`struct GuardrailSetting` by introspection; the assumptions of `PyU.structRead` / `PyU.newBufReader` / `PyU.peek` are probed
    on the real class, read from an `io.BufferedReader(io.BytesIO(…))` as `iter_guardrail_configs` does"""
    if S.cs is not G.c_guardrails or G.c_guardrails.endian not in ("<", ">"):
        raise py2leanu.Unsupported("GuardrailSetting is not a structure of guardrails.c_guardrails / unknown byte order")
    big = G.c_guardrails.endian == ">"
    names, tys, widths = [], [], []
    for name, f in S.fields.items():
        t = f.type
        if t in enums.values():
            tys.append(f"PyU.FieldTy.enum {t.__name__}")
            widths.append(t.type.size)
        elif isinstance(t, type) and issubclass(t, int) and isinstance(getattr(t, "size", None), int) and 1 <= t.size <= 8:
            tys.append(f"PyU.FieldTy.uint {t.size}")
            widths.append(t.size)
        elif isinstance(t, type) and issubclass(t, bytes) and getattr(t, "num_entries", None) is not None and str(t.num_entries) in names \
                and getattr(getattr(t, "type", None), "size", None) == 1:
            tys.append(f"PyU.FieldTy.chars {py2leanu.lean_string(str(t.num_entries))}")
            widths.append(None)
        else:
            raise py2leanu.Unsupported(f"GuardrailSetting.{name}: field type {t!r} is outside the modelled kinds")
        names.append(name)
    if [n for n, _ in S.fields.items()] != [f.name for f in S.__fields__]:
        raise py2leanu.Unsupported("GuardrailSetting.fields and GuardrailSetting.__fields__ disagree")
    if widths.count(None) != 1 or widths[-1] is not None:
        raise py2leanu.Unsupported("GuardrailSetting: the modelled layout is fixed-width fields followed by one char array")
    order = "big" if big else "little"
    len_field = str(S.fields[names[-1]].type.num_entries)
    for fill, n in ((0xFF, 3), (0x01, 0), (0x80, 5), (0xFE, 300)):
        vals, data = [], b""
        for nm, w in zip(names[:-1], widths[:-1]):
            raw = n.to_bytes(w, order) if nm == len_field else bytes([fill] * w)
            vals.append(int.from_bytes(raw, order))
            data += raw
        payload = bytes((i * 7 + 3) % 256 for i in range(n))
        full = data + payload
        raw_io = io.BytesIO(b"pre" + full + b"XYZ")
        raw_io.seek(3)
        fh = io.BufferedReader(raw_io)
        if fh.peek(2) != full + b"XYZ":
            raise py2leanu.Unsupported("BufferedReader.peek over a small BytesIO does not answer everything that is left")
        obj = S(fh)
        got = [getattr(obj, nm) for nm in names]
        want = vals + [payload]
        if [bytes(g) if isinstance(g, bytes) else int(g) for g in got] != want or fh.tell() != 3 + len(full) or fh.peek(2)[:2] != b"XY":
            raise py2leanu.Unsupported(f"GuardrailSetting(fh) on a probe: {got!r} / position {fh.tell()}, modelled {want!r} / {3 + len(full)}")
        for g, nm in zip(got, names):
            t = S.fields[nm].type
            if t in enums.values() and type(g) is not t:
                raise py2leanu.Unsupported(f"GuardrailSetting.{nm} is not a {t.__name__} member")
        for cut in range(len(full)):
            try:
                S(io.BufferedReader(io.BytesIO(full[:cut])))
                raise py2leanu.Unsupported(f"GuardrailSetting(fh) on {cut} of {len(full)} bytes does not raise")
            except EOFError:
                pass
    obj = S(io.BufferedReader(io.BytesIO(bytes(sum(w for w in widths if w)))))
    if set(vars(obj)) - {"__dynamic_sizes__"} != set(names):
        raise py2leanu.Unsupported(f"a GuardrailSetting instance has the attributes {sorted(vars(obj))}")
    sig = inspect.signature(io.BufferedReader)
    bs = sig.parameters.get("buffer_size")
    if bs is None or bs.default != 8192:
        raise py2leanu.Unsupported("io.BufferedReader's default buffer_size is not 8192 (PyU.readerBufferSize)")
    fields = ", ".join(py2leanu.lean_string(n) for n in names)
    return (f"/-- instances of `struct GuardrailSetting` (cstruct structure: a plain object with one attribute per field) -/\n"
            f"def GuardrailSettingCls : PyU.Cls := {{ cid := {SETTING_CID}, fields := [{fields}], isTuple := false, bases := [] }}\n\n"
            f"/-- `struct GuardrailSetting` of guardrails.py: field types in declaration order, byte order of `c_guardrails` -/\n"
            f"def GuardrailSetting : PyU.StructCls := {{ cls := GuardrailSettingCls, bigEndian := {'true' if big else 'false'}, tys := [{', '.join(tys)}] }}\n")


def _dataclass_descriptor(py2leanu, cls, cid: int):
    """a plain `@dataclass` (generated `__init__` / `__eq__`, not frozen, no slots, no hooks): (Lean text, fields, defaults)"""
    name = cls.__name__
    if not (dataclasses.is_dataclass(cls) and isinstance(cls, type)) or cls.__mro__ != (cls, object):
        raise py2leanu.Unsupported(f"{name} is not a dataclass without base classes")
    p = cls.__dataclass_params__
    if not (p.init and p.eq) or p.frozen or p.order or getattr(p, "slots", False) or "__slots__" in cls.__dict__:
        raise py2leanu.Unsupported(f"{name}: dataclass parameters {p!r} are outside the modelled kind")
    for hook in ("__post_init__", "__setattr__", "__getattr__", "__getattribute__", "__delattr__", "__bool__", "__len__", "__iter__"):
        if hook in cls.__dict__:
            raise py2leanu.Unsupported(f"{name} defines {hook}")
    for gen in ("__init__", "__eq__"):
        fn = cls.__dict__.get(gen)
        if fn is None or getattr(getattr(fn, "__code__", None), "co_filename", "") != "<string>":
            raise py2leanu.Unsupported(f"{name}.{gen} is not the one `@dataclass` generates")
    fields, defaults = [], {}
    for f in dataclasses.fields(cls):
        if not f.init or f.default_factory is not dataclasses.MISSING or f.name.startswith("_"):
            raise py2leanu.Unsupported(f"{name}.{f.name}: init=False / default_factory / private field")
        if f.default is not dataclasses.MISSING:
            py2leanu.const_term(f.default)
            defaults[f.name] = f.default
        fields.append(f.name)
    if list(inspect.signature(cls).parameters) != fields:
        raise py2leanu.Unsupported(f"{name}: constructor parameters differ from the fields")
    probe = cls(**{f: i for i, f in enumerate(fields)})
    if [getattr(probe, f) for f in fields] != list(range(len(fields))) or set(vars(probe)) != set(fields):
        raise py2leanu.Unsupported(f"{name}(…) does not store its arguments as attributes")
    probe2 = cls(**{f: i for i, f in enumerate(fields)})
    setattr(probe2, fields[0], 99)
    if probe == probe2 or getattr(probe2, fields[0]) != 99:
        raise py2leanu.Unsupported(f"{name}: attribute assignment / `==` by state do not behave as modelled")
    shown = ", ".join(py2leanu.lean_string(f) for f in fields)
    text = (f"/-- `{cls.__module__}.{name}` (a plain dataclass: one attribute per field, `==` by state); defaults: {defaults!r} -/\n"
            f"def {name} : PyU.Cls := {{ cid := {cid}, fields := [{shown}], isTuple := false, bases := [] }}\n")
    return text, fields, defaults


def generate(repo: Path):
    tools = str(Path(__file__).resolve().parent.parent)
    if tools not in sys.path:
        sys.path.insert(0, tools)
    import py2lean
    import py2leanu
    from gen import py_beacon, py_utils
    G = importlib.import_module("dissect.cobaltstrike.guardrails")
    U = importlib.import_module("dissect.cobaltstrike.utils")

    if G.io is not io or G.collections is not collections or G.functools is not functools:
        raise py2leanu.Unsupported("guardrails.io / collections / functools are not the standard modules")
    if not isinstance(io.DEFAULT_BUFFER_SIZE, int) or isinstance(io.DEFAULT_BUFFER_SIZE, bool):
        raise py2leanu.Unsupported("io.DEFAULT_BUFFER_SIZE is not an int")
    registry = {
        "io.DEFAULT_BUFFER_SIZE": (io.DEFAULT_BUFFER_SIZE, "gparam", "bufsize"),
        "io.BytesIO": (io.BytesIO, "bytesio", None),
        "io.BufferedReader": (io.BufferedReader, "bufreader", None),
        "collections.Counter": (collections.Counter, "counterctor", None),
        "iter_guardrail_configs": (G.iter_guardrail_configs, "extern", ("iter_guardrail_configs_x", 1, [])),
        "find_xor_key_candidates": (G.find_xor_key_candidates, "extern", ("find_xor_key_candidates_x", 1, [])),
    }
    unit = py2leanu.Unit("Gen.PyGuardU", ["CsVerif.Model.PyU_T15", "CsVerif.Model.PyU_T02", "CsVerif.Model.PyU_T17", "CsVerif.Gen.Guardrails",
                                          "CsVerif.Gen.PyUtils", "CsVerif.Gen.PyGuard", "CsVerif.Model.C17Fast"], registry)
    unit.t17 = True
    unit.t17_filegens = {"iter_guardrail_configs"}

    # logging: `log.info(...)` / `log.debug(...)` evaluate their arguments and have no effect on the result
    lg = getattr(G, "log", None)
    if not isinstance(lg, logging.Logger) or type(lg).info is not logging.Logger.info or type(lg).debug is not logging.Logger.debug:
        raise py2leanu.Unsupported("guardrails.log is not a plain logging.Logger")
    registry["log.info"] = (lg.info, "noop", None)
    registry["log.debug"] = (lg.debug, "noop", None)

    # module constants: the generated tables of Gen/Guardrails.lean (tools/gen/guardrails.py reads the same objects)
    if type(G.GUARD_CONFIG_STARTS) is not list or not all(type(x) is bytes for x in G.GUARD_CONFIG_STARTS):
        raise py2leanu.Unsupported("GUARD_CONFIG_STARTS is not a list of bytes")
    for c in ("BEACON_CONFIG_PATCH_SIZE", "GUARD_PATCH_SIZE"):
        if type(getattr(G, c)) is not int or getattr(G, c) < 0:
            raise py2leanu.Unsupported(f"{c} is not a non-negative int")
    registry["GUARD_CONFIG_STARTS"] = (G.GUARD_CONFIG_STARTS, "const", "(V.list (Gen.Guardrails.GUARD_CONFIG_STARTS.map V.bytes))")
    registry["BEACON_CONFIG_PATCH_SIZE"] = (G.BEACON_CONFIG_PATCH_SIZE, "const", "(V.int ((Gen.Guardrails.BEACON_CONFIG_PATCH_SIZE : Nat) : Int))")
    registry["GUARD_PATCH_SIZE"] = (G.GUARD_PATCH_SIZE, "const", "(V.int ((Gen.Guardrails.GUARD_PATCH_SIZE : Nat) : Int))")

    # cstruct enums and the structure
    enums = {}
    for name, cid in ENUM_CIDS.items():
        cls = G.GuardOption if name == "GuardOption" else G.c_guardrails.SettingsType
        if cls.__name__ != name:
            raise py2leanu.Unsupported(f"guardrails: the enum {name} is now called {cls.__name__}")
        _check_enum(py2leanu, cls)
        unit.prelude.append(py_beacon._enum_descriptor(py2leanu, cls, cid, ENUM_TABLES[name]))
        enums[name] = cls
    registry["GuardOption"] = (G.GuardOption, "enum", "GuardOption")
    S = G.GuardrailSetting
    if S.__name__ != "GuardrailSetting":
        raise py2leanu.Unsupported(f"guardrails.GuardrailSetting is now called {S.__name__}")
    unit.prelude.append(_struct_descriptor(py2leanu, G, S, enums))
    registry["GuardrailSetting"] = (S, "struct", "GuardrailSetting")

    # the dataclass
    M = G.GuardrailMetadata
    if M.__name__ != "GuardrailMetadata":
        raise py2leanu.Unsupported(f"guardrails.GuardrailMetadata is now called {M.__name__}")
    text, fields, defaults = _dataclass_descriptor(py2leanu, M, META_CID)
    unit.prelude.append(text)
    registry["GuardrailMetadata"] = (M, "dcls", ("GuardrailMetadata", fields, defaults))

    # typed translations: utils.xor, utils.u32be (Gen/PyUtils.lean), guardrails.payload_checksum (Gen/PyGuard.lean)
    tu = py2lean.Unit("Gen.PyUtils")
    for f in py_utils.FUNCS:
        tu.translate(getattr(U, f))
    for p in py_utils.PARTIALS:
        obj = getattr(U, p)
        if not isinstance(obj, functools.partial):
            raise py2leanu.Unsupported(f"utils.{p} is no longer a functools.partial")
        tu.declare_partial(p, obj)
    for name in ("xor", "u32be", "grouper"):
        if getattr(G, name, None) is not getattr(U, name):
            raise py2leanu.Unsupported(f"guardrails.{name} is not utils.{name}")
    sx = tu.sigs["xor"]
    if sx.externs or sx.ret != "Bytes" or [t for _, t, _ in sx.params] != ["Bytes", "Bytes"]:
        raise py2leanu.Unsupported(f"utils.xor: signature {sx.params} → {sx.ret} is not `bytes, bytes → bytes`")
    unit.prelude.append(f"/-- `utils.xor` (typed translation `Gen.PyUtils.{sx.name}`) on dynamic values -/\n"
                        f"def xor (data key : V) : Py V := PyU.liftXor Gen.PyUtils.{sx.name} data key\n")
    registry["xor"] = (U.xor, "func", ("xor", 2))
    sg = tu.sigs["u32be"]
    if sg.externs or sg.ret != "Int" or not sg.params or sg.params[0][1] != "Bytes" or any(d is None for _, _, d in sg.params[1:]):
        raise py2leanu.Unsupported(f"utils.u32be: signature {sg.params} → {sg.ret} is not `bytes → int` with defaults")
    args = " ".join(d for _, _, d in sg.params[1:])
    shown = ", ".join(f"{p}={d}" for p, _, d in sg.params[1:])
    unit.prelude.append(f"/-- `utils.u32be` (typed translation `Gen.PyUtils.{sg.name}`; {shown}) on a dynamic value -/\n"
                        f"def u32be (data : V) : Py V := open PyRt in PyU.liftBytesInt (fun d => Gen.PyUtils.{sg.name} d {args}) data\n")
    registry["u32be"] = (U.u32be, "func", ("u32be", 1))
    tg = py2lean.Unit("Gen.PyGuard")
    tg.translate(G.payload_checksum)
    sc = tg.sigs["payload_checksum"]
    if sc.externs or sc.ret != "Int" or [t for _, t, _ in sc.params] != ["Bytes"]:
        raise py2leanu.Unsupported(f"payload_checksum: signature {sc.params} → {sc.ret} is not `bytes → int`")
    unit.prelude.append(f"/-- `guardrails.payload_checksum` (typed translation `Gen.PyGuard.{sc.name}`) on a dynamic value -/\n"
                        f"def payload_checksum (data : V) : Py V := PyU.liftBytesNat Gen.PyGuard.{sc.name} data\n")
    registry["payload_checksum"] = (G.payload_checksum, "func", ("payload_checksum", 1))

    # utils.grouper: the run-time function `PyU.grouper` models exactly this body
    gsrc = ast.parse(textwrap.dedent(inspect.getsource(U.grouper))).body[0]
    body = [s for s in gsrc.body if not (isinstance(s, ast.Expr) and isinstance(s.value, ast.Constant) and isinstance(s.value.value, str))]
    if ("\n".join(ast.unparse(s) for s in body) != GROUPER_BODY or [a.arg for a in gsrc.args.args] != ["iterable", "n", "fillvalue"]
            or gsrc.decorator_list or getattr(U, "itertools", None) is not itertools
            or inspect.signature(U.grouper).parameters["fillvalue"].default is not None):
        raise py2leanu.Unsupported("utils.grouper is no longer `itertools.zip_longest(*[iter(iterable)] * n, fillvalue=fillvalue)`")
    registry["grouper"] = (U.grouper, "kwfunc", ("PyU.grouper", ["iterable", "n", "fillvalue"], {"fillvalue": None}, True))

    # the functions
    # (the selection loop first: inside it the other two are the EXTERNAL functions of the registry, not the translations below)
    unit.translate(G.iter_guardrail_configs_with_beacon, files=["fh"])
    unit.translate(G.find_xor_key_candidates, files=["fh"])
    unit.translate(G.iter_guardrail_configs, files=["fh"])

    names = list(ENUM_CIDS) + ["GuardrailSettingCls", "GuardrailSetting", "GuardrailMetadata", "xor", "u32be", "payload_checksum"] + unit.names
    return "PyGuardU.lean", unit.render("guardrails.py: iter_guardrail_configs, find_xor_key_candidates, iter_guardrail_configs_with_beacon (C17), "
                                        "translated by the untyped translator"), names


if __name__ == "__main__":
    sys.path.insert(0, sys.argv[1] if len(sys.argv) > 1 else "/repo")
    print(generate(Path(sys.argv[1] if len(sys.argv) > 1 else "/repo"))[1])

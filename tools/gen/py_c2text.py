"""Translator plug-in: the generator `postproc` nested in `C2Profile.as_text` (dissect/cobaltstrike/c2profile.py), translated
statement by statement from its *source* by the untyped translator (tools/py2leanu.py) → lean/CsVerif/Gen/PyC2Text.lean
(namespace `Gen.PyC2Text`, definition `as_text_postproc`: the list of the strings the generator yields, i.e. `list(postproc(items))`).

Props/C10Gen.lean proves the translated definition equal to the hand-written model `C10.postproc`, so `postproc_tokens` (C10) is a
theorem about the source text as it stands on every run.

Checked here: `as_text` contains exactly one nested function, it is called `postproc`, it has no free variables (it is a closure
over nothing), and the last statement of `as_text` hands it to `Reconstructor(c2profile_parser).reconstruct(self.tree, postproc)`
— that call itself is Lark's and stays modelled by `C10.joinItems` / `C10.printTree` (tied by the correspondence streams of C10).
"""
from __future__ import annotations

import ast
import importlib
import inspect
import sys
import textwrap
import types
from pathlib import Path


def postproc_function(M, py2leanu):
    """the nested function as a function object of its own (same code object, same globals)"""
    outer = M.C2Profile.__dict__["as_text"]
    codes = [c for c in outer.__code__.co_consts if isinstance(c, types.CodeType)]
    if len(codes) != 1 or codes[0].co_name != "postproc" or codes[0].co_freevars:
        raise py2leanu.Unsupported("C2Profile.as_text: expected exactly one nested function `postproc` without free variables")
    fd = ast.parse(textwrap.dedent(inspect.getsource(outer))).body[0]
    last = fd.body[-1]
    want = "return Reconstructor(c2profile_parser).reconstruct(self.tree, postproc)"
    body = [st for st in fd.body if not (isinstance(st, ast.Expr) and isinstance(st.value, ast.Constant))]
    if (len(body) != 2 or not isinstance(body[0], ast.FunctionDef) or body[0].name != "postproc" or ast.unparse(last) != want
            or [a.arg for a in fd.args.args] != ["self"]):
        raise py2leanu.Unsupported("C2Profile.as_text is not `def postproc(items): …` followed by `" + want + "`")
    return types.FunctionType(codes[0], outer.__globals__, "postproc")


def generate(repo: Path):
    tools = str(Path(__file__).resolve().parent.parent)
    if tools not in sys.path:
        sys.path.insert(0, tools)
    import py2leanu
    M = importlib.import_module("dissect.cobaltstrike.c2profile")
    unit = py2leanu.Unit("Gen.PyC2Text", ["CsVerif.Model.PyU_T12", "CsVerif.Model.PyU_T15"], {})
    unit.translate(postproc_function(M, py2leanu), lean_name="as_text_postproc")
    return "PyC2Text.lean", unit.render("c2profile.py: the generator `postproc` of C2Profile.as_text (C10), translated by the untyped translator"), list(unit.names)


if __name__ == "__main__":
    sys.path.insert(0, sys.argv[1] if len(sys.argv) > 1 else "/repo")
    print(generate(Path(sys.argv[1] if len(sys.argv) > 1 else "/repo"))[1])

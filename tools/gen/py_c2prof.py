"""Translator plug-in: `value_to_string`, `string_token_to_bytes` and the class `StringIterator` (`__init__`, `has_next`, `next`,
`__iter__`, `__next__`) of dissect/cobaltstrike/c2profile.py, translated statement by statement from their *source* by the
untyped translator (tools/py2leanu.py) → lean/CsVerif/Gen/PyC2Prof.lean (namespace `Gen.PyC2Prof`).

Props/C12Gen.lean proves each translated definition equal to the hand-written model of C12 (`valueToString`,
`valueToStringStr`, `stringTokenToBytesCP`), so the theorems of that property are theorems about the source text as it stands
on every run.

Besides the functions, the file contains
  * `Token`: the class descriptor of `lark.Token` as far as `string_token_to_bytes` looks at it — an object with the attributes
    `type` and `value` (checked here: `Token("T", "v").type / .value` are the constructor arguments).  A `Token` is also a `str`
    (its value); that side of it is not modelled: a `V.inst Token […]` is not a `str` for `isinstance`;
  * `StringIteratorCls`: the descriptor of `StringIterator` (attributes in the order `__init__` assigns them; checked: the class
    defines nothing but the five translated methods, no `__slots__`, no base class, no `__getattr__` / `__setattr__`);
  * `intTables`: the Unicode tables `int(str, base)` depends on (generated: Gen/C16Unicode.lean).
"""
from __future__ import annotations

import importlib
import sys
from pathlib import Path

METHODS = ["has_next", "next", "__iter__", "__next__"]


def generate(repo: Path):
    tools = str(Path(__file__).resolve().parent.parent)
    if tools not in sys.path:
        sys.path.insert(0, tools)
    import py2leanu
    import lark
    M = importlib.import_module("dissect.cobaltstrike.c2profile")

    # lark.Token as an object with the attributes `type` and `value`
    tok = M.Token("T", "v")
    if M.Token is not lark.Token or (tok.type, tok.value) != ("T", "v") or not isinstance(tok, str):
        raise py2leanu.Unsupported("c2profile.Token is not lark.Token(type, value)")

    # StringIterator: a plain class with exactly the translated methods
    SI = M.StringIterator
    own = sorted(k for k in SI.__dict__ if k not in ("__module__", "__doc__", "__dict__", "__weakref__", "__annotations__",
                                                     "__firstlineno__", "__static_attributes__"))
    if SI.__bases__ != (object,) or type(SI) is not type or own != sorted(METHODS + ["__init__"]):
        raise py2leanu.Unsupported(f"StringIterator is not a plain class with the methods {METHODS + ['__init__']}: {own}")

    registry = {
        "Token": (M.Token, "cls", "Token"),
        "StringIterator": (SI, "obj", "StringIteratorCls"),
    }
    unit = py2leanu.Unit("Gen.PyC2Prof", ["CsVerif.Model.PyU_T12", "CsVerif.Gen.C16Unicode"], registry)
    unit.int_tables = "intTables"
    unit.prelude.append("/-- the Unicode tables of the running interpreter that `int(str, base)` depends on -/\n"
                        "def intTables : PyU.IntTables := { spaces := C16.Gen.unicodeSpaces, zeros := C16.Gen.decimalZeros }\n")
    unit.prelude.append("/-- `lark.Token` as an object with the attributes `type` and `value` (its `str` side is not modelled) -/\n"
                        "def Token : PyU.Cls := { cid := 0, fields := [\"type\", \"value\"], isTuple := false, bases := [] }\n")
    names = ["intTables", "Token", "StringIteratorCls"]

    unit.translate(M.value_to_string)
    # the constructor first (it fixes the order of the attributes), then the methods, then the function that uses the class
    unit.translate(SI.__dict__["__init__"], lean_name="StringIterator", init_of=(SI, "StringIteratorCls"))
    fields = ", ".join(py2leanu.lean_string(f) for f in unit.init_fields)
    unit.prelude.append(f"/-- `{SI.__module__}.StringIterator`: attributes in the order `__init__` assigns them -/\n"
                        f"def StringIteratorCls : PyU.Cls := {{ cid := 1, fields := [{fields}], isTuple := false, bases := [] }}\n")
    for m in METHODS:
        unit.translate(SI.__dict__[m], lean_name=f"StringIterator_{m}", method_of="StringIterator")
    unit.translate(M.string_token_to_bytes)
    names += unit.names
    return "PyC2Prof.lean", unit.render("c2profile.py: value_to_string, string_token_to_bytes, StringIterator (C12), translated by the untyped translator"), names


if __name__ == "__main__":
    sys.path.insert(0, sys.argv[1] if len(sys.argv) > 1 else "/repo")
    print(generate(Path(sys.argv[1] if len(sys.argv) > 1 else "/repo"))[1])

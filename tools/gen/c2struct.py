"""Translator plug-in: `struct BeaconMetadata` of dissect/cobaltstrike/c_c2.py  →  lean/CsVerif/Gen/C2Struct.lean

Everything is obtained by introspecting the *imported* package (`c2struct.BeaconMetadata.fields`, the cstruct
type objects, `c2struct.endian`, `BeaconKeys.DEFAULT_AES_IV`), never by parsing source text.  Used by C06.
Namespace `Gen.C2Struct`.

Tables (names are an interface – keep them stable):
  Kind                       uint | chars | dynChars
  Field                      structure (name : String) (kind : Kind) (width : Nat)   (width = 0 for dynChars)
  beaconMetadataFields       List Field     fields of `struct BeaconMetadata` in declaration order
  beaconMetadataOffsets      List Nat       cstruct's own offset of every field (same order)
  bigEndian                  Bool           c2struct.endian == ">"
  infoLenField, infoLenSub   the dynamic length expression of the last field: `char info[<infoLenField> - <infoLenSub>]`
  defaultAesIv               List UInt8     BeaconKeys.DEFAULT_AES_IV

The 0xBEEF magic is *code* in c2.py (decrypt_metadata) and therefore lives in the hand-written model.
A construct this plug-in does not understand (a field type other than unsigned big-endian integers and char
arrays, bit fields, alignment, a length expression of another shape) raises, which check.py reports as a broken
proof obligation.
"""
from __future__ import annotations

import importlib
import re
import sys
from pathlib import Path


def _lean_str(s: str) -> str:
    if not re.fullmatch(r"[A-Za-z_][A-Za-z0-9_]*", s):
        raise ValueError(f"unexpected field name {s!r}")
    return '"' + s + '"'


def _load(repo: Path):
    if str(repo) not in sys.path:
        sys.path.insert(0, str(repo))
    c_c2 = importlib.import_module("dissect.cobaltstrike.c_c2")
    c2 = importlib.import_module("dissect.cobaltstrike.c2")
    return c_c2, c2


def describe(repo: Path):
    """Return (fields, offsets, big_endian, (len_field, len_sub), iv) — also used by the C06 harness."""
    c_c2, c2 = _load(repo)
    from dissect.cstruct.expression import Expression
    from dissect.cstruct.types.char import Char, CharArray
    from dissect.cstruct.types.packed import Packed

    cs = c_c2.c2struct
    st = cs.BeaconMetadata
    if st is not c_c2.BeaconMetadata:
        raise ValueError("c_c2.BeaconMetadata is not c2struct.BeaconMetadata")
    if getattr(st, "__align__", False):
        raise ValueError("aligned structures are not understood")
    if cs.endian not in (">", "<"):
        raise ValueError(f"endianness {cs.endian!r} not understood")
    names = list(st.fields)
    if [f._name for f in st.__fields__] != names:
        raise ValueError("field dict and field list disagree")
    fields, offsets = [], []
    expr = None
    for i, name in enumerate(names):
        f = st.fields[name]
        t = cs.resolve(f.type)
        if f.bits:
            raise ValueError(f"bit field {name} not understood")
        if isinstance(t, type) and issubclass(t, Packed) and issubclass(t, int):
            # struct-module packed integers: out-of-range values raise struct.error on dumps
            if t.packchar not in ("B", "H", "I", "Q") or t.size != {"B": 1, "H": 2, "I": 4, "Q": 8}[t.packchar]:
                raise ValueError(f"field {name}: only unsigned packed integers are understood, got packchar {t.packchar!r}")
            kind, width = "uint", int(t.size)
        elif isinstance(t, type) and issubclass(t, CharArray) and t.type is not None and issubclass(t.type, Char):
            if t.null_terminated:
                raise ValueError(f"null-terminated field {name} not understood")
            if isinstance(t.num_entries, int):
                kind, width = "chars", int(t.num_entries)
            elif isinstance(t.num_entries, Expression):
                if i != len(names) - 1:
                    raise ValueError(f"dynamic field {name} is not the last field")
                m = re.fullmatch(r"\s*([A-Za-z_]\w*)\s*-\s*(\d+)\s*", t.num_entries.expression)
                if not m or m.group(1) not in names[:i]:
                    raise ValueError(f"length expression {t.num_entries.expression!r} of {name} not understood")
                ref = cs.resolve(st.fields[m.group(1)].type)
                if not (isinstance(ref, type) and issubclass(ref, Packed) and issubclass(ref, int)):
                    raise ValueError("length expression refers to a non-integer field")
                expr = (m.group(1), int(m.group(2)))
                kind, width = "dynChars", 0
            else:
                raise ValueError(f"array length of {name} not understood")
        else:
            raise ValueError(f"type {t!r} of field {name} not understood")
        if f.offset is None:
            raise ValueError(f"field {name} has no static offset")
        fields.append((name, kind, width))
        offsets.append(int(f.offset))
    if expr is None:
        raise ValueError("BeaconMetadata has no dynamic last field")
    iv = bytes(c2.BeaconKeys.DEFAULT_AES_IV)
    return fields, offsets, cs.endian == ">", expr, iv


def generate(repo: Path):
    fields, offsets, big, (len_field, len_sub), iv = describe(repo)
    rows = ",\n".join(f"  ⟨{_lean_str(n)}, .{k}, {w}⟩" for n, k, w in fields)
    text = f"""namespace Gen.C2Struct

inductive Kind | uint | chars | dynChars
  deriving DecidableEq, Repr

structure Field where
  name : String
  kind : Kind
  width : Nat
  deriving DecidableEq, Repr

/-- `struct BeaconMetadata` (c_c2.py), declaration order; width in bytes, 0 for the dynamic last field -/
def beaconMetadataFields : List Field := [
{rows}]

/-- the static offset cstruct computed for every field -/
def beaconMetadataOffsets : List Nat := [{", ".join(map(str, offsets))}]

/-- `c2struct = cstruct(endian=">")` -/
def bigEndian : Bool := {"true" if big else "false"}

/-- last field: `char info[{len_field} - {len_sub}]` -/
def infoLenField : String := {_lean_str(len_field)}
def infoLenSub : Nat := {len_sub}

/-- `BeaconKeys.DEFAULT_AES_IV` -/
def defaultAesIv : List UInt8 := [{", ".join(str(b) for b in iv)}]

end Gen.C2Struct
"""
    return "C2Struct.lean", text, ["beaconMetadataFields", "beaconMetadataOffsets", "bigEndian", "infoLen", "defaultAesIv"]

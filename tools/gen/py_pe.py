"""Translator plug-in: the PE helpers of dissect/cobaltstrike/pe.py (property C18; entry points of C08) — `find_mz_offset`,
`find_architecture`, `find_compile_stamps`, `find_magic_mz`, `find_magic_pe`, `find_stage_prepend_append` — and the version
deduction (`BeaconVersion.from_pe_export_stamp` / `from_max_setting_enum` of version.py, `BeaconConfig.version` of beacon.py),
translated statement by statement from their *source* by the untyped translator (tools/py2leanu.py)
→ lean/CsVerif/Gen/PyPe.lean (namespace `Gen.PyPe`).

Props/C18Gen.lean proves each translated definition equal to the hand-written model of C18 (`C18.findMzOffset`, …,
`C18.configVersion`) for every file object, every `start_offset` (incl. `None`) and every `maxrange`, so the C18 / C08 theorems are
theorems about the source text as it stands on every run.

The six helpers take a FILE PARAMETER `fh` (value `PyU.mkFile data pos kind` of Model/PyU_T15.lean): every definition answers the
tuple `(result, file afterwards)`.  Besides the functions, the file contains
  * one `PyU.T18Ty` descriptor per cstruct type the functions read from the file (`pestruct.IMAGE_DOS_HEADER(fh)`, …,
    `pestruct.uint32(fh)`): size and — for every field whose name is read as an attribute ANYWHERE in the translated functions —
    offset, width, signedness (little endian), by introspection of the loaded cstruct class; arrays of structures
    (`DataDirectory`) as lists.  Every assumption of `PyU.t18Read` is probed here against the real class (values, position,
    EOFError and the position it leaves at every truncation point); the `pyu` stream of C18 repeats that on random inputs
    against the Lean side;
  * the constants `pestruct.IMAGE_FILE_MACHINE_*`, `pestruct.IMAGE_DIRECTORY_ENTRY_EXPORT`, `DOSHEADER_X86/X64`, `io.SEEK_SET`
    as literals; `logger.debug` is a call without effect;
  * `peExportStampTable` / `maxEnumTable`: the two version dicts as Python values built from the GENERATED tables of
    `Gen/Version.lean`; the constructor `BeaconVersion(text)` (regex + strptime) is the external function `beaconVersion`,
    `self.max_setting_enum` (translated and proved in C02's unit) the external function `maxSettingEnum`.
"""
from __future__ import annotations

import ast
import importlib
import inspect
import io
import random
import sys
import textwrap
from pathlib import Path

PE_FUNCS = ["find_mz_offset", "find_architecture", "find_compile_stamps", "find_magic_mz", "find_magic_pe", "find_stage_prepend_append"]
CID0 = 1800


def _int_type(t) -> bool:
    return (isinstance(t, type) and issubclass(t, int) and isinstance(getattr(t, "size", None), int) and 1 <= t.size <= 8
            and not hasattr(t, "__members__") and _signed(t) is not None)


def _signed(t):
    """signedness of a cstruct integer type, MEASURED on an all-0xFF buffer (None: neither interpretation)"""
    try:
        v = int(t(bytes([0xFF]) * t.size))
    except Exception:  # noqa: BLE001
        return None
    return True if v == -1 else (False if v == (1 << (8 * t.size)) - 1 else None)


def _is_struct(t) -> bool:
    return isinstance(t, type) and hasattr(t, "fields") and hasattr(t, "__fields__") and isinstance(getattr(t, "size", None), int)


class _Types:
    """descriptors of the cstruct types, with a Python mirror of `PyU.t18Value` for the probes"""

    def __init__(self, py2leanu, cs, attrs):
        self.U = py2leanu
        self.cs = cs
        self.attrs = attrs
        self.cids = {}
        self.defs = []
        self.names = []
        self.layouts = {}

    def cid(self, name):
        return self.cids.setdefault(name, CID0 + 1 + len(self.cids))

    def int_fields(self, S, what):
        """the exposed fields of a structure all of whose exposed fields are integers: [(name, off, size, signed)]"""
        out = []
        for name, f in S.fields.items():
            if name not in self.attrs:
                continue
            if not _int_type(f.type) or not isinstance(f.offset, int):
                raise self.U.Unsupported(f"{what}.{name}: field type {f.type!r} is outside the modelled kinds")
            out.append((name, f.offset, f.type.size, _signed(f.type)))
        return out

    def struct(self, S, lean_name):
        U = self.U
        if not _is_struct(S) or getattr(S, "dynamic", False) or S.cs is not self.cs or hasattr(S, "_source") is None:
            raise U.Unsupported(f"{lean_name} is not a fixed-size structure of pe.pestruct")
        if [n for n, _ in S.fields.items()] != [f.name for f in S.__fields__] or any(f.bits for f in S.__fields__):
            raise U.Unsupported(f"{lean_name}: anonymous / bit fields")
        flds, layout = [], []
        for name, f in S.fields.items():
            if name not in self.attrs:
                continue
            t = f.type
            if not isinstance(f.offset, int):
                raise U.Unsupported(f"{lean_name}.{name}: dynamic offset")
            if _int_type(t):
                flds.append(f".int ⟨{f.offset}, {t.size}, {'true' if _signed(t) else 'false'}⟩")
                layout.append((name, "int", f.offset, t.size, _signed(t)))
            elif (isinstance(t, type) and issubclass(t, list) and isinstance(getattr(t, "num_entries", None), int) and _is_struct(getattr(t, "type", None))
                  and not getattr(t.type, "dynamic", False)):
                sub = self.int_fields(t.type, f"{lean_name}.{name}[i]")
                sub_cls = f"{t.type.__name__}_cls"
                if sub_cls not in self.names:
                    fields = ", ".join(U.lean_string(n) for n, *_ in sub)
                    self.defs.append(f"/-- instances of `struct {t.type.__name__}` (items of an array field): the attributes the translated code reads -/\n"
                                     f"def {sub_cls} : PyU.Cls := {{ cid := {self.cid(t.type.__name__)}, fields := [{fields}], isTuple := false, bases := [] }}\n")
                    self.names.append(sub_cls)
                subs = ", ".join(f"⟨{o}, {s}, {'true' if sg else 'false'}⟩" for _, o, s, sg in sub)
                flds.append(f".arr {f.offset} {t.num_entries} {t.type.size} {sub_cls} [{subs}]")
                layout.append((name, "arr", f.offset, t.num_entries, t.type.size, sub))
            else:
                raise U.Unsupported(f"{lean_name}.{name}: field type {t!r} is outside the modelled kinds (integers, arrays of structures of integers)")
        fields = ", ".join(U.lean_string(n) for n, *_ in layout)
        self.defs.append(f"/-- instances of `struct {S.__name__}`: the attributes the translated code reads (of {len(S.fields)} fields) -/\n"
                         f"def {lean_name}_cls : PyU.Cls := {{ cid := {self.cid(S.__name__)}, fields := [{fields}], isTuple := false, bases := [] }}\n\n"
                         f"/-- `pestruct.{lean_name}`: {S.size} bytes, little endian -/\n"
                         f"def {lean_name} : PyU.T18Ty := .struct {lean_name}_cls {S.size} [{', '.join(flds)}]\n")
        self.names += [f"{lean_name}_cls", lean_name]
        self.layouts[lean_name] = (S, S.size, layout)
        self.probe(lean_name)
        return lean_name

    def integer(self, T, lean_name):
        if not _int_type(T) or T.cs is not self.cs:
            raise self.U.Unsupported(f"{lean_name} is not an integer type of pe.pestruct")
        self.layouts[lean_name] = (T, T.size, _signed(T))
        self.probe(lean_name)
        return f"(PyU.T18Ty.int {T.size} {'true' if _signed(T) else 'false'})"

    # -- the Python mirror of PyU.t18IntVal / t18Value, and the probes --
    @staticmethod
    def ival(buf, off, size, signed):
        raw = int.from_bytes(buf[off:off + size], "little")
        return raw - (1 << (8 * size)) if signed and 2 * raw >= (1 << (8 * size)) else raw

    def value(self, lean_name, buf):
        T, size, layout = self.layouts[lean_name]
        if isinstance(layout, bool):
            return self.ival(buf, 0, size, layout)
        out = {}
        for f in layout:
            if f[1] == "int":
                out[f[0]] = self.ival(buf, f[2], f[3], f[4])
            else:
                _, _, off, count, stride, sub = f
                out[f[0]] = [{n: self.ival(buf, off + i * stride + o, s, sg) for n, o, s, sg in sub} for i in range(count)]
        return out

    @staticmethod
    def seen(obj, model):
        """the real object, reduced to the shape of the model value"""
        if isinstance(model, dict):
            return {k: _Types.seen(getattr(obj, k), v) for k, v in model.items()}
        if isinstance(model, list):
            if not isinstance(obj, list) or len(obj) != len(model):
                return ("not a list of the modelled length", type(obj).__name__)
            return [_Types.seen(o, m) for o, m in zip(obj, model)]
        return int(obj) if isinstance(obj, int) and not isinstance(obj, bool) else ("not an int", type(obj).__name__)

    def probe(self, lean_name):
        U = self.U
        T, size, _ = self.layouts[lean_name]
        rng = random.Random(18)
        fills = [bytes([0xFF]) * size, bytes(size), bytes([0x80]) * size, bytes(range(1, size + 1)), bytes(rng.randrange(256) for _ in range(size)),
                 bytes(rng.choice([0, 0x7F, 0x80, 0xFF]) for _ in range(size))]
        for buf in fills:
            for lead, tail in ((0, b""), (3, b"XYZ")):
                fh = io.BytesIO(b"p" * lead + buf + tail)
                fh.seek(lead)
                obj = T(fh)
                want = self.value(lean_name, buf)
                if self.seen(obj, want) != want or fh.tell() != lead + size:
                    raise U.Unsupported(f"{lean_name}(fh) on a probe: {self.seen(obj, want)!r} at {fh.tell()}, modelled {want!r} at {lead + size}")
        buf = fills[3]
        for cut in range(size):
            for start in (0, 2):
                fh = io.BytesIO(b"pp"[:start] + buf[:cut])
                fh.seek(start)
                try:
                    T(fh)
                    raise U.Unsupported(f"{lean_name}(fh) on {cut} of {size} bytes does not raise")
                except EOFError:
                    pass
                if fh.tell() != start + cut:
                    raise U.Unsupported(f"{lean_name}(fh) on {cut} of {size} bytes leaves the position {fh.tell()}, modelled {start + cut}")
        fh = io.BytesIO(buf)
        fh.seek(size + 5)            # beyond the end: nothing is read, the position stays
        try:
            T(fh)
            raise U.Unsupported(f"{lean_name}(fh) beyond the end does not raise")
        except EOFError:
            if fh.tell() != size + 5:
                raise U.Unsupported(f"{lean_name}(fh) beyond the end moves the position") from None


def _attrs_read(funcs) -> set:
    out = set()
    for fn in funcs:
        tree = ast.parse(textwrap.dedent(inspect.getsource(fn)))
        out |= {n.attr for n in ast.walk(tree) if isinstance(n, ast.Attribute) and isinstance(n.ctx, ast.Load)}
    return out


def _types_called(funcs, cs_name) -> list:
    """the names `X` of `pestruct.X(…)` calls, in order of first occurrence"""
    out = []
    for fn in funcs:
        tree = ast.parse(textwrap.dedent(inspect.getsource(fn)))
        for n in ast.walk(tree):
            if (isinstance(n, ast.Call) and isinstance(n.func, ast.Attribute) and isinstance(n.func.value, ast.Name) and n.func.value.id == cs_name
                    and n.func.attr not in out):
                out.append(n.func.attr)
    return out


def _version_part(U, unit, registry):
    """`BeaconVersion.from_pe_export_stamp` / `from_max_setting_enum` (classmethods of version.py) and the property getter
    `BeaconConfig.version` (beacon.py)"""
    import builtins
    VM = importlib.import_module("dissect.cobaltstrike.version")
    B = importlib.import_module("dissect.cobaltstrike.beacon")
    BV = VM.BeaconVersion
    if BV.__name__ != "BeaconVersion" or getattr(B, "BeaconVersion", None) is not BV:
        raise U.Unsupported("version.BeaconVersion / beacon.BeaconVersion are not the same class called BeaconVersion")
    for tname, lean in (("PE_EXPORT_STAMP_TO_VERSION", "peExportStampEntries"), ("MAX_ENUM_TO_VERSION", "maxEnumEntries")):
        tbl = getattr(VM, tname)
        if type(tbl) is not dict or any(type(k) is not int or k < 0 or type(v) is not str for k, v in tbl.items()):
            raise U.Unsupported(f"version.{tname} is not a dict from non-negative ints to str")
        registry[tname] = (tbl, "const", f"(versionDict Gen.Version.{lean})")
    unit.imports.append("CsVerif.Gen.Version")
    unit.prelude.append(
        "/-- a version dict of version.py as a Python value: keys and texts of the GENERATED table (`Gen/Version.lean`, tools/gen/version.py), in dict order -/\n"
        "def versionDict (es : List Gen.Version.Entry) : V := V.dict (es.map fun e => V.int (e.key : Int)) (es.map fun e => V.str e.text)\n")
    # `BeaconVersion(text)` (regex + strptime) stays an external function
    registry["BeaconVersion"] = (BV, "extern", ("beaconVersion", 1, []))
    unit.t18_classmethods = True
    for name in ("from_pe_export_stamp", "from_max_setting_enum"):
        cm = BV.__dict__.get(name)
        if not isinstance(cm, classmethod) or not inspect.isfunction(cm.__func__) or cm.__func__.__globals__ is not vars(VM):
            raise U.Unsupported(f"BeaconVersion.{name} is not a classmethod defined in version.py")
        unit.translate(cm.__func__)
        # the call `BeaconVersion.<name>(x)`: `cls` is the class object, which the translated body never looks at (it is passed as `None`)
        registry[f"BeaconVersion.{name}"] = (getattr(BV, name), "t18cm", (name, "V.none"))
    # BeaconConfig.version; `self.max_setting_enum` (translated and proved in C02's unit) is the external function `maxSettingEnum`
    cls = B.BeaconConfig
    prop = cls.__dict__.get("version")
    if not isinstance(prop, builtins.property) or prop.fset is not None or prop.fdel is not None or not inspect.isfunction(prop.fget):
        raise U.Unsupported("BeaconConfig.version is not a read-only property")
    mse = cls.__dict__.get("max_setting_enum")
    if not isinstance(mse, builtins.property) or "pe_export_stamp" in cls.__dict__ or any(
            m in cls.__dict__ for m in ("__getattr__", "__getattribute__", "__setattr__", "__slots__")):
        raise U.Unsupported("BeaconConfig.max_setting_enum is not a property / pe_export_stamp is not a plain instance attribute")
    registry["%t18prop:max_setting_enum"] = (None, "extern", ("maxSettingEnum", 1, []))
    unit.t18_extern_props = {"max_setting_enum": "maxSettingEnum"}
    unit.t02_property_getters = True
    unit.translate(prop.fget, lean_name="config_version")


def generate(repo: Path):
    tools = str(Path(__file__).resolve().parent.parent)
    if tools not in sys.path:
        sys.path.insert(0, tools)
    import py2leanu
    PE = importlib.import_module("dissect.cobaltstrike.pe")
    U = py2leanu

    funcs = []
    for name in PE_FUNCS:
        fn = getattr(PE, name, None)
        if not inspect.isfunction(fn) or fn.__name__ != name or fn.__globals__ is not vars(PE):
            raise U.Unsupported(f"pe.{name} is not a plain function of the module")
        funcs.append(fn)
    ps = PE.pestruct
    if getattr(PE, "io", None) is not io or not (isinstance(io.SEEK_SET, int) and io.SEEK_SET == 0):
        raise U.Unsupported("pe.io is not the module io / io.SEEK_SET is not 0")
    if ps.endian != "<":
        raise U.Unsupported(f"pestruct endianness is {ps.endian!r}")
    registry = {"io.SEEK_SET": (io.SEEK_SET, "const", "(V.int 0)"),
                "logger.debug": (PE.logger.debug, "noop", None)}
    if type(PE.logger).__name__ != "Logger" or type(PE.logger).__module__ != "logging":
        raise U.Unsupported("pe.logger is not a logging.Logger")
    for cname in ("IMAGE_FILE_MACHINE_AMD64", "IMAGE_FILE_MACHINE_I386", "IMAGE_DIRECTORY_ENTRY_EXPORT"):
        v = getattr(ps, cname)
        if type(v) is not int:
            raise U.Unsupported(f"pestruct.{cname} is not an int constant")
        registry[f"pestruct.{cname}"] = (v, "const", U.const_term(v))
    for cname in ("DOSHEADER_X86", "DOSHEADER_X64"):
        v = getattr(PE, cname)
        if type(v) is not bytes:
            raise U.Unsupported(f"pe.{cname} is not bytes")
        registry[cname] = (v, "const", U.const_term(v))

    unit = U.Unit("Gen.PyPe", ["CsVerif.Model.PyU_T15", "CsVerif.Model.PyU_T02", "CsVerif.Model.PyU_T18"], registry)
    unit.t18 = True

    # the cstruct types that are called
    attrs = _attrs_read(funcs)
    types = _Types(U, ps, attrs)
    for tname in _types_called(funcs, "pestruct"):
        T = getattr(ps, tname, None)
        if _is_struct(T):
            term = types.struct(T, tname)
        elif _int_type(T):
            term = types.integer(T, tname)
        else:
            raise U.Unsupported(f"pestruct.{tname}(…): not a structure / integer type")
        registry[f"pestruct.{tname}"] = (T, "t18type", term)
    unit.prelude += types.defs

    for fn in funcs:
        sg = unit.translate(fn, files=["fh"])
        sg.t18_obj = fn
        for pname, d in sg.params:
            if d is not None:
                unit.defs.append(f"/-- the default of the parameter `{pname}` of `{fn.__name__}`, as the source has it -/\n"
                                 f"def {sg.name}_dflt_{pname} : V := {d}\n")
                unit.names.append(f"{sg.name}_dflt_{pname}")
    _version_part(U, unit, registry)
    rows = ", ".join(f"({U.lean_string(k.split('.', 1)[1])}, {term})" for k, (_, kind, term) in registry.items() if kind == "t18type")
    unit.defs.append(f"/-- the cstruct types the translated functions read from a file, by name (driver: `pyu` stream) -/\n"
                     f"def typeTable : List (String × PyU.T18Ty) := [{rows}]\n")
    names = types.names + unit.names + ["typeTable"]
    return "PyPe.lean", unit.render("pe.py: the PE helpers (C18 / C08), translated by the untyped translator"), names


if __name__ == "__main__":
    sys.path.insert(0, sys.argv[1] if len(sys.argv) > 1 else "/repo")
    print(generate(Path(sys.argv[1] if len(sys.argv) > 1 else "/repo"))[1])

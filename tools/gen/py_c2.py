"""Translator plug-in: the packet-crypto helpers of dissect/cobaltstrike/c2.py, translated from their *source*
(tools/py2lean.py) → lean/CsVerif/Gen/PyC2.lean (namespace `Gen.PyC2`).

AES-CBC, HMAC-SHA256 and SHA-256 are parameters of the translated definitions (`aesCbcEnc`, `aesCbcDec`, `hmacSha256`,
`sha256`), exactly as they are parameters (`Crypto`) of the hand-written model of C05/C06.  Props/C05Gen.lean proves the
translated definitions equal to that model for all arguments and all primitives.
"""
from __future__ import annotations

import importlib
import sys
from pathlib import Path

AES3 = "Bytes → Bytes → Bytes → Py Bytes"
EXTERNS = {
    "AES.new(_, AES.MODE_CBC, iv=_)": ("AesObj.mk", False, []),
    "_.encrypt(_)": ("aesApply aesCbcEnc", True, [("aesCbcEnc", AES3)]),
    "_.decrypt(_)": ("aesApply aesCbcDec", True, [("aesCbcDec", AES3)]),
    "hmac.new(_, _, 'sha256').digest()": ("hmacSha256", False, [("hmacSha256", "Bytes → Bytes → Bytes")]),
    "hashlib.sha256(_).digest()": ("sha256", False, [("sha256", "Bytes → Bytes")]),
}


def generate(repo: Path):
    tools = str(Path(__file__).resolve().parent.parent)
    if tools not in sys.path:
        sys.path.insert(0, tools)
    import py2lean
    from gen import py_utils
    C2 = importlib.import_module("dissect.cobaltstrike.c2")
    U = importlib.import_module("dissect.cobaltstrike.utils")
    # the utils unit (for p32be)
    uu = py2lean.Unit("Gen.PyUtils")
    for f in py_utils.FUNCS:
        uu.translate(getattr(U, f))
    for p in py_utils.PARTIALS:
        uu.declare_partial(p, getattr(U, p))
    if C2.p32be is not U.p32be:
        raise py2lean.Unsupported("c2.p32be is not utils.p32be")
    unit = py2lean.Unit("Gen.PyC2", externs=EXTERNS)
    unit.use(uu, "CsVerif.Gen.PyUtils")
    unit.declare_record(C2.EncryptedPacket)
    names = ["EncryptedPacket"]
    unit.translate(C2.EncryptedPacket.dumps, "EncryptedPacket_dumps", self_type="EncryptedPacket", ret="Bytes")
    unit.translate(C2.EncryptedPacket.raise_for_signature, "EncryptedPacket_raise_for_signature", self_type="EncryptedPacket")
    names += ["EncryptedPacket.dumps", "EncryptedPacket.raise_for_signature"]
    for f in ["derive_aes_hmac_keys", "pad", "encrypt_data", "decrypt_data", "decrypt_packet", "encrypt_packet"]:
        unit.translate(getattr(C2, f))
        names.append(f)
    return "PyC2.lean", unit.render("c2.py: EncryptedPacket, derive_aes_hmac_keys, pad, encrypt_data, decrypt_data, decrypt_packet, encrypt_packet"), names

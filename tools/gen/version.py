"""Translator plug-in: dissect/cobaltstrike/version.py  →  lean/CsVerif/Gen/Version.lean   (namespace `Gen.Version`)

Obtained by introspecting the *imported* module (never by parsing source text):

  maxEnumToVersion        List (Nat × String)   MAX_ENUM_TO_VERSION in dict insertion order
  peExportStampToVersion  List (Nat × String)   PE_EXPORT_STAMP_TO_VERSION in dict insertion order
  maxEnumEntries / peExportStampEntries : List Entry
        for every table entry: key, the text as Unicode code points, and what the REAL `BeaconVersion(text)`
        computes: `.tuple` (as a list) and `.date` as (year, month, day)  (`none` when the attribute is None)
  unknownText             the default of `dict.get(key, "Unknown")` as observed through
                          `BeaconVersion.from_max_setting_enum(<absent key>)`
  regexVersion            BeaconVersion.REGEX_VERSION (code points) – the model's parser is written for exactly this text
  monthAbbr               the 12 month abbreviations `_strptime` uses for `%b` in the current (C) locale, lower-cased
  decimalZeros            code point of the zero of every run of Unicode decimal digits (`\\d` / `int()`; measured, runs checked)
  whitespace              every code point matched by `\\s` of a str pattern (measured)

A table with a non-int/negative key, a non-str value, or a BeaconVersion whose attributes have an unexpected type raises
(→ proof-obligation-broken), nothing is skipped.
"""
from __future__ import annotations

import datetime
import importlib
import sys
from pathlib import Path


def _lean_str(s: str) -> str:
    out = ['"']
    for ch in s:
        if ch == '"':
            out.append('\\"')
        elif ch == "\\":
            out.append("\\\\")
        elif 32 <= ord(ch) < 127:
            out.append(ch)
        else:
            out.append("\\u{%x}" % ord(ch))
    out.append('"')
    return "".join(out)


def _txt(s: str) -> str:
    return "[" + ", ".join(str(ord(c)) for c in s) + "]"


def _fresh(repo: Path, name: str):
    if str(repo) not in sys.path:
        sys.path.insert(0, str(repo))
    return importlib.import_module(name)


def _entry(version_mod, key, text):
    if not isinstance(key, int) or isinstance(key, bool) or key < 0:
        raise ValueError(f"table key {key!r} is not a non-negative int")
    if not isinstance(text, str):
        raise ValueError(f"table value {text!r} for key {key!r} is not a str")
    bv = version_mod.BeaconVersion(text)  # may raise: a malformed date string is a broken obligation
    tup = bv.tuple
    if tup is None:
        ltup = "none"
    else:
        if not isinstance(tup, tuple) or not all(isinstance(x, int) and x >= 0 for x in tup):
            raise ValueError(f"BeaconVersion({text!r}).tuple = {tup!r}")
        ltup = "(some [" + ", ".join(str(x) for x in tup) + "])"
    d = bv.date
    if d is None:
        ldate = "none"
    else:
        if not isinstance(d, datetime.date) or isinstance(d, datetime.datetime):
            raise ValueError(f"BeaconVersion({text!r}).date = {d!r}")
        ldate = f"(some ({d.year}, {d.month}, {d.day}))"
    return f"  ⟨{key}, {_txt(text)}, {ltup}, {ldate}⟩"


def generate(repo: Path):
    v = _fresh(repo, "dissect.cobaltstrike.version")
    out = ["import CsVerif.Model.Basic", "", "namespace Gen.Version", ""]
    out.append("/-- a table entry together with what the real `BeaconVersion(text)` computes -/")
    out.append("structure Entry where")
    out.append("  key : Nat")
    out.append("  text : List Nat")
    out.append("  tuple : Option (List Nat)")
    out.append("  date : Option (Nat × Nat × Nat)")
    out.append("  deriving DecidableEq, Repr")
    out.append("")
    tables = []
    for pyname, lname, ename in (
        ("MAX_ENUM_TO_VERSION", "maxEnumToVersion", "maxEnumEntries"),
        ("PE_EXPORT_STAMP_TO_VERSION", "peExportStampToVersion", "peExportStampEntries"),
    ):
        d = getattr(v, pyname)
        if not isinstance(d, dict) or not d:
            raise ValueError(f"{pyname} is not a non-empty dict")
        items = list(d.items())
        entries = [_entry(v, k, t) for k, t in items]
        out.append(f"def {lname} : List (Nat × String) := [")
        out.append(",\n".join(f"  ({k}, {_lean_str(t)})" for k, t in items) + "]")
        out.append("")
        out.append(f"def {ename} : List Entry := [")
        out.append(",\n".join(entries) + "]")
        out.append("")
        tables += [lname, ename]
    # default of the .get() as observable through the public constructors
    absent = max(max(v.MAX_ENUM_TO_VERSION), max(v.PE_EXPORT_STAMP_TO_VERSION)) + 12345
    u1 = str(v.BeaconVersion.from_max_setting_enum(absent))
    u2 = str(v.BeaconVersion.from_pe_export_stamp(absent))
    if u1 != u2:
        raise ValueError(f"the two lookups have different defaults: {u1!r} / {u2!r}")
    out.append(f"def unknownText : List Nat := {_txt(u1)}")
    out.append(f"def unknownString : String := {_lean_str(u1)}")
    out.append("")
    rx = v.BeaconVersion.REGEX_VERSION
    if not isinstance(rx, str):
        raise ValueError("REGEX_VERSION is not a str")
    out.append(f"def regexVersion : List Nat := {_txt(rx)}")
    out.append("")
    import _strptime

    months = list(_strptime.LocaleTime().a_month[1:])
    if len(months) != 12 or not all(isinstance(m, str) and len(m) == 3 for m in months):
        raise ValueError(f"unexpected %b table {months!r}")
    out.append("def monthAbbr : List (List Nat) := [" + ", ".join(_txt(m.lower()) for m in months) + "]")
    out.append("")
    # Unicode decimal digits (what `\\d` of a str pattern and `int()` accept): measured on `re` and `int`, they must come in
    # aligned runs 0..9; the table holds the code point of each run's zero.
    import re as _re

    drx = _re.compile(r"\d")
    digits = [c for c in range(0x110000) if drx.match(chr(c))]
    zeros = [c for c in digits if int(chr(c)) == 0]
    dset = set(digits)
    for z in zeros:
        for i in range(10):
            if (z + i) not in dset or int(chr(z + i)) != i:
                raise ValueError(f"decimal digits at U+{z:04X} are not an aligned run 0..9")
    if len(zeros) * 10 != len(digits):
        raise ValueError("decimal digits outside aligned runs of ten")
    out.append("def decimalZeros : List Nat := [" + ", ".join(str(z) for z in zeros) + "]")
    out.append("")
    srx = _re.compile(r"\s")
    spaces = [c for c in range(0x110000) if srx.match(chr(c))]
    out.append("def whitespace : List Nat := [" + ", ".join(str(c) for c in spaces) + "]")
    out.append("")
    out.append("end Gen.Version")
    tables += ["unknownText", "regexVersion", "monthAbbr", "decimalZeros", "whitespace"]
    return "Version.lean", "\n".join(out) + "\n", tables

"""Translator plug-in for C17: constants and tables of dissect/cobaltstrike/guardrails.py.

Everything is taken from the *imported* module (module attributes, cstruct introspection, function
signature) except the beacon XOR key, which only exists as a literal inside two function bodies and is
therefore read from their AST.  Any shape this plug-in does not understand raises (→ proof obligation
broken), nothing is skipped silently.
"""
from __future__ import annotations

import ast
import importlib
import inspect
import textwrap
from pathlib import Path


def _lean_bytes(b: bytes) -> str:
    return "[" + ", ".join(str(x) for x in bytes(b)) + "]"


def _lean_str(s: str) -> str:
    assert all(32 <= ord(c) < 127 and c not in '"\\' for c in s), s
    return '"' + s + '"'


def _bytes_literals_assigned(fn, attr: str):
    """All `bytes` constants assigned to `<x>.<attr> = b".."` or passed as keyword `<attr>=b".."` in `fn`."""
    tree = ast.parse(textwrap.dedent(inspect.getsource(fn)))
    found = []
    for node in ast.walk(tree):
        if isinstance(node, ast.Assign):
            for t in node.targets:
                if isinstance(t, ast.Attribute) and t.attr == attr:
                    if not (isinstance(node.value, ast.Constant) and isinstance(node.value.value, bytes)):
                        raise ValueError(f"{fn.__name__}: {attr} is not assigned a bytes literal")
                    found.append(node.value.value)
        if isinstance(node, ast.keyword) and node.arg == attr:
            if not (isinstance(node.value, ast.Constant) and isinstance(node.value.value, bytes)):
                raise ValueError(f"{fn.__name__}: keyword {attr} is not a bytes literal")
            found.append(node.value.value)
    return found


def generate(repo: Path):
    g = importlib.import_module("dissect.cobaltstrike.guardrails")

    starts = list(g.GUARD_CONFIG_STARTS)
    if not starts or not all(isinstance(s, bytes) for s in starts):
        raise ValueError("GUARD_CONFIG_STARTS is not a non-empty list of bytes")
    bsize = g.BEACON_CONFIG_PATCH_SIZE
    gsize = g.GUARD_PATCH_SIZE
    if not (isinstance(bsize, int) and isinstance(gsize, int) and bsize >= 0 and gsize >= 0):
        raise ValueError("patch sizes are not non-negative ints")

    # enums
    def enum_table(e):
        if e.type.size != 2:
            raise ValueError(f"{e.__name__}: underlying type is not 2 bytes wide")
        return [(m.name, int(m.value)) for m in e]

    gopt = enum_table(g.GuardOption)
    stype = enum_table(g.c_guardrails.SettingsType)
    names = dict(gopt)
    tnames = dict(stype)
    for n in ("GUARD_USER", "GUARD_COMPUTER", "GUARD_DOMAIN", "GUARD_LOCAL_IP", "GUARD_PAYLOAD_CHECKSUM"):
        if n not in names:
            raise ValueError(f"GuardOption.{n} missing")
    for n in ("TYPE_SHORT", "TYPE_INT"):
        if n not in tnames:
            raise ValueError(f"SettingsType.{n} missing")

    # struct layout: three fixed-width big-endian header fields + char value[length]
    if g.c_guardrails.endian != ">":
        raise ValueError("c_guardrails is not big-endian")
    S = g.GuardrailSetting
    fields = list(S.fields.items())
    if [n for n, _ in fields] != ["option", "type", "length", "value"]:
        raise ValueError(f"GuardrailSetting has unexpected fields {[n for n, _ in fields]}")
    widths = []
    for n, f in fields[:3]:
        if f.type.dynamic or f.type.size is None:
            raise ValueError(f"GuardrailSetting.{n} is not fixed width")
        widths.append(int(f.type.size))
    if fields[0][1].type is not g.GuardOption or fields[1][1].type is not g.c_guardrails.SettingsType:
        raise ValueError("GuardrailSetting.option/type do not have the enum types")
    vt = fields[3][1].type
    if not (vt.dynamic and vt.type.size == 1 and str(vt.num_entries) == "length"):
        raise ValueError("GuardrailSetting.value is not char[length]")

    # default keys
    dflt = inspect.signature(g.iter_guardrail_configs).parameters["xorkey"].default
    if not isinstance(dflt, bytes):
        raise ValueError("iter_guardrail_configs(xorkey=...) default is not bytes")
    in_meta = _bytes_literals_assigned(g.iter_guardrail_configs, "beacon_xor_key")
    in_with = _bytes_literals_assigned(g.iter_guardrail_configs_with_beacon, "beacon_xor_key")
    if len(in_meta) != 1 or len(in_with) != 1:
        raise ValueError(f"expected exactly one beacon_xor_key literal per function, got {in_meta} / {in_with}")

    # modulus and weights of payload_checksum are code, not tables: they are modelled by hand and
    # compared by the correspondence stream `cks`.

    L = []
    L.append("import CsVerif.Model.Basic")
    L.append("namespace Gen.Guardrails")
    L.append("")
    L.append("def GUARD_CONFIG_STARTS : List Bytes := [")
    L.append(",\n".join("  " + _lean_bytes(s) for s in starts))
    L.append("]")
    L.append(f"def BEACON_CONFIG_PATCH_SIZE : Nat := {bsize}")
    L.append(f"def GUARD_PATCH_SIZE : Nat := {gsize}")
    L.append("")
    L.append("/-- enum GuardOption : uint16 (name, value) in declaration order -/")
    L.append("def GuardOption : List (String × Nat) := [" + ", ".join(f"({_lean_str(n)}, {v})" for n, v in gopt) + "]")
    L.append("/-- enum SettingsType : uint16 (name, value) in declaration order -/")
    L.append("def SettingsType : List (String × Nat) := [" + ", ".join(f"({_lean_str(n)}, {v})" for n, v in stype) + "]")
    for n in ("GUARD_USER", "GUARD_COMPUTER", "GUARD_DOMAIN", "GUARD_LOCAL_IP", "GUARD_PAYLOAD_CHECKSUM"):
        L.append(f"def {n} : Nat := {names[n]}")
    for n in ("TYPE_SHORT", "TYPE_INT"):
        L.append(f"def {n} : Nat := {tnames[n]}")
    L.append("")
    L.append("/-- byte widths of the fixed big-endian header fields (option, type, length) of struct GuardrailSetting;")
    L.append("    the fourth field is `char value[length]` (checked by the translator). -/")
    L.append("def settingHeaderWidths : List Nat := [" + ", ".join(map(str, widths)) + "]")
    L.append("")
    L.append("/-- default of `iter_guardrail_configs(fh, xorkey=...)` -/")
    L.append(f"def defaultGuardXorKey : Bytes := {_lean_bytes(dflt)}")
    L.append("/-- literal assigned to `grconfig.beacon_xor_key` in iter_guardrail_configs_with_beacon (used for unmasking) -/")
    L.append(f"def beaconXorKey : Bytes := {_lean_bytes(in_with[0])}")
    L.append("/-- literal passed as `beacon_xor_key=` when iter_guardrail_configs builds the metadata -/")
    L.append(f"def metaBeaconXorKey : Bytes := {_lean_bytes(in_meta[0])}")
    L.append("")
    L.append("end Gen.Guardrails")
    text = "\n".join(L) + "\n"
    tables = ["GUARD_CONFIG_STARTS", "BEACON_CONFIG_PATCH_SIZE", "GUARD_PATCH_SIZE", "GuardOption", "SettingsType",
              "settingHeaderWidths", "defaultGuardXorKey", "beaconXorKey", "metaBeaconXorKey"]
    return "Guardrails.lean", text, tables

"""Translator plug-in: the XorEncoded file view of C09 — `xordecode.iter_nonce_offsets` and
`XorEncodedFile.__init__ / read_nonce / tell / seek / read` — translated statement by statement from their *source* by the
untyped translator (tools/py2leanu.py) → lean/CsVerif/Gen/PyXor.lean (namespace `Gen.PyXor`).

Props/C09Gen.lean proves each translated definition equal to the hand-written model of C09 (`C09.iterNonceOffsets`, `C09.mk'`,
`C09.readNonce`, `C09.tell`, `C09.seek`, `C09.read`), so the C09 theorems (in particular the refinement of a plain file over the
decoded bytes by operation histories) are theorems about the source text as it stands on every run.

  * `iter_nonce_offsets` is a generator over a file parameter: the translated definition returns `(list of yields, file afterwards)`;
  * `XorEncodedFile(fh, nonce_offset)` (`__init__`) MOVES the file into the new instance: the instance is the value
    `.inst XorEncodedFile [file, nonce_offset, initial_nonce, nonced_filesize]`;
  * every method threads `self` (the instance with the file inside): it returns the tuple `(result, self afterwards)`;
    `self.fh.read/seek/tell` act on the file inside, `self.read_nonce()` / `self.tell()` are calls of the translated methods;
  * `try: … except OSError:` of `read_nonce` is Lean's `try … catch` (exact: see `py2leanu._Fn.t15_try`);
  * `io.SEEK_SET / SEEK_CUR / SEEK_END` are the constants 0 / 1 / 2 (checked here), `u32` / `xor` the typed translations of
    `Gen/PyUtils.lean` lifted to dynamic values, `logger.debug(…)` evaluates its arguments and has no effect on the result.
Not translated (hand-modelled, tied by correspondence): `from_file`, `from_path`, `__repr__`, `pe.find_mz_offset`.
"""
from __future__ import annotations

import functools
import importlib
import io
import logging
import sys
from pathlib import Path

METHODS = ["read_nonce", "tell", "seek", "read"]       # in dependency order


def generate(repo: Path):
    tools = str(Path(__file__).resolve().parent.parent)
    if tools not in sys.path:
        sys.path.insert(0, tools)
    import py2lean
    import py2leanu
    from gen import py_utils
    U = importlib.import_module("dissect.cobaltstrike.utils")
    X = importlib.import_module("dissect.cobaltstrike.xordecode")

    if (io.SEEK_SET, io.SEEK_CUR, io.SEEK_END) != (0, 1, 2) or getattr(X, "io", None) is not io:
        raise py2leanu.Unsupported("io.SEEK_SET / SEEK_CUR / SEEK_END are not 0 / 1 / 2, or xordecode.io is not the module io")
    registry = {"io.SEEK_SET": (io.SEEK_SET, "const", "(V.int 0)"), "io.SEEK_CUR": (io.SEEK_CUR, "const", "(V.int 1)"),
                "io.SEEK_END": (io.SEEK_END, "const", "(V.int 2)")}
    unit = py2leanu.Unit("Gen.PyXor", ["CsVerif.Model.PyU_T15", "CsVerif.Gen.PyUtils"], registry)
    unit.t15_builtins = True

    # utils.u32 / utils.xor as imported by xordecode.py (typed translations, lifted)
    tu = py2lean.Unit("Gen.PyUtils")
    for f in py_utils.FUNCS:
        tu.translate(getattr(U, f))
    for p in py_utils.PARTIALS:
        obj = getattr(U, p)
        if not isinstance(obj, functools.partial):
            raise py2leanu.Unsupported(f"utils.{p} is no longer a functools.partial")
        tu.declare_partial(p, obj)
    sg = tu.sigs["u32"]
    if sg.externs or sg.ret != "Int" or not sg.params or sg.params[0][1] != "Bytes" or any(d is None for _, _, d in sg.params[1:]):
        raise py2leanu.Unsupported(f"utils.u32: signature {sg.params} → {sg.ret} is not `bytes → int` with defaults")
    args = " ".join(d for _, _, d in sg.params[1:])
    shown = ", ".join(f"{p}={d}" for p, _, d in sg.params[1:])
    unit.prelude.append(f"/-- `utils.u32` (typed translation `Gen.PyUtils.{sg.name}`; {shown}) on a dynamic value -/\n"
                        f"def u32 (data : V) : Py V := open PyRt in PyU.liftBytesInt (fun d => Gen.PyUtils.{sg.name} d {args}) data\n")
    sx = tu.sigs["xor"]
    if sx.externs or sx.ret != "Bytes" or [t for _, t, _ in sx.params] != ["Bytes", "Bytes"]:
        raise py2leanu.Unsupported(f"utils.xor: signature {sx.params} → {sx.ret} is not `bytes, bytes → bytes`")
    unit.prelude.append(f"/-- `utils.xor` (typed translation `Gen.PyUtils.{sx.name}`) on dynamic values -/\n"
                        f"def xor (data key : V) : Py V := PyU.liftXor Gen.PyUtils.{sx.name} data key\n")
    if X.u32 is not U.u32 or X.xor is not U.xor:
        raise py2leanu.Unsupported("xordecode.u32 / xordecode.xor are not utils.u32 / utils.xor")
    registry["u32"] = (U.u32, "func", ("u32", 1))
    registry["xor"] = (U.xor, "func", ("xor", 2))
    lg = getattr(X, "logger", None)
    if isinstance(lg, logging.Logger) and type(lg).debug is logging.Logger.debug:
        registry["logger.debug"] = (lg.debug, "noop", None)

    # --- iter_nonce_offsets
    unit.translate(X.iter_nonce_offsets, files=["fh"])

    # --- the class: `__init__` first (its attributes are the fields of the descriptor), then the methods
    cls = X.XorEncodedFile
    if cls.__name__ != "XorEncodedFile" or any(m not in cls.__dict__ for m in METHODS + ["__init__"]):
        raise py2leanu.Unsupported("xordecode.XorEncodedFile: the class / one of its methods is missing")
    for special in ("__getattr__", "__getattribute__", "__setattr__", "__slots__"):
        if special in cls.__dict__:
            raise py2leanu.Unsupported(f"XorEncodedFile defines {special}")
    for m in METHODS + ["fh", "nonce_offset", "initial_nonce", "nonced_filesize"]:
        if any(isinstance(b.__dict__.get(m), property) for b in cls.__mro__):
            raise py2leanu.Unsupported(f"XorEncodedFile.{m} is a property")
    unit.t15_init_files = {"fh": "fh"}
    unit.translate(cls.__dict__["__init__"], lean_name="XorEncodedFile_new", init_of=(cls, "XorEncodedFile"))
    unit.t15_init_files = None
    fields = list(unit.init_fields)
    if fields[:1] != ["fh"] or any(f in METHODS for f in fields):
        raise py2leanu.Unsupported(f"XorEncodedFile.__init__: attributes {fields}")
    unit.prelude.append(f"/-- `xordecode.XorEncodedFile`: the attributes `__init__` assigns (`fh` holds the file object) -/\n"
                        f"def XorEncodedFile : PyU.Cls := {{ cid := 1, fields := [{', '.join(py2leanu.lean_string(f) for f in fields)}], "
                        f"isTuple := false, bases := [] }}\n")
    done = {}
    for m in METHODS:
        unit.t15_fobj = ("self", ["fh"], dict(done))
        unit.translate(cls.__dict__[m], lean_name=f"XorEncodedFile_{m}")
        done[m] = f"XorEncodedFile_{m}"
    unit.t15_fobj = None

    names = ["u32", "xor", "XorEncodedFile"] + unit.names
    return "PyXor.lean", unit.render("xordecode.py: iter_nonce_offsets and XorEncodedFile (C09), translated by the untyped translator"), names


if __name__ == "__main__":
    sys.path.insert(0, sys.argv[1] if len(sys.argv) > 1 else "/repo")
    print(generate(Path(sys.argv[1] if len(sys.argv) > 1 else "/repo"))[1])

"""Translator plug-in for C11: the constants of `C2Profile.as_dict` and the block-builder API tables
->  lean/CsVerif/Gen/ProfileApi.lean

Everything is read from the IMPORTED package `dissect.cobaltstrike.c2profile`:

* `listProps`       the list literal assigned to `list_props` inside `C2Profile.as_dict` (via `ast` on the function
                    source; cross-checked against the constant tuple CPython keeps in `as_dict.__code__.co_consts`
                    when the compiler folded the literal), the constants `"set"`, `"{};"`, `'"default"'`, `"STRING"`,
                    `"."` the walk compares against (they must all occur in `co_consts`);
* `classes`         every subclass of `ConfigBlock` defined in the module (and `ConfigBlock` itself): its Python name,
                    the tree label `instance.__name__`, and for every callable non-dunder attribute the KIND of the
                    function found there, by identity: `_pair`, `_enable`, `_header`, `_parameter`,
                    `ConfigBlock.set_option`, `C2Profile.set_option` (global option) or `other`
                    (`init_kwargs` calls ANY callable attribute named like a keyword argument);
* `dtBareSteps`, `dtBareTerminations`, `dtArgTerminations`   the three membership tuples of
                    `DataTransformBlock.__init__` (in source order);
* `executeBare`, `executeSpecial`   the list / the `option == "X" -> set_option("y", value)` pairs of
                    `ExecuteOptionsBlock.from_execute_list`.

Anything unexpected (a second assignment to `list_props`, a non-string element, a missing constant, a membership
test of another form) raises: nothing is skipped silently.  Texts are emitted as code points.
"""
from __future__ import annotations

import ast
import importlib
import inspect
import textwrap
from pathlib import Path


class ApiError(Exception):
    pass


KINDS = ["pair", "enable", "header", "parameter", "setOption", "globalOption", "other"]


def _fn_ast(fn):
    src = textwrap.dedent(inspect.getsource(fn))
    mod = ast.parse(src)
    if len(mod.body) != 1 or not isinstance(mod.body[0], (ast.FunctionDef,)):
        raise ApiError(f"cannot isolate the definition of {fn.__qualname__}")
    return mod.body[0]


def _str_seq(node, what):
    if not isinstance(node, (ast.List, ast.Tuple)):
        raise ApiError(f"{what}: expected a list/tuple literal, got {type(node).__name__}")
    out = []
    for e in node.elts:
        if not (isinstance(e, ast.Constant) and isinstance(e.value, str)):
            raise ApiError(f"{what}: element is not a string constant")
        out.append(e.value)
    return out


def list_props(mod):
    fn = mod.C2Profile.as_dict
    tree = _fn_ast(fn)
    assigns = [n for n in ast.walk(tree)
               if isinstance(n, ast.Assign) and any(isinstance(t, ast.Name) and t.id == "list_props" for t in n.targets)]
    if len(assigns) != 1 or len(assigns[0].targets) != 1:
        raise ApiError(f"expected exactly one assignment to list_props in as_dict, found {len(assigns)}")
    others = [n for n in ast.walk(tree) if isinstance(n, (ast.AugAssign, ast.AnnAssign))
              and isinstance(getattr(n, "target", None), ast.Name) and n.target.id == "list_props"]
    if others:
        raise ApiError("list_props is modified after its definition")
    for n in ast.walk(tree):
        if isinstance(n, ast.Attribute) and isinstance(n.value, ast.Name) and n.value.id == "list_props":
            raise ApiError("a method is called on list_props (it may be modified)")
    uses = [n for n in ast.walk(tree) if isinstance(n, ast.Name) and n.id == "list_props" and isinstance(n.ctx, ast.Load)]
    if len(uses) != 1:
        raise ApiError(f"list_props is expected to be used exactly once (key in list_props), found {len(uses)} uses")
    props = _str_seq(assigns[0].value, "list_props")
    consts = fn.__code__.co_consts
    folded = [c for c in consts if isinstance(c, tuple) and len(c) > 1 and all(isinstance(x, str) for x in c)]
    if folded and list(folded[0]) != props:
        raise ApiError("list_props literal in the source differs from the constant in as_dict.__code__.co_consts")
    if not folded and not all(p in consts for p in props):
        raise ApiError("list_props entries are missing from as_dict.__code__.co_consts")
    needed = ["set", "{};", "{", "}", ";", '"default"', ".", "STRING"]
    for c in needed:
        if c not in consts:
            raise ApiError(f"as_dict no longer uses the constant {c!r}")
    strs = sorted({c for c in consts if isinstance(c, str) and c != fn.__doc__})
    return props, strs


def classes(mod):
    CB = mod.ConfigBlock
    kinds = {
        id(CB._pair): "pair",
        id(CB._enable): "enable",
        id(CB._header): "header",
        id(CB._parameter): "parameter",
        id(CB.set_option): "setOption",
        id(mod.C2Profile.set_option): "globalOption",
    }
    out = []
    for name, cls in vars(mod).items():
        if not (inspect.isclass(cls) and issubclass(cls, CB) and cls.__module__ == mod.__name__):
            continue
        inst = object.__new__(cls)
        tree_name = inst.__name__
        if not isinstance(tree_name, str):
            raise ApiError(f"{name}.__name__ is not a string")
        attrs = []
        for a in sorted(dir(cls)):
            if a.startswith("__") and a.endswith("__"):
                continue
            static = inspect.getattr_static(cls, a)
            if isinstance(static, property):
                continue  # getattr on an instance evaluates it; the result is data, handled by the model's `tree`
            v = getattr(cls, a)
            if not callable(v):
                continue
            f = getattr(v, "__func__", v)
            attrs.append((a, kinds.get(id(f), "other")))
        out.append((name, tree_name, attrs))
    if not any(n == "ConfigBlock" for n, _, _ in out) or not any(n == "C2Profile" for n, _, _ in out):
        raise ApiError("ConfigBlock / C2Profile not found")
    return out


def dt_tables(mod):
    tree = _fn_ast(mod.DataTransformBlock.__init__)
    tabs = []
    for n in ast.walk(tree):
        if isinstance(n, ast.Compare) and len(n.ops) == 1 and isinstance(n.ops[0], ast.In):
            tabs.append((n.lineno, n.col_offset, _str_seq(n.comparators[0], "DataTransformBlock.__init__ membership test")))
    tabs.sort()
    if len(tabs) != 3:
        raise ApiError(f"DataTransformBlock.__init__: expected 3 membership tests, found {len(tabs)}")
    return [t[2] for t in tabs]


def execute_tables(mod):
    fn = mod.ExecuteOptionsBlock.from_execute_list
    tree = _fn_ast(getattr(fn, "__func__", fn))
    bare = None
    special = []
    for n in ast.walk(tree):
        if isinstance(n, ast.Compare) and len(n.ops) == 1 and isinstance(n.ops[0], ast.In):
            if bare is not None:
                raise ApiError("from_execute_list: more than one membership test")
            bare = _str_seq(n.comparators[0], "from_execute_list membership test")
        if isinstance(n, ast.If) and isinstance(n.test, ast.Compare) and len(n.test.ops) == 1 and isinstance(n.test.ops[0], ast.Eq):
            left, right = n.test.left, n.test.comparators[0]
            if isinstance(left, ast.Name) and left.id == "option" and isinstance(right, ast.Constant) and isinstance(right.value, str):
                call = n.body[0]
                ok = (isinstance(call, ast.Expr) and isinstance(call.value, ast.Call) and isinstance(call.value.func, ast.Attribute)
                      and call.value.func.attr == "set_option" and len(call.value.args) == 2
                      and isinstance(call.value.args[0], ast.Constant) and isinstance(call.value.args[0].value, str))
                if not ok:
                    raise ApiError("from_execute_list: `option == ...` branch is not a set_option call")
                special.append((right.value, call.value.args[0].value))
    if bare is None or not special:
        raise ApiError("from_execute_list: tables not found")
    return bare, special


def load(strict=True):
    """`strict=False` (used by the correspondence harness, which only needs the class tables): constants of as_dict
    that cannot be extracted are replaced by empty lists instead of raising."""
    mod = importlib.import_module("dissect.cobaltstrike.c2profile")
    try:
        props, consts = list_props(mod)
    except Exception:  # noqa: BLE001
        if strict:
            raise
        props, consts = [], []
    return {
        "listProps": props,
        "asDictStrings": consts,
        "classes": classes(mod),
        "dt": dt_tables(mod),
        "execute": execute_tables(mod),
    }


def _codes(s: str) -> str:
    return "[" + ", ".join(str(ord(c)) for c in s) + "]"


def _lean_str(s: str) -> str:
    out = ['"']
    for ch in s:
        if ch == '"':
            out.append('\\"')
        elif ch == "\\":
            out.append("\\\\")
        elif 32 <= ord(ch) < 127:
            out.append(ch)
        else:
            out.append("\\u{%x}" % ord(ch))
    out.append('"')
    return "".join(out)


def _texts(xs) -> str:
    return "[" + ", ".join(_codes(x) for x in xs) + "]"


def generate(repo: Path):
    d = load()
    L = [
        "/-! Constants of `C2Profile.as_dict` and the attribute tables of the block-builder classes (C11), obtained by",
        "introspection of the imported module.  Texts are lists of code points.  No imports: linkable into drivers. -/",
        "namespace ProfileApi",
        "",
        "/-- which function a callable class attribute is (by identity) -/",
        "inductive Kind where",
        "  | pair | enable | header | parameter | setOption | globalOption | other",
        "  deriving DecidableEq, Repr, Inhabited",
        "",
        "/-- a builder class: Python name, tree label (`instance.__name__`), callable attributes with their kind -/",
        "structure Cls where",
        "  pyName : String",
        "  treeName : List Nat",
        "  attrs : List (List Nat × Kind)",
        "  deriving DecidableEq, Repr, Inhabited",
        "",
        "/-- the list literal `list_props` of `C2Profile.as_dict`, in source order -/",
        "def listPropStrings : List String := [" + ", ".join(_lean_str(p) for p in d["listProps"]) + "]",
        "def listProps : List (List Nat) := [",
    ]
    L += ["  " + _codes(p) + ("," if i + 1 < len(d["listProps"]) else "") + " -- " + p for i, p in enumerate(d["listProps"])]
    L += [
        "]",
        "",
        "/-- all string constants of `as_dict` (sorted; the docstring excluded) -/",
        "def asDictStrings : List String := [" + ", ".join(_lean_str(p) for p in d["asDictStrings"]) + "]",
        "",
        "def classes : List Cls := [",
    ]
    cl = d["classes"]
    for i, (name, tn, attrs) in enumerate(cl):
        L.append(f"  ⟨{_lean_str(name)}, {_codes(tn)}, [ -- {tn}")
        for j, (a, k) in enumerate(attrs):
            L.append(f"    ({_codes(a)}, .{k})" + ("," if j + 1 < len(attrs) else "") + f" -- {a}")
        L.append("  ]⟩" + ("," if i + 1 < len(cl) else ""))
    L += [
        "]",
        "",
        "/-- `DataTransformBlock.__init__`: bare steps, bare terminations, terminations with an argument -/",
        "def dtBareSteps : List (List Nat) := " + _texts(d["dt"][0]) + " -- " + " ".join(d["dt"][0]),
        "def dtBareTerminations : List (List Nat) := " + _texts(d["dt"][1]) + " -- " + " ".join(d["dt"][1]),
        "def dtArgTerminations : List (List Nat) := " + _texts(d["dt"][2]) + " -- " + " ".join(d["dt"][2]),
        "",
        "/-- `ExecuteOptionsBlock.from_execute_list`: names enabled as they are, and `(name, label)` for `(name, value)` pairs -/",
        "def executeBare : List (List Nat) := " + _texts(d["execute"][0]),
        "def executeSpecial : List (List Nat × List Nat) := ["
        + ", ".join(f"({_codes(a)}, {_codes(b)})" for a, b in d["execute"][1]) + "]",
        "",
        "end ProfileApi",
        "",
    ]
    return "ProfileApi.lean", "\n".join(L), ["listProps", "classes", "dtTables", "executeTables"]

"""Translator plug-in: `parse_raw_http` and `HttpDataTransform.__init__ / transform / recover` of dissect/cobaltstrike/c2.py,
translated statement by statement from their *source* by the untyped translator (tools/py2leanu.py)
→ lean/CsVerif/Gen/PyC2U.lean (namespace `Gen.PyC2U`).

Props/C16Gen.lean / Props/C04Gen.lean prove each translated definition equal to the hand-written model of C16 / C04, so the
theorems of those properties are theorems about the source text as it stands on every run.

Besides the functions, the file contains
  * one `PyU.Cls` descriptor per class the functions mention (the NamedTuple classes `HttpRequest`, `HttpResponse`, `C2Data`,
    `ClientC2Data`, `ServerC2Data`, urllib's `SplitResultBytes`; the plain class `HttpDataTransform`): field names by
    introspection, after checking that the class behaves like a plain (Named)tuple;
  * `intTables`: the Unicode tables `int(str)` depends on (generated: Gen/C16Unicode.lean);
  * the typed translations `netbios_encode`, `netbios_decode`, `xor`, `p32be` of Gen/PyUtils.lean (the very objects c2.py imports
    from utils.py), lifted to dynamic values.
External functions (parameters of the translated definitions): `urllib.parse.urlsplit`, `urllib.parse.parse_qsl(…, encoding=…)`,
`base64.b64encode / urlsafe_b64encode / b64decode / urlsafe_b64decode`, and the stream `random.getrandbits`.
"""
from __future__ import annotations

import base64
import functools
import importlib
import random
import sys
import urllib.parse
from pathlib import Path

NTCLASSES = ["HttpRequest", "HttpResponse", "C2Data", "ClientC2Data", "ServerC2Data"]
TUPLE_SLOTS = ["__eq__", "__ne__", "__len__", "__getitem__", "__iter__", "__hash__", "__contains__", "__lt__", "__add__", "__mul__"]


def _nt_descriptor(py2leanu, cls, cid: int, cids: dict) -> str:
    """a `typing.NamedTuple` class (or a subclass without fields of its own) that behaves like a plain namedtuple"""
    name = cls.__name__
    if not (isinstance(cls, type) and issubclass(cls, tuple) and hasattr(cls, "_fields")):
        raise py2leanu.Unsupported(f"{name} is not a NamedTuple class")
    import collections
    ref = collections.namedtuple("Ref", "a b")
    if not getattr(cls.__new__, "__module__", "").startswith("namedtuple_") or getattr(cls._replace, "__code__", None) is not ref._replace.__code__:
        raise py2leanu.Unsupported(f"{name}: `__new__` / `_replace` are not the generated ones")
    if cls.__init__ is not object.__init__ and cls.__init__ is not tuple.__init__:
        raise py2leanu.Unsupported(f"{name}: has an `__init__`")
    for m in TUPLE_SLOTS + ["__bool__"]:
        if getattr(cls, m, None) is not getattr(tuple, m, None):
            raise py2leanu.Unsupported(f"{name}: overrides {m}")
    for i, f in enumerate(cls._fields):
        d = cls.__dict__.get(f) or next((b.__dict__[f] for b in cls.__mro__ if f in b.__dict__), None)
        if type(d).__name__ != "_tuplegetter":
            raise py2leanu.Unsupported(f"{name}.{f} is not the generated field accessor")
    for f, d in cls._field_defaults.items():
        py2leanu.const_term(d)      # defaults must be literals
    bases = [cids[b.__name__] for b in cls.__mro__[1:] if b.__name__ in cids and cids[b.__name__] != cid]
    fields = ", ".join(py2leanu.lean_string(f) for f in cls._fields)
    return (f"/-- `{cls.__module__}.{name}` (NamedTuple); defaults: {dict(cls._field_defaults)!r} -/\n"
            f"def {name} : PyU.Cls := {{ cid := {cid}, fields := [{fields}], isTuple := true, bases := {bases} }}\n")


def generate(repo: Path):
    tools = str(Path(__file__).resolve().parent.parent)
    if tools not in sys.path:
        sys.path.insert(0, tools)
    import py2lean
    import py2leanu
    from gen import py_utils
    M = importlib.import_module("dissect.cobaltstrike.c2")
    U = importlib.import_module("dissect.cobaltstrike.utils")

    registry = {
        "urlsplit": (urllib.parse.urlsplit, "extern", ("urlsplit", 1, [])),
        "parse_qsl": (urllib.parse.parse_qsl, "extern", ("parse_qsl", 1, ["encoding"])),
        "base64.b64encode": (base64.b64encode, "extern", ("b64encode", 1, [])),
        "base64.urlsafe_b64encode": (base64.urlsafe_b64encode, "extern", ("urlsafe_b64encode", 1, [])),
        "base64.b64decode": (base64.b64decode, "extern", ("b64decode", 1, [])),
        "base64.urlsafe_b64decode": (base64.urlsafe_b64decode, "extern", ("urlsafe_b64decode", 1, [])),
        "random.getrandbits": (random.getrandbits, "stream", ("getrandbits", 1)),
    }
    unit = py2leanu.Unit("Gen.PyC2U", ["CsVerif.Gen.C16Unicode", "CsVerif.Gen.PyUtils"], registry)
    unit.int_tables = "intTables"
    unit.prelude.append("/-- the Unicode tables of the running interpreter that `int(str)` depends on -/\n"
                        "def intTables : PyU.IntTables := { spaces := C16.Gen.unicodeSpaces, zeros := C16.Gen.decimalZeros }\n")

    # classes with named fields
    classes = [getattr(M, n) for n in NTCLASSES] + [urllib.parse.SplitResultBytes]
    cids = {c.__name__: i for i, c in enumerate(classes)}
    for c in classes:
        if c.__name__ in NTCLASSES and getattr(M, c.__name__).__name__ != c.__name__:
            raise py2leanu.Unsupported(f"c2.{c.__name__} is now called {c.__name__}")
        unit.prelude.append(_nt_descriptor(py2leanu, c, cids[c.__name__], cids))
        if c.__name__ in NTCLASSES:
            registry[c.__name__] = (c, "ntcls", c.__name__)

    names = ["intTables"] + [c.__name__ for c in classes]
    unit.translate(M.parse_raw_http)
    names += unit.names
    return "PyC2U.lean", unit.render("c2.py: parse_raw_http (C16) and HttpDataTransform (C04), translated by the untyped translator"), names


if __name__ == "__main__":
    sys.path.insert(0, sys.argv[1] if len(sys.argv) > 1 else "/repo")
    print(generate(Path(sys.argv[1] if len(sys.argv) > 1 else "/repo"))[1])

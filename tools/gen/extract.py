"""Translator plug-in for C01: constants of the configuration extractor in dissect/cobaltstrike/beacon.py
→ lean/CsVerif/Gen/Extract.lean   (namespace `Gen.Extract`).

  defaultXorKeys : List Bytes   `beacon.DEFAULT_XOR_KEYS` (module attribute, list order kept)
  patchSize      : Nat          local `PATCH_SIZE` of `find_beacon_config_bytes`
  configHeader   : Bytes        local `CONFIG_HEADER` of `find_beacon_config_bytes`

The two locals are not module attributes; they are taken from the compiled function object of the *imported*
module (`find_beacon_config_bytes.__code__`): the constant that is stored into the local of that name
(`LOAD_CONST c; STORE_FAST name`), which must exist exactly once and be a member of `co_consts`.
Anything else raises (→ proof obligation broken), nothing is skipped silently.
"""
from __future__ import annotations

import dis
import importlib
from pathlib import Path


def _lean_bytes(b: bytes) -> str:
    return "[" + ", ".join(str(x) for x in bytes(b)) + "]"


def _local_constant(fn, name: str, typ):
    """The unique constant assigned to local `name` in `fn` (taken from fn.__code__.co_consts)."""
    code = fn.__code__
    if name not in code.co_varnames:
        raise ValueError(f"{fn.__name__}: no local named {name}")
    ins = list(dis.get_instructions(code))
    found = []
    for i, op in enumerate(ins):
        if op.opname in ("STORE_FAST", "STORE_DEREF") and op.argval == name:
            prev = ins[i - 1] if i else None
            if prev is None or prev.opname not in ("LOAD_CONST", "LOAD_SMALL_INT"):
                raise ValueError(f"{fn.__name__}: local {name} is assigned something that is not a constant")
            found.append(prev.argval)
    if len(found) != 1:
        raise ValueError(f"{fn.__name__}: expected exactly one constant assignment to {name}, found {len(found)}")
    val = found[0]
    if type(val) is not typ:
        raise ValueError(f"{fn.__name__}: {name} = {val!r} is not of type {typ.__name__}")
    same = [c for c in code.co_consts if type(c) is typ and c == val]
    if len(same) != 1:
        raise ValueError(f"{fn.__name__}: constant {val!r} for {name} not found uniquely in co_consts")
    return val


def generate(repo: Path):
    b = importlib.import_module("dissect.cobaltstrike.beacon")

    keys = b.DEFAULT_XOR_KEYS
    if not isinstance(keys, list) or not keys or not all(isinstance(k, bytes) for k in keys):
        raise ValueError("DEFAULT_XOR_KEYS is not a non-empty list of bytes")

    fn = b.find_beacon_config_bytes
    patch = _local_constant(fn, "PATCH_SIZE", int)
    header = _local_constant(fn, "CONFIG_HEADER", bytes)
    if patch < 0:
        raise ValueError("PATCH_SIZE is negative")

    L = []
    L.append("import CsVerif.Model.Basic")
    L.append("namespace Gen.Extract")
    L.append("")
    L.append("/-- `beacon.DEFAULT_XOR_KEYS` in list order -/")
    L.append("def defaultXorKeys : List Bytes := [" + ", ".join(_lean_bytes(k) for k in keys) + "]")
    L.append("/-- local `PATCH_SIZE` of `find_beacon_config_bytes` -/")
    L.append(f"def patchSize : Nat := {patch}")
    L.append("/-- local `CONFIG_HEADER` of `find_beacon_config_bytes` -/")
    L.append(f"def configHeader : Bytes := {_lean_bytes(header)}")
    L.append("")
    L.append("end Gen.Extract")
    return "Extract.lean", "\n".join(L) + "\n", ["defaultXorKeys", "patchSize", "configHeader"]

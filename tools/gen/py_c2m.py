"""Translator plug-in: `decrypt_metadata` and `encrypt_metadata` of dissect/cobaltstrike/c2.py (property C06), translated statement
by statement from their *source* by the untyped translator (tools/py2leanu.py) → lean/CsVerif/Gen/PyC2M.lean (namespace `Gen.PyC2M`).

Props/C06Gen.lean proves each translated definition equal to the hand-written model of C06 (Model/C06.lean: `decryptMetadata`,
`encryptMetadata` / `sized`), so the C06 theorems are theorems about the source text as it stands on every run.

The file contains
  * `BeaconMetadataCls` / `BeaconMetadata : PyU.T07StructCls`: the cstruct structure class, built from the GENERATED layout tables of
    Gen/C2Struct.lean (plug-in gen/c2struct.py: field names, kinds, widths, offsets, byte order, the length expression of `info`); this
    plug-in checks that the class c2.py calls is that very class, that its instances are plain objects with one attribute per field,
    and probes `BeaconMetadata(bytes)` / `.dumps()` / `len()` against the modelled behaviour (`PyU.t07StructParse`, `t07Dumps`,
    `t07Len` of lean/CsVerif/Model/PyU_T07.lean; the `pyu` stream of C06 does the same on random operands on every run);
  * `structs`: the structure classes `len(x)` / `x.dumps()` know;
  * `Pkcs1Cipher`: the class of the object `PKCS1_v1_5.new(key)` returns (an immutable holder of the key).
External functions (parameters of the translated definitions): `pkcs1_decrypt cipher ciphertext sentinel` =
`cipher.decrypt(ciphertext, sentinel)` and `pkcs1_encrypt cipher message` = `cipher.encrypt(message)` (pycryptodome; `encrypt` draws
its padding bytes from `Crypto.Random`: the parameter stands for the function of the message that one particular draw gives).
`encrypt_metadata` changes its argument (`metadata.size = …`): `metadata` is an IN-OUT parameter, the definition answers
`(ciphertext, metadata afterwards)`.
"""
from __future__ import annotations

import importlib
import inspect
import struct
import sys
from pathlib import Path

META_CID, CIPHER_CID = 7701, 7702
FUNCS = ["decrypt_metadata", "encrypt_metadata"]


def _check_struct(py2leanu, M, CC, fields, offsets, big, expr):
    """the assumptions of `PyU.t07StructParse / t07Dumps / t07Len / instSetAttr` about the real class, probed"""
    S = CC.BeaconMetadata
    if M.BeaconMetadata is not S or S.__name__ != "BeaconMetadata":
        raise py2leanu.Unsupported("c2.BeaconMetadata is not c_c2.BeaconMetadata")
    names = [n for n, _, _ in fields]
    from dissect.cstruct.types.structure import Structure
    if S.__mro__[1] is not Structure or any(m in S.__dict__ for m in ("__setattr__", "__getattr__", "__getattribute__", "__len__", "dumps", "__slots__")):
        raise py2leanu.Unsupported("BeaconMetadata: not a plain cstruct Structure class")
    if any(m in Structure.__dict__ for m in ("__setattr__", "__getattr__", "__getattribute__")):
        raise py2leanu.Unsupported("cstruct Structure has attribute hooks")
    obj = S()
    if set(vars(obj)) - {"__dynamic_sizes__"} != set(names):
        raise py2leanu.Unsupported(f"a BeaconMetadata instance has the attributes {sorted(vars(obj))}")
    order = "big" if big else "little"
    header = sum(w for _, _, w in fields)
    lf, sub = expr
    # reading: every cut of two probes, trailing bytes ignored, `max(0, size - sub)`
    for fill, n in ((0xFF, 3), (0x01, 0), (0x80, 5)):
        vals, data = [], b""
        for nm, kind, w in fields[:-1]:
            raw = (n + sub).to_bytes(w, order) if nm == lf else bytes([fill] * w)
            vals.append(raw if kind == "chars" else int.from_bytes(raw, order))
            data += raw
        payload = bytes((i * 7 + 3) % 256 for i in range(n))
        full = data + payload
        got = S(full + b"XYZ")
        have = [bytes(getattr(got, nm)) if isinstance(getattr(got, nm), bytes) else int(getattr(got, nm)) for nm in names]
        if have != vals + [payload] or len(data) != header:
            raise py2leanu.Unsupported(f"BeaconMetadata(bytes) on a probe: {have!r}, modelled {vals + [payload]!r}")
        for cut in range(len(full)):
            try:
                S(full[:cut])
                raise py2leanu.Unsupported(f"BeaconMetadata(bytes) on {cut} of {len(full)} bytes does not raise")
            except EOFError:
                pass
    small = S(bytes(header))
    if bytes(getattr(small, names[-1])) != b"":
        raise py2leanu.Unsupported("BeaconMetadata: a length expression below zero does not read the empty string")
    # writing: padding up to the static offsets, nothing is cut, struct.error for integers out of range; len() = len(dumps())
    o = S()
    for nm, kind, w in fields:
        setattr(o, nm, b"ab" if kind == "chars" else (b"xyz" if kind == "dynChars" else 1))
    want = b""
    for (nm, kind, w), off in zip(fields, offsets):
        want += bytes(max(0, off - len(want)))
        want += b"ab" if kind == "chars" else (b"xyz" if kind == "dynChars" else (1).to_bytes(w, order))
    if o.dumps() != want or len(o) != len(want):
        raise py2leanu.Unsupported("BeaconMetadata.dumps() / len() on a probe differ from the modelled layout")
    first_int = next(nm for nm, kind, _ in fields if kind == "uint")
    for bad in (-1, 256 ** dict((n, w) for n, _, w in fields)[first_int], b"x"):
        o = S()
        setattr(o, first_int, bad)
        for op in (lambda: o.dumps(), lambda: len(o)):
            try:
                op()
                raise py2leanu.Unsupported(f"BeaconMetadata with {first_int}={bad!r} can be dumped")
            except struct.error:
                pass


def generate(repo: Path):
    tools = str(Path(__file__).resolve().parent.parent)
    if tools not in sys.path:
        sys.path.insert(0, tools)
    import py2leanu
    from gen import c2struct
    M = importlib.import_module("dissect.cobaltstrike.c2")
    CC = importlib.import_module("dissect.cobaltstrike.c_c2")
    from Crypto.Cipher import PKCS1_v1_5

    if M.PKCS1_v1_5 is not PKCS1_v1_5 or not inspect.isfunction(PKCS1_v1_5.new):
        raise py2leanu.Unsupported("c2.PKCS1_v1_5 is not Crypto.Cipher.PKCS1_v1_5")
    cipher_cls = PKCS1_v1_5.PKCS115_Cipher
    if not all(inspect.isfunction(cipher_cls.__dict__.get(m)) for m in ("encrypt", "decrypt")) \
            or any(m in cipher_cls.__dict__ for m in ("__setattr__", "__getattr__", "__getattribute__")):
        raise py2leanu.Unsupported("PKCS115_Cipher: encrypt / decrypt are not plain methods")

    fields, offsets, big, expr, _iv = c2struct.describe(repo)
    _check_struct(py2leanu, M, CC, fields, offsets, big, expr)

    registry = {
        "PKCS1_v1_5.new": (PKCS1_v1_5.new, "t07ctor", ("Pkcs1Cipher", 1, {"decrypt": ("pkcs1_decrypt", 2), "encrypt": ("pkcs1_encrypt", 1)})),
        "%t07.pkcs1_decrypt": (None, "extern", ("pkcs1_decrypt", 3, [])),
        "%t07.pkcs1_encrypt": (None, "extern", ("pkcs1_encrypt", 2, [])),
        "BeaconMetadata": (CC.BeaconMetadata, "t07struct", "BeaconMetadata"),
    }
    unit = py2leanu.Unit("Gen.PyC2M", ["CsVerif.Model.PyU_T07", "CsVerif.Gen.C2Struct"], registry)
    unit.t07 = True
    unit.t07_structs = "structs"
    unit.t07_inout = {"encrypt_metadata": ["metadata"]}
    unit.prelude.append(
        f"/-- instances of `struct BeaconMetadata` (cstruct structure: a plain object with one attribute per field); field names: the\n"
        f"generated table `Gen.C2Struct.beaconMetadataFields` -/\n"
        f"def BeaconMetadataCls : PyU.Cls :=\n"
        f"  {{ cid := {META_CID}, fields := Gen.C2Struct.beaconMetadataFields.map (·.name), isTuple := false, bases := [] }}\n\n"
        f"/-- `struct BeaconMetadata` of c_c2.py: field types, static offsets and byte order from the generated tables of Gen/C2Struct.lean -/\n"
        f"def BeaconMetadata : PyU.T07StructCls :=\n"
        f"  {{ cls := BeaconMetadataCls, bigEndian := Gen.C2Struct.bigEndian,\n"
        f"    tys := Gen.C2Struct.beaconMetadataFields.map fun f => match f.kind with\n"
        f"      | .uint => PyU.T07FieldTy.uint f.width\n"
        f"      | .chars => PyU.T07FieldTy.chars f.width\n"
        f"      | .dynChars => PyU.T07FieldTy.charsExpr Gen.C2Struct.infoLenField Gen.C2Struct.infoLenSub,\n"
        f"    offsets := Gen.C2Struct.beaconMetadataOffsets }}\n\n"
        f"/-- the cstruct structure classes that `len(x)` / `x.dumps()` know -/\n"
        f"def structs : List PyU.T07StructCls := [BeaconMetadata]\n\n"
        f"/-- the object `PKCS1_v1_5.new(key)` returns: an immutable holder of the key; its methods `decrypt` / `encrypt` are the external\n"
        f"functions `pkcs1_decrypt` / `pkcs1_encrypt` -/\n"
        f"def Pkcs1Cipher : PyU.Cls := {{ cid := {CIPHER_CID}, fields := [\"key\"], isTuple := false, bases := [] }}\n")
    for f in FUNCS:
        fn = getattr(M, f, None)
        if not inspect.isfunction(fn) or fn.__name__ != f:
            raise py2leanu.Unsupported(f"c2.{f} is not a plain function")
        unit.translate(fn)
    names = ["BeaconMetadataCls", "BeaconMetadata", "structs", "Pkcs1Cipher"] + unit.names
    return "PyC2M.lean", unit.render("c2.py: decrypt_metadata / encrypt_metadata (C06), translated by the untyped translator"), names


if __name__ == "__main__":
    sys.path.insert(0, sys.argv[1] if len(sys.argv) > 1 else "/repo")
    print(generate(Path(sys.argv[1] if len(sys.argv) > 1 else "/repo"))[1])

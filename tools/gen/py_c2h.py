"""Translator plug-in: class `C2Http` of dissect/cobaltstrike/c2.py (property C07) — `__init__`, `get_transform_for_http`,
`iter_recover_http` — translated statement by statement from their *source* by the untyped translator (tools/py2leanu.py)
→ lean/CsVerif/Gen/PyC2H.lean (namespace `Gen.PyC2H`).

Props/C07Gen.lean proves the translated definitions equal to the hand-written model of C07 (Model/C07.lean: `routeRequest` /
`getTransformForHttp`, `mkDecoder`), so the C07 theorems about routing and key validation are theorems about the source text as it
stands on every run.

`self` is an instance record (`C2Http : PyU.Cls`, the attributes in the order `__init__` assigns them).  Calls of definitions that
other plug-ins translate from the same source file are calls of THOSE definitions: `parse_raw_http` (Gen/PyC2U.lean; its external
functions `urlsplit` / `parse_qsl` become parameters here too), `HttpDataTransform(steps=…, reverse=…, build=…)` (Gen/PyC2T.lean:
`http_data_transform_init`).  The NamedTuple classes `HttpRequest`, `HttpResponse`, `ClientC2Data`, `ServerC2Data` are the descriptors of
Gen/PyC2U.lean; `BeaconKeys` is described here (same checks).
EXTERNAL (parameters of the translated definitions): `derive_aes_hmac_keys` (instantiated in Model/C07Gen.lean with the TYPED
translation `Gen.PyC2.derive_aes_hmac_keys`, lifted to dynamic values), `RSA.import_key`.  `logger.debug` / `logging.info` are calls
without effect on the result (their arguments are evaluated).  `bconfig` and the RSA key objects are records of what the code reads
from them (`bconfig.settings`, `.uris`, `.public_key`, `.is_trial`; `key.n`): attribute reads of parameters.
"""
from __future__ import annotations

import importlib
import inspect
import logging
import sys
import urllib.parse
from pathlib import Path

C2HTTP_CID, KEYS_CID = 7703, 7704
NTCLASSES = ["HttpRequest", "HttpResponse", "C2Data", "ClientC2Data", "ServerC2Data"]
METHODS = ["get_transform_for_http"]
HDT_CID_TERM = "Gen.PyC2T.HttpDataTransform"


def generate(repo: Path):
    tools = str(Path(__file__).resolve().parent.parent)
    if tools not in sys.path:
        sys.path.insert(0, tools)
    import py2leanu
    from gen import py_c2t, py_c2u
    M = importlib.import_module("dissect.cobaltstrike.c2")
    from Crypto.PublicKey import RSA

    if M.RSA is not RSA or not inspect.isfunction(RSA.import_key):
        raise py2leanu.Unsupported("c2.RSA is not Crypto.PublicKey.RSA")
    if not isinstance(M.logger, logging.Logger) or M.logging is not logging:
        raise py2leanu.Unsupported("c2.logger / c2.logging are not the standard logging objects")

    registry = {
        "urlsplit": (urllib.parse.urlsplit, "extern", ("urlsplit", 1, [])),
        "parse_qsl": (urllib.parse.parse_qsl, "extern", ("parse_qsl", 1, ["encoding"])),
        "derive_aes_hmac_keys": (M.derive_aes_hmac_keys, "extern", ("derive_aes_hmac_keys", 1, [])),
        "RSA.import_key": (RSA.import_key, "extern", ("rsa_import_key", 1, [])),
        "logger.debug": (M.logger.debug, "noop", None),
        "logging.info": (logging.info, "noop", None),
    }
    unit = py2leanu.Unit("Gen.PyC2H", ["CsVerif.Model.PyU_T15", "CsVerif.Model.PyU_T07", "CsVerif.Gen.PyC2U", "CsVerif.Gen.PyC2T", "CsVerif.Gen.PyC2M"], registry)
    unit.t07 = True
    unit.t02_builtins = True          # `tuple(x)`

    # the NamedTuple classes of Gen/PyC2U.lean (same checks as there; the cids are the positions in that list)
    classes = [getattr(M, n) for n in NTCLASSES] + [urllib.parse.SplitResultBytes]
    cids = {c.__name__: i for i, c in enumerate(classes)}
    for c in classes[:len(NTCLASSES)]:
        if c.__name__ not in NTCLASSES:
            raise py2leanu.Unsupported(f"c2.{c.__name__}: renamed NamedTuple class")
        py_c2u._nt_descriptor(py2leanu, c, cids[c.__name__], cids)
        registry[c.__name__] = (c, "ntcls", f"Gen.PyC2U.{c.__name__}")
    if M.BeaconKeys.__name__ != "BeaconKeys":
        raise py2leanu.Unsupported("c2.BeaconKeys: renamed")
    unit.prelude.append(py_c2u._nt_descriptor(py2leanu, M.BeaconKeys, KEYS_CID, {"BeaconKeys": KEYS_CID}))
    registry["BeaconKeys"] = (M.BeaconKeys, "ntcls", "BeaconKeys")

    # `parse_raw_http`: the definition of Gen/PyC2U.lean (translated by gen/py_c2u.py from the same function object)
    if not inspect.isfunction(M.parse_raw_http) or M.parse_raw_http.__name__ != "parse_raw_http":
        raise py2leanu.Unsupported("c2.parse_raw_http is not a plain function")
    sg = py2leanu.Sig("Gen.PyC2U.parse_raw_http", [("data", None)], False, ["urlsplit", "parse_qsl"])
    sg.files, sg.is_gen, sg.fobj, sg.stops, sg.mutates, sg.returns_self = [], False, None, False, False, False
    unit.sigs["parse_raw_http"] = sg

    # `HttpDataTransform(steps, reverse=False, build=None)`: the constructor call translated in Gen/PyC2T.lean
    hdt = M.HttpDataTransform
    py_c2t._plain_class(py2leanu, hdt)
    isig = inspect.signature(hdt.__init__)
    if list(isig.parameters) != ["self", "steps", "reverse", "build"] or isig.parameters["reverse"].default is not False \
            or isig.parameters["build"].default is not None or isig.parameters["steps"].default is not inspect.Parameter.empty:
        raise py2leanu.Unsupported(f"HttpDataTransform.__init__{isig}: not (self, steps, reverse=False, build=None)")
    registry["HttpDataTransform"] = (hdt, "t07kwfunc", ("Gen.PyC2T.http_data_transform_init", ["steps", "reverse", "build"],
                                                         {"reverse": "(V.bool false)", "build": "V.none"}))

    # the class
    cls = M.C2Http
    if cls.__name__ != "C2Http":
        raise py2leanu.Unsupported("c2.C2Http: renamed")
    py_c2t._plain_class(py2leanu, cls)
    unit.translate(cls.__dict__["__init__"], lean_name="c2http_init", init_of=(cls, "C2Http"))
    fields = ", ".join(py2leanu.lean_string(f) for f in unit.init_fields)
    unit.prelude.append(f"/-- `dissect.cobaltstrike.c2.C2Http` (plain class); attributes as `__init__` assigns them -/\n"
                        f"def C2Http : PyU.Cls := {{ cid := {C2HTTP_CID}, fields := [{fields}], isTuple := false, bases := [] }}\n")
    for m in METHODS:
        fn = cls.__dict__.get(m)
        if not inspect.isfunction(fn):
            raise py2leanu.Unsupported(f"C2Http.{m} is not a plain method")
        unit.translate(fn)

    # ---- iter_recover_http: a generator that changes `self` (metadata cache, session keys) -----------------------------------
    CC = importlib.import_module("dissect.cobaltstrike.c_c2")
    if M.decrypt_metadata.__name__ != "decrypt_metadata" or not inspect.isfunction(M.decrypt_metadata) \
            or not inspect.isfunction(M.decrypt_packet) or M.decrypt_packet.__name__ != "decrypt_packet":
        raise py2leanu.Unsupported("c2.decrypt_metadata / c2.decrypt_packet are not plain functions")
    # `decrypt_metadata`: the definition of Gen/PyC2M.lean (translated by gen/py_c2m.py from the same function object)
    sg = py2leanu.Sig("Gen.PyC2M.decrypt_metadata", [("encrypted_metadata", None), ("private_key", None)], False, ["pkcs1_decrypt"])
    sg.files, sg.is_gen, sg.fobj, sg.stops, sg.mutates, sg.returns_self = [], False, None, False, False, False
    unit.sigs["decrypt_metadata"] = sg
    registry["%t07.pkcs1_decrypt"] = (None, "extern", ("pkcs1_decrypt", 3, []))
    # `decrypt_packet(packet, verify=…, **keys._asdict())`: external (Model/C07Gen.lean: the TYPED translation Gen.PyC2.decrypt_packet
    # applied to the fields of the keys object)
    dsig = inspect.signature(M.decrypt_packet)
    if list(dsig.parameters) != ["packet", "aes_key", "hmac_key", "iv", "verify"]:
        raise py2leanu.Unsupported(f"decrypt_packet{dsig}: parameters")
    registry["decrypt_packet"] = (M.decrypt_packet, "t07starfunc", ("decrypt_packet_star", 1, ["verify"]))
    registry["%t07.decrypt_packet_star"] = (None, "extern", ("decrypt_packet_star", 3, []))
    # the cstruct parses of the two packet layouts: external
    for nm, ext in (("CallbackPacket", "callback_packet"), ("TaskPacket", "task_packet")):
        if getattr(M, nm) is not getattr(CC, nm):
            raise py2leanu.Unsupported(f"c2.{nm} is not c_c2.{nm}")
        registry[nm] = (getattr(CC, nm), "extern", (ext, 1, []))
    # `c2data.iter_encrypted_packets()`: an external generator method (of ClientC2Data / ServerC2Data), run to its end
    for c in (M.ClientC2Data, M.ServerC2Data):
        if not inspect.isgeneratorfunction(c.__dict__.get("iter_encrypted_packets")):
            raise py2leanu.Unsupported(f"{c.__name__}.iter_encrypted_packets is not a generator method")
    unit.t07_genmethods = {"iter_encrypted_packets": "iter_encrypted_packets"}
    registry["%t07.iter_encrypted_packets"] = (None, "extern", ("iter_encrypted_packets", 1, []))
    # `transform.recover(http)`: the method of Gen/PyC2T.lean
    rsig = inspect.signature(hdt.recover)
    if list(rsig.parameters) != ["self", "http"]:
        raise py2leanu.Unsupported(f"HttpDataTransform.recover{rsig}: parameters")
    unit.t07_methods = {"recover": (HDT_CID_TERM, "Gen.PyC2T.recover", ["b64decode", "urlsafe_b64decode"], 1, True)}
    registry["%t07.b64decode"] = (None, "extern", ("b64decode", 1, []))
    registry["%t07.urlsafe_b64decode"] = (None, "extern", ("urlsafe_b64decode", 1, []))
    unit.t07_self_methods = {"get_transform_for_http": "get_transform_for_http"}
    unit.t07_inout = {"iter_recover_http": ["self"]}
    fn = cls.__dict__.get("iter_recover_http")
    if not inspect.isgeneratorfunction(fn):
        raise py2leanu.Unsupported("C2Http.iter_recover_http is not a generator method")
    unit.translate(fn)
    names = ["BeaconKeys", "C2Http"] + unit.names
    return "PyC2H.lean", unit.render("c2.py: C2Http.__init__ / get_transform_for_http / iter_recover_http (C07), translated by the untyped translator"), names


if __name__ == "__main__":
    sys.path.insert(0, sys.argv[1] if len(sys.argv) > 1 else "/repo")
    print(generate(Path(sys.argv[1] if len(sys.argv) > 1 else "/repo"))[1])

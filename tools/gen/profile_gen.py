"""Translator plug-in for C13: the names `C2Profile.from_beacon_config` can put into a profile tree
->  lean/CsVerif/Gen/ProfileGen.lean   (namespace `Gen.ProfileGen`)

Nothing is copied by hand: every table is obtained from the *imported* package, by introspection (struct fields,
enum members, SETTING_TO_PRETTYFUNC, function defaults) and by walking the `ast` of the functions that build the
tree (`from_beacon_config`, `DataTransformBlock.__init__`, `parse_transform_binary`, `parse_recover_binary`,
`beacon_gate_options_string`, `BeaconGateBlock.from_beacon_gate_option_strings`).  A construct the walker does not
understand raises `ProfileGenError` (-> proof obligation broken), it is never skipped.

Tables (all texts as lists of code points, `T = List Nat`)
  chain            List (Nat × Bool)        the if/elif chain of the settings loop: (setting value, guarded by `and value`)
  options          List (Nat × T)           profile.set_option(<kw>, …): (setting, OPTION token text)
  stmts            List (Nat × List T × T × Nat)
                                            every statement `Tree(label, k × string)` the generator can append:
                                            (setting, path of block labels from the root, label, number of STRING children)
  blocks           List (List T)            every block path the generator can create (prefix closed, root excluded)
  finalBlocks      List (List T)            the set_non_empty_config_block calls after the loop, in call order (full paths)
  dtBlocks         List (Nat × List T)      block paths whose only child is a `data_transform` tree, per setting
  dtFlagSteps, dtArgSteps, dtFlagTerminations, dtArgTerminations : List T
                                            labels DataTransformBlock can put under `steps` / `termination`
  dtFlagStepOptions, dtTerminationOptions   the literal tuples of DataTransformBlock.__init__ (before `-` -> `_`)
  requestEnable, requestArg, requestStatic  List (Nat × T)  TransformStep members (value, name) by class in parse_transform_binary
  recoverFlags, recoverLens                 List (Nat × T)  (TransformStep value, emitted name) in parse_recover_binary
  buildNames       List (Nat × T)           (setting, BUILD argument) pairs the pretty functions can produce
  executeEnable    List (T × T)             accepted execute item -> label;   executeSpecial : List (T × T)
  gateNames        List (T × T)             string produced by beacon_gate_options_string -> label (lower-cased)
  gateGroups       List T                   the group names among them
  literalValues    List (Nat × T)           string constants passed as VALUE to set_option ("true", "false", allocator names)
  listProps        List (List T)            `list_props` of C2Profile.as_dict, each key split at the dots
"""
from __future__ import annotations

import ast
import functools
import importlib
import inspect
import sys
import textwrap
from pathlib import Path


class ProfileGenError(Exception):
    pass


def _fn_ast(fn):
    src = textwrap.dedent(inspect.getsource(fn))
    mod = ast.parse(src)
    if len(mod.body) != 1 or not isinstance(mod.body[0], ast.FunctionDef):
        raise ProfileGenError(f"cannot isolate the definition of {fn!r}")
    return mod.body[0]


def _const_str(node, what):
    if isinstance(node, ast.Constant) and isinstance(node.value, str):
        return node.value
    raise ProfileGenError(f"{what}: expected a string literal, found {ast.dump(node)[:80]}")


def _flatten_chain(node, allow_else=False):
    """if/elif/elif… -> [(test, body)]; a final `else` is an error unless `allow_else`."""
    out = []
    while True:
        out.append((node.test, node.body))
        if not node.orelse:
            return out
        if len(node.orelse) == 1 and isinstance(node.orelse[0], ast.If):
            node = node.orelse[0]
        elif allow_else:
            return out
        else:
            raise ProfileGenError("the settings chain ends with an `else` branch")


LOWER_REPLACE = "Call(func=Attribute(value=Call(func=Attribute(value=Name(id='item', ctx=Load()), attr='lower', ctx=Load())), attr='replace', ctx=Load()), args=[Constant(value='-'), Constant(value='_')])"
LOWER_ONLY = "Call(func=Attribute(value=Name(id='option', ctx=Load()), attr='lower', ctx=Load()))"


def _dump(node):
    d = ast.dump(node)
    return d.replace(", keywords=[]", "").replace(", args=[])", ")")


def analyse(P, B):
    """returns a dict of python tables (also used by tools/harness/c13.py)"""
    BS = B.BeaconSetting
    fn = _fn_ast(P.C2Profile.from_beacon_config.__func__)

    # ---- block variables -------------------------------------------------------------------------------
    var_class = {}
    loop = None
    tail = []
    for st in fn.body:
        if isinstance(st, ast.Expr) and isinstance(st.value, ast.Constant):
            continue  # docstring
        if isinstance(st, ast.Assign) and len(st.targets) == 1 and isinstance(st.targets[0], ast.Name) and isinstance(st.value, ast.Call) \
                and isinstance(st.value.func, ast.Name) and not st.value.args and not st.value.keywords and loop is None:
            var_class[st.targets[0].id] = st.value.func.id
            continue
        if isinstance(st, ast.AnnAssign) and isinstance(st.target, ast.Name) and st.target.id == "c2_recover" and loop is None:
            if not (isinstance(st.value, ast.List) and not st.value.elts):
                raise ProfileGenError("c2_recover is not initialised with []")
            continue
        if isinstance(st, ast.For) and loop is None:
            loop = st
            continue
        if loop is not None:
            tail.append(st)
            continue
        raise ProfileGenError(f"unexpected statement before the settings loop: {ast.unparse(st)[:80]}")
    if loop is None:
        raise ProfileGenError("settings loop not found")
    if ast.unparse(loop.target) != "(setting, value)" or ast.unparse(loop.iter) != "config.settings_by_index.items()":
        raise ProfileGenError("the settings loop no longer iterates `for setting, value in config.settings_by_index.items()`")
    if var_class.get("profile") != "cls":
        raise ProfileGenError("profile is not created by cls()")

    # ---- the statements after the loop: how block variables are attached ---------------------------------
    attach = {}          # var -> (parent var, label)
    final_order = []     # (parent var, label, child var or None)
    server_output = None
    if not tail or not isinstance(tail[-1], ast.Return) or ast.unparse(tail[-1]) != "return profile":
        raise ProfileGenError("from_beacon_config does not end with `return profile`")
    for st in tail[:-1]:
        calls = []
        if isinstance(st, ast.If):
            if ast.unparse(st.test) != "c2_recover" or st.orelse or len(st.body) != 1 or not isinstance(st.body[0], ast.Expr):
                raise ProfileGenError("unexpected conditional after the settings loop")
            calls.append((st.body[0].value, True))
        elif isinstance(st, ast.Expr):
            calls.append((st.value, False))
        else:
            raise ProfileGenError(f"unexpected statement after the settings loop: {ast.unparse(st)[:80]}")
        for call, cond in calls:
            if not (isinstance(call, ast.Call) and isinstance(call.func, ast.Attribute) and isinstance(call.func.value, ast.Name)
                    and call.func.attr == "set_non_empty_config_block" and len(call.args) == 2 and not call.keywords):
                raise ProfileGenError(f"unexpected call after the settings loop: {ast.unparse(call)[:80]}")
            parent = call.func.value.id
            label = _const_str(call.args[0], "set_non_empty_config_block")
            child = call.args[1]
            if isinstance(child, ast.Name):
                if cond:
                    raise ProfileGenError("conditional attachment of a block variable")
                attach[child.id] = (parent, label)
                final_order.append((parent, label, child.id))
            else:
                if ast.unparse(child) != "HttpOptionsBlock(output=DataTransformBlock(steps=c2_recover))" or not cond:
                    raise ProfileGenError(f"unexpected block expression {ast.unparse(child)[:80]}")
                server_output = (parent, label, "output")
                final_order.append((parent, label, None))
    if server_output is None:
        raise ProfileGenError("the http-get server output block is no longer generated")

    def path_of(var, local=None):
        if local and var in local:
            return local[var]
        if var == "profile":
            return []
        if var not in attach:
            raise ProfileGenError(f"block variable {var} is never attached to the profile")
        parent, label = attach[var]
        return path_of(parent) + [label]

    # the class kwarg route (`HttpOptionsBlock(output=…)`) relies on ConfigBlock.init_kwargs -> set_config_block
    if getattr(P.HttpOptionsBlock, "output", None) is not None:
        raise ProfileGenError("HttpOptionsBlock.output is now an attribute: init_kwargs no longer calls set_config_block")

    # ---- the chain -----------------------------------------------------------------------------------------
    body = [s for s in loop.body if not (isinstance(s, ast.Expr) and ast.unparse(s).startswith("logger."))]
    # optional preamble (fix 1fcf339): `if isinstance(value, str): value = value.encode("latin-1")` -- text settings reach
    # value_to_string as bytes.  Reported as the table `strValuesEncoded`; any other preamble is not understood.
    str_encoded = False
    if len(body) == 2 and isinstance(body[0], ast.If):
        pre = body[0]
        if (ast.unparse(pre.test) == "isinstance(value, str)" and not pre.orelse and len(pre.body) == 1
                and ast.unparse(pre.body[0]) == "value = value.encode('latin-1')"):
            str_encoded = True
            body = body[1:]
        else:
            raise ProfileGenError(f"unexpected statement before the if/elif chain: {ast.unparse(pre)[:80]}")
    if len(body) != 1 or not isinstance(body[0], ast.If):
        raise ProfileGenError("the settings loop body is not a single if/elif chain")
    chain, options, stmts, dt_blocks, literal_values = [], [], [], [], []
    blocks = set()
    exec_enable, exec_special = None, []
    gate_setting = None
    uris_branch = False
    exec_val_encoded = False
    for test, br in _flatten_chain(body[0]):
        guarded = False
        cmp_ = test
        if isinstance(test, ast.BoolOp):
            if not (isinstance(test.op, ast.And) and len(test.values) == 2 and ast.unparse(test.values[1]) == "value"):
                raise ProfileGenError(f"unexpected chain condition {ast.unparse(test)}")
            guarded, cmp_ = True, test.values[0]
        if not (isinstance(cmp_, ast.Compare) and ast.unparse(cmp_.left) == "setting" and len(cmp_.ops) == 1 and isinstance(cmp_.ops[0], ast.Eq)
                and isinstance(cmp_.comparators[0], ast.Attribute) and ast.unparse(cmp_.comparators[0].value) == "BeaconSetting"):
            raise ProfileGenError(f"unexpected chain condition {ast.unparse(test)}")
        member = cmp_.comparators[0].attr
        if member not in BS.__members__:
            raise ProfileGenError(f"BeaconSetting has no member {member}")
        sval = int(BS[member].value)
        if any(sval == c[0] for c in chain):
            raise ProfileGenError(f"setting value {sval} is tested twice in the chain")
        chain.append((sval, guarded))
        if member == "SETTING_DOMAINS":
            src_br = ast.unparse(ast.Module(body=br, type_ignores=[]))
            want = ("uris = ', '.join((uri for uri in config.uris if uri is not None))\n"
                    "if uris:\n    http_get.set_option('uri', uris.encode('latin-1'))")
            if src_br != want:
                raise ProfileGenError(f"SETTING_DOMAINS branch is not the modelled one: {src_br[:160]!r}")
            uris_branch = True
        local = {}      # block variables created inside the branch -> path (filled when attached)
        local_cls = {}
        pending = []    # (var, call kind, label, arity, value node)
        for node in ast.walk(ast.Module(body=br, type_ignores=[])):
            if isinstance(node, ast.Assign) and len(node.targets) == 1 and isinstance(node.targets[0], ast.Name) and isinstance(node.value, ast.Call):
                f = node.value.func
                if isinstance(f, ast.Name) and f.id.endswith("Block"):
                    local_cls[node.targets[0].id] = f.id
                elif isinstance(f, ast.Attribute) and ast.unparse(f) == "BeaconGateBlock.from_beacon_gate_option_strings":
                    local_cls[node.targets[0].id] = "BeaconGateBlock"
                    gate_setting = sval
        for node in ast.walk(ast.Module(body=br, type_ignores=[])):
            if not (isinstance(node, ast.Call) and isinstance(node.func, ast.Attribute) and isinstance(node.func.value, ast.Name)):
                continue
            var, meth = node.func.value.id, node.func.attr
            if var not in var_class and var not in local_cls:
                continue
            if meth == "set_config_block":
                label_node, child = node.args
                if isinstance(child, ast.Name) and child.id in local_cls:
                    local[child.id] = path_of(var) + [_const_str(label_node, "set_config_block")]
                    blocks.add(tuple(local[child.id]))
                elif ast.unparse(child) == "DataTransformBlock(steps=steps)" and ast.unparse(label_node) == "block":
                    dt_blocks.append((sval, path_of(var)))      # label = the BUILD argument (dynamic)
                else:
                    raise ProfileGenError(f"unexpected set_config_block call {ast.unparse(node)[:80]}")
            elif meth == "set_option":
                pending.append((var, _const_str(node.args[0], "set_option"), 1, node.args[1]))
            elif meth == "_pair":
                pending.append((var, _const_str(node.args[0], "_pair"), 2, None))
            elif meth == "_enable":
                if var_class.get(var, local_cls.get(var)) != "ExecuteOptionsBlock" or _dump(node.args[0]) != LOWER_REPLACE:
                    raise ProfileGenError(f"unexpected _enable call {ast.unparse(node)[:80]}")
            elif meth in ("append",):
                continue
            else:
                raise ProfileGenError(f"unexpected block method {meth} in the chain")
        for var, label, arity, valnode in pending:
            if var == "profile":
                if arity != 1:
                    raise ProfileGenError("profile._pair is not modelled")
                options.append((sval, label))
            else:
                stmts.append((sval, path_of(var, local), label, arity))
            if valnode is not None and isinstance(valnode, (ast.Constant, ast.IfExp)):
                for c in ast.walk(valnode):
                    if isinstance(c, ast.Constant) and isinstance(c.value, str):
                        literal_values.append((sval, c.value))
        # execute names
        if any(cls == "ExecuteOptionsBlock" for cls in local_cls.values()):
            lists = [n for n in ast.walk(ast.Module(body=br, type_ignores=[])) if isinstance(n, ast.Compare) and len(n.ops) == 1
                     and isinstance(n.ops[0], ast.In) and isinstance(n.comparators[0], ast.List)]
            if len(lists) != 1 or ast.unparse(lists[0].left) != "item":
                raise ProfileGenError("execute branch: expected exactly one `item in [...]` test")
            exec_enable = [_const_str(e, "execute item list") for e in lists[0].comparators[0].elts]
            evar = next(v for v, c in local_cls.items() if c == "ExecuteOptionsBlock")
            for n in ast.walk(ast.Module(body=br, type_ignores=[])):
                if isinstance(n, ast.If) and isinstance(n.test, ast.Compare) and ast.unparse(n.test.left) == "option":
                    opt = _const_str(n.test.comparators[0], "execute special option")
                    if len(n.body) != 1 or not isinstance(n.body[0], ast.Expr):
                        raise ProfileGenError("execute branch: unexpected body of an `option ==` test")
                    c = n.body[0].value
                    if not (isinstance(c, ast.Call) and ast.unparse(c.func) == f"{evar}.set_option" and ast.unparse(c.args[1]) == "val"):
                        raise ProfileGenError("execute branch: unexpected body of an `option ==` test")
                    exec_special.append((opt, _const_str(c.args[0], "set_option")))
            src = ast.unparse(ast.Module(body=br, type_ignores=[]))
            for needle in ("if ' ' in item", "item.partition(' ')"):
                if needle not in src:
                    raise ProfileGenError(f"execute branch: `{needle}` not found")
            # fix 9ae0a64: the quoted part of a special item is handed to value_to_string as bytes (UTF-8, the inverse of
            # parse_execute_list's decode).  Exactly one plain assignment to `val`, exactly this text; anything else is not modelled.
            val_assigns = [ast.unparse(n) for n in ast.walk(ast.Module(body=br, type_ignores=[]))
                           if isinstance(n, ast.Assign) and len(n.targets) == 1 and ast.unparse(n.targets[0]) == "val"]
            if val_assigns != ["val = val[1:-1].encode()"]:
                raise ProfileGenError(f"execute branch: the special value is not `val = val[1:-1].encode()`: {val_assigns!r}")
            exec_val_encoded = True
    if exec_enable is None:
        raise ProfileGenError("execute branch not found")
    if gate_setting is None:
        raise ProfileGenError("BeaconGate branch not found")

    # blocks: prefix closure of every path that occurs
    for _, path, _, _ in stmts:
        for i in range(1, len(path) + 1):
            blocks.add(tuple(path[:i]))
    for _, path in dt_blocks:
        for i in range(1, len(path) + 1):
            blocks.add(tuple(path[:i]))
    final_paths = []
    for parent, label, _child in final_order:
        final_paths.append(path_of(parent) + [label])
        blocks.add(tuple(final_paths[-1]))
    so_path = path_of(server_output[0]) + [server_output[1], server_output[2]]
    blocks.add(tuple(so_path))
    recover_setting = int(BS.SETTING_C2_RECOVER.value)
    dt_blocks_all = [(s, p) for s, p in dt_blocks]

    # ---- BUILD arguments ---------------------------------------------------------------------------------------
    build_names = []
    ptb = B.parse_transform_binary
    ptb_ast = _fn_ast(ptb)
    bm = [n for n in ast.walk(ptb_ast) if isinstance(n, ast.Assign) and ast.unparse(n.targets[0]) == "BUILD_MAP"]
    if len(bm) != 1 or not isinstance(bm[0].value, ast.Dict):
        raise ProfileGenError("BUILD_MAP not found in parse_transform_binary")
    fixed = []
    uses_param = False
    for k, v in zip(bm[0].value.keys, bm[0].value.values):
        if isinstance(v, ast.Name) and v.id == "build":
            uses_param = True
        else:
            fixed.append(_const_str(v, "BUILD_MAP value"))
    for s, path in dt_blocks:
        fn_ = B.SETTING_TO_PRETTYFUNC.get(BS(s))
        if isinstance(fn_, functools.partial):
            if fn_.func is not ptb or fn_.args or set(fn_.keywords) - {"build"}:
                raise ProfileGenError(f"unexpected pretty function for setting {s}")
            bname = fn_.keywords.get("build", inspect.signature(ptb).parameters["build"].default)
        elif fn_ is ptb:
            bname = inspect.signature(ptb).parameters["build"].default
        else:
            raise ProfileGenError(f"setting {s} is not decoded by parse_transform_binary")
        names = ([bname] if uses_param else []) + fixed
        for n in names:
            if not isinstance(n, str):
                raise ProfileGenError("BUILD argument is not a string")
            build_names.append((s, n))
            blocks.add(tuple(path + [n]))

    # ---- TransformStep classes of parse_transform_binary -------------------------------------------------------
    TS = B.TransformStep

    def ts_list(name):
        a = [n for n in ast.walk(ptb_ast) if isinstance(n, ast.Assign) and ast.unparse(n.targets[0]) == name]
        if len(a) != 1 or not isinstance(a[0].value, ast.List):
            raise ProfileGenError(f"{name} not found in parse_transform_binary")
        out = []
        for e in a[0].value.elts:
            if not (isinstance(e, ast.Attribute) and ast.unparse(e.value) == "TransformStep" and e.attr in TS.__members__):
                raise ProfileGenError(f"{name}: unexpected element {ast.unparse(e)}")
            out.append((int(TS[e.attr].value), TS(int(TS[e.attr].value)).name))
        return out
    enable = ts_list("ENABLE_STEPS")
    argst = ts_list("ARGUMENT_STEPS")
    # the chain's own classification of request steps
    fsrc = ast.unparse(fn)
    for needle in ("k in ('_HEADER', '_HOSTHEADER')", "k == '_PARAMETER'", "k == 'BUILD'", "v.partition(b': ')", "v.partition(b'=')", "k.lower()"):
        if fsrc.count(needle) < 2:
            raise ProfileGenError(f"request/postreq branches: `{needle}` not found twice")
    static = [(v, n) for v, n in argst if n in ("_HEADER", "_HOSTHEADER", "_PARAMETER")]
    arg_dyn = [(v, n) for v, n in argst if n not in ("_HEADER", "_HOSTHEADER", "_PARAMETER")]
    if len(static) != 3:
        raise ProfileGenError("static header/parameter steps are no longer argument steps")

    # ---- recover names ---------------------------------------------------------------------------------------------
    prb_ast = _fn_ast(B.parse_recover_binary)
    rec_flags, rec_lens = [], []
    for test, br in _flatten_chain(next(n for n in ast.walk(prb_ast) if isinstance(n, ast.If) and "TransformStep" in ast.unparse(n.test)), allow_else=True):
        if ast.unparse(test) == "step == 0":
            continue
        if not (isinstance(test, ast.Compare) and ast.unparse(test.left) == "step" and isinstance(test.comparators[0], ast.Attribute)):
            raise ProfileGenError(f"parse_recover_binary: unexpected test {ast.unparse(test)}")
        sv = int(TS[test.comparators[0].attr].value)
        app = [n for n in ast.walk(ast.Module(body=br, type_ignores=[])) if isinstance(n, ast.Call) and ast.unparse(n.func) == "rsteps.append"]
        if len(app) != 1 or not isinstance(app[0].args[0], ast.Tuple) or len(app[0].args[0].elts) != 2:
            raise ProfileGenError("parse_recover_binary: unexpected append")
        nm = _const_str(app[0].args[0].elts[0], "recover step name")
        second = app[0].args[0].elts[1]
        if isinstance(second, ast.Constant) and second.value is True:
            rec_flags.append((sv, nm))
        elif isinstance(second, ast.Name) and second.id == "length":
            rec_lens.append((sv, nm))
        else:
            raise ProfileGenError("parse_recover_binary: unexpected step argument")

    # ---- DataTransformBlock.__init__ ----------------------------------------------------------------------------------
    dtb = _fn_ast(P.DataTransformBlock.__init__)
    loops = [n for n in dtb.body if isinstance(n, ast.For)]
    if len(loops) != 1 or not isinstance(loops[0].body[0], ast.If) or len(loops[0].body) != 1:
        raise ProfileGenError("DataTransformBlock.__init__: unexpected loop")
    ch = _flatten_chain(loops[0].body[0])
    if len(ch) != 3:
        raise ProfileGenError("DataTransformBlock.__init__: expected three branches")

    def in_tuple(test):
        if not (isinstance(test, ast.Compare) and isinstance(test.ops[0], ast.In) and isinstance(test.comparators[0], ast.Tuple)):
            raise ProfileGenError(f"DataTransformBlock.__init__: unexpected test {ast.unparse(test)}")
        return [_const_str(e, "DataTransformBlock tuple") for e in test.comparators[0].elts]
    flag_steps = in_tuple(ch[0][0])
    if ast.unparse(ch[0][1][0]) != "self.add_step(option, None)":
        raise ProfileGenError("DataTransformBlock.__init__: first branch is not add_step(option, None)")
    term_opts = in_tuple(ch[1][0])
    if ast.unparse(ch[1][1][0]) != "self.add_termination(option.replace('-', '_'), None)":
        raise ProfileGenError("DataTransformBlock.__init__: second branch is not add_termination(option.replace('-','_'), None)")
    if ast.unparse(ch[2][0]) != "len(option) == 2":
        raise ProfileGenError("DataTransformBlock.__init__: third test is not len(option) == 2")
    inner = [n for n in ch[2][1] if isinstance(n, ast.If)]
    if len(inner) != 1 or ast.unparse(inner[0].body[0]) != "self.add_termination(option, value)" or ast.unparse(inner[0].orelse[0]) != "self.add_step(option, value)":
        raise ProfileGenError("DataTransformBlock.__init__: unexpected third branch")
    arg_terms = in_tuple(inner[0].test)
    flag_terms = sorted({o.replace("-", "_") for o in term_opts})
    # labels that can reach add_step with a value: lower-cased dynamic argument steps and recover length steps that are no terminations
    arg_steps = sorted({n.lower() for _, n in arg_dyn if n.lower() not in arg_terms} | {n for _, n in rec_lens if n not in arg_terms})
    # every step name must be classified
    for _, n in enable:
        if n.lower() not in flag_steps and n.lower() not in term_opts:
            raise ProfileGenError(f"transform step {n} is dropped by DataTransformBlock")
    for _, n in rec_flags:
        if n not in flag_steps and n not in term_opts:
            raise ProfileGenError(f"recover step {n} is dropped by DataTransformBlock")

    # ---- BeaconGate -------------------------------------------------------------------------------------------------------
    g = _fn_ast(P.BeaconGateBlock.from_beacon_gate_option_strings.__func__)
    en = [n for n in ast.walk(g) if isinstance(n, ast.Call) and ast.unparse(n.func) == "block._enable"]
    if len(en) != 1 or _dump(en[0].args[0]) != LOWER_ONLY:
        raise ProfileGenError("BeaconGateBlock.from_beacon_gate_option_strings no longer enables option.lower()")
    gfields = list(B.BeaconGateOptions.fields)
    gs = _fn_ast(B.beacon_gate_options_string)
    groups = []
    for n in ast.walk(gs):
        if isinstance(n, ast.Call) and ast.unparse(n.func) == "ret.append":
            groups.append(_const_str(n.args[0], "ret.append"))
        elif isinstance(n, ast.Call) and ast.unparse(n.func) == "ret.extend":
            if ast.unparse(n.args[0]) != "options":
                raise ProfileGenError("beacon_gate_options_string: unexpected ret.extend")
    for nm in gfields + groups:
        if not nm.isascii():
            raise ProfileGenError("non-ASCII BeaconGate name")
    gate_path = None
    for s, path, label, ar in []:
        pass
    gate_names = [(nm, nm.lower()) for nm in groups + gfields]
    # where the gate block hangs: the local BeaconGateBlock variable's path
    gate_block = [p for p in blocks if p and p[-1] == "beacon_gate"]
    if len(gate_block) != 1:
        raise ProfileGenError("beacon_gate block path not found")

    # ---- as_dict: list_props ---------------------------------------------------------------------------------------------
    ad = _fn_ast(P.C2Profile.as_dict)
    lp = [n for n in ast.walk(ad) if isinstance(n, ast.Assign) and ast.unparse(n.targets[0]) == "list_props"]
    if len(lp) != 1 or not isinstance(lp[0].value, ast.List):
        raise ProfileGenError("list_props not found in as_dict")
    list_props = [_const_str(e, "list_props").split(".") for e in lp[0].value.elts]

    return {
        "listProps": list_props,
        "chain": chain,
        "options": options,
        "stmts": stmts,
        "blocks": sorted(blocks, key=lambda p: (len(p), p)),
        "finalBlocks": final_paths,
        "serverOutput": so_path,
        "recoverSetting": recover_setting,
        "dtBlocks": dt_blocks_all,
        "dtFlagSteps": flag_steps,
        "dtArgSteps": arg_steps,
        "dtFlagTerminations": flag_terms,
        "dtArgTerminations": arg_terms,
        "dtTerminationOptions": term_opts,
        "requestEnable": enable,
        "requestArg": arg_dyn,
        "requestStatic": static,
        "recoverFlags": rec_flags,
        "recoverLens": rec_lens,
        "buildNames": build_names,
        "executeEnable": [(e, e.lower().replace("-", "_")) for e in exec_enable],
        "executeSpecial": exec_special,
        "executePath": [list(p) for p in blocks if p and p[-1] == "execute"][0],
        "gateNames": gate_names,
        "gateGroups": groups,
        "gatePath": list(gate_block[0]),
        "gateSetting": gate_setting,
        "literalValues": literal_values,
        "strValuesEncoded": str_encoded,
        "urisBranch": uris_branch,
        "executeValEncoded": exec_val_encoded,
    }


def load(repo: Path | None = None):
    if repo is not None and str(repo) not in sys.path:
        sys.path.insert(0, str(repo))
    P = importlib.import_module("dissect.cobaltstrike.c2profile")
    B = importlib.import_module("dissect.cobaltstrike.beacon")
    return analyse(P, B)


# ------------------------------------------------------------------------------------------------------------------
# rendering
# ------------------------------------------------------------------------------------------------------------------

def _t(s: str) -> str:
    if not s.isascii():
        raise ProfileGenError(f"non-ASCII name {s!r}")
    return "[" + ", ".join(str(ord(c)) for c in s) + "]"


def _path(p) -> str:
    return "[" + ", ".join(_t(x) for x in p) + "]"


def _lines(items) -> str:
    """rows are `code` or `code -- comment`; the separating comma goes before the comment"""
    out = []
    for i, x in enumerate(items):
        code, sep, com = x.partition(" -- ")
        comma = "," if i + 1 < len(items) else ""
        out.append("  " + code + comma + ((" -- " + com) if sep else ""))
    return "\n".join(out)


def render(t) -> tuple[str, list]:
    tables = []
    out = ["/-! Names `C2Profile.from_beacon_config` can put into a profile tree (C13).  Texts are lists of code points. -/",
           "namespace Gen.ProfileGen", "", "abbrev T := List Nat", ""]

    def emit(name, typ, rows, doc):
        tables.append(name)
        out.append(f"/-- {doc} -/")
        if rows:
            out.append(f"def {name} : {typ} := [\n{_lines(rows)}\n]\n")
        else:
            out.append(f"def {name} : {typ} := []\n")

    emit("chain", "List (Nat × Bool)", [f"({s}, {'true' if g else 'false'})" for s, g in t["chain"]],
         "the if/elif chain of the settings loop: (setting value, guarded by `and value`), in source order")
    emit("options", "List (Nat × T)", [f"({s}, {_t(k)}) -- {k}" for s, k in t["options"]],
         "profile.set_option(kw, …): (setting, OPTION token text)")
    emit("stmts", "List (Nat × List T × T × Nat)",
         [f"({s}, {_path(p)}, {_t(l)}, {k}) -- {'.'.join(p)} : {l}/{k}" for s, p, l, k in t["stmts"]],
         "block.set_option / block._pair: (setting, block path, label, number of STRING children)")
    emit("blocks", "List (List T)", [f"{_path(p)} -- {'.'.join(p)}" for p in t["blocks"]],
         "every block path the generator can create (prefix closed)")
    emit("finalBlocks", "List (List T)", [f"{_path(p)} -- {'.'.join(p)}" for p in t["finalBlocks"]],
         "set_non_empty_config_block calls after the loop, in call order")
    tables.append("serverOutput")
    out.append("/-- `HttpOptionsBlock(output=DataTransformBlock(steps=c2_recover))` under http_get.server -/")
    out.append(f"def serverOutput : List T := {_path(t['serverOutput'])}\n")
    tables.append("recoverSetting")
    out.append(f"def recoverSetting : Nat := {t['recoverSetting']}\n")
    emit("dtBlocks", "List (Nat × List T)", [f"({s}, {_path(p)}) -- {'.'.join(p)}" for s, p in t["dtBlocks"]],
         "set_config_block(<BUILD argument>, DataTransformBlock(steps)): (setting, parent path)")
    for nm in ("dtFlagSteps", "dtArgSteps", "dtFlagTerminations", "dtArgTerminations", "dtTerminationOptions"):
        emit(nm, "List T", [f"{_t(x)} -- {x}" for x in t[nm]], f"DataTransformBlock: {nm}")
    for nm in ("requestEnable", "requestArg", "requestStatic", "recoverFlags", "recoverLens"):
        emit(nm, "List (Nat × T)", [f"({v}, {_t(n)}) -- {n}" for v, n in t[nm]], f"{nm}: (TransformStep value, name)")
    emit("buildNames", "List (Nat × T)", [f"({s}, {_t(n)}) -- {n}" for s, n in t["buildNames"]],
         "(setting, BUILD argument) pairs the pretty functions can produce")
    emit("executeEnable", "List (T × T)", [f"({_t(a)}, {_t(b)}) -- {a} -> {b}" for a, b in t["executeEnable"]],
         "execute items accepted by from_beacon_config -> tree label (lower, `-` -> `_`)")
    emit("executeSpecial", "List (T × T)", [f"({_t(a)}, {_t(b)}) -- {a} -> {b}" for a, b in t["executeSpecial"]],
         "execute items with an argument: option text -> tree label")
    tables.append("executePath")
    out.append(f"def executePath : List T := {_path(t['executePath'])}\n")
    emit("gateNames", "List (T × T)", [f"({_t(a)}, {_t(b)}) -- {a}" for a, b in t["gateNames"]],
         "strings beacon_gate_options_string can return (groups, then BeaconGateOptions fields) -> tree label")
    emit("gateGroups", "List T", [f"{_t(a)} -- {a}" for a in t["gateGroups"]], "group names among gateNames")
    tables.append("gatePath")
    out.append(f"def gatePath : List T := {_path(t['gatePath'])}\n")
    tables.append("gateSetting")
    out.append(f"def gateSetting : Nat := {t['gateSetting']}\n")
    emit("listProps", "List (List T)", [f"{_path(p)} -- {'.'.join(p)}" for p in t["listProps"]],
         "as_dict: list_props, split at the dots")
    emit("literalValues", "List (Nat × T)", [f"({s}, {_t(v)}) -- {v}" for s, v in t["literalValues"]],
         "string constants passed as value to set_option")
    tables.append("strValuesEncoded")
    out.append("/-- the loop starts with `if isinstance(value, str): value = value.encode('latin-1')` -/")
    out.append(f"def strValuesEncoded : Bool := {'true' if t['strValuesEncoded'] else 'false'}\n")
    tables.append("urisBranch")
    out.append("/-- the SETTING_DOMAINS branch joins the non-None URIs and sets `uri` (as bytes) only when the result is non-empty -/")
    out.append(f"def urisBranch : Bool := {'true' if t['urisBranch'] else 'false'}\n")
    tables.append("executeValEncoded")
    out.append("/-- the execute branch hands the quoted part of `CreateThread \"…\"` to value_to_string as `val[1:-1].encode()` (bytes) -/")
    out.append(f"def executeValEncoded : Bool := {'true' if t['executeValEncoded'] else 'false'}\n")
    out.append("end Gen.ProfileGen")
    return "\n".join(out) + "\n", tables


def generate(repo: Path):
    text, tables = render(load(repo))
    return "ProfileGen.lean", text, tables


if __name__ == "__main__":
    print(generate(Path(sys.argv[1] if len(sys.argv) > 1 else "/repo"))[1])

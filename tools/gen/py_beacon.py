"""Translator plug-in: the structured-settings decoders of dissect/cobaltstrike/beacon.py, translated statement by statement
from their *source* by the untyped translator (tools/py2leanu.py) → lean/CsVerif/Gen/PyBeacon.lean (namespace `Gen.PyBeacon`).

Props/C03Gen.lean proves each translated definition equal to the hand-written model of C03 for all `bytes` arguments (and
all sufficient fuel), so the C03 theorems about these decoders are theorems about the source text as it stands on every run.

Besides the functions, the file contains
  * one `PyU.EnumCls` descriptor per cstruct enum the functions mention: the member table is the GENERATED table of
    `Gen/Beacon.lean` (plug-in gen/beacon.py), size / byte order / unsignedness of the underlying type are probed here;
  * the typed translations `u16be`, `u32be`, `u32` of `Gen/PyUtils.lean` (the very `functools.partial` objects that
    beacon.py imports from utils.py), lifted to dynamic values.
"""
from __future__ import annotations

import functools
import importlib
import io
import logging
import sys
from pathlib import Path

FUNCS = ["null_terminated_bytes", "null_terminated_str", "parse_pivot_frame", "parse_process_injection_transform_steps",
         "parse_gargle", "parse_recover_binary", "parse_transform_binary", "parse_execute_list"]
ENUMS = {"TransformStep": "Gen.Beacon.transformStep", "InjectExecutor": "Gen.Beacon.injectExecutor"}
TYPED = ["u16be", "u32be", "u32"]


def _enum_descriptor(py2leanu, cls, cid: int, table: str) -> str:
    """probe the underlying integer type of a cstruct enum: size, byte order, unsigned, reads from the front of `bytes`"""
    size = cls.type.size
    if not isinstance(size, int) or not 1 <= size <= 8:
        raise py2leanu.Unsupported(f"enum {cls.__name__}: underlying type of size {size!r}")
    probe = bytes(range(1, size + 1))
    v = int(cls(probe).value)
    if v == int.from_bytes(probe, "big"):
        big = True
    elif v == int.from_bytes(probe, "little"):
        big = False
    else:
        raise py2leanu.Unsupported(f"enum {cls.__name__}: cannot determine the byte order")
    if size == 1:
        big = True
    if int(cls(b"\xff" * size).value) != 256 ** size - 1:
        raise py2leanu.Unsupported(f"enum {cls.__name__}: underlying type is not unsigned")
    if int(cls(probe + b"\x55\x66").value) != v:
        raise py2leanu.Unsupported(f"enum {cls.__name__}: a longer bytes argument is not read from the front")
    try:
        cls(probe[:-1])
        raise py2leanu.Unsupported(f"enum {cls.__name__}: short bytes argument does not raise")
    except EOFError:
        pass
    if cls(None).value != 0 or cls(7).value != 7 or cls(123456789).name is not None or cls(-3).value != -3:
        raise py2leanu.Unsupported(f"enum {cls.__name__}: Cls(None) / undefined values do not behave as modelled")
    return (f"/-- `{cls.__name__}` (cstruct enum over an unsigned {size}-byte {'big' if big else 'little'}-endian integer); members: `{table}` -/\n"
            f"def {cls.__name__} : PyU.EnumCls := {{ cid := {cid}, size := {size}, bigEndian := {'true' if big else 'false'}, members := {table} }}\n")


def generate(repo: Path):
    tools = str(Path(__file__).resolve().parent.parent)
    if tools not in sys.path:
        sys.path.insert(0, tools)
    import py2lean
    import py2leanu
    from gen import py_utils
    B = importlib.import_module("dissect.cobaltstrike.beacon")
    U = importlib.import_module("dissect.cobaltstrike.utils")

    registry = {"io.BytesIO": (io.BytesIO, "bytesio", None)}
    unit = py2leanu.Unit("Gen.PyBeacon", ["CsVerif.Gen.Beacon", "CsVerif.Gen.PyUtils"], registry)

    # cstruct enums
    for cid, (name, table) in enumerate(ENUMS.items()):
        cls = getattr(B, name)
        if cls.__name__ != name:
            raise py2leanu.Unsupported(f"beacon.{name} is now called {cls.__name__}")
        unit.prelude.append(_enum_descriptor(py2leanu, cls, cid, table))
        registry[name] = (cls, "enum", name)

    # the typed translations of utils.py that beacon.py calls: signatures (defaults) from the typed translator
    tu = py2lean.Unit("Gen.PyUtils")
    for f in py_utils.FUNCS:
        tu.translate(getattr(U, f))
    for p in py_utils.PARTIALS:
        obj = getattr(U, p)
        if not isinstance(obj, functools.partial):
            raise py2leanu.Unsupported(f"utils.{p} is no longer a functools.partial")
        tu.declare_partial(p, obj)
    for name in TYPED:
        sg = tu.sigs[name]
        if sg.externs or sg.ret != "Int" or not sg.params or sg.params[0][1] != "Bytes" or any(d is None for _, _, d in sg.params[1:]):
            raise py2leanu.Unsupported(f"utils.{name}: signature {sg.params} → {sg.ret} is not `bytes → int` with defaults")
        args = " ".join(d for _, _, d in sg.params[1:])
        shown = ", ".join(f"{p}={d}" for p, _, d in sg.params[1:])
        unit.prelude.append(f"/-- `utils.{name}` (typed translation `Gen.PyUtils.{sg.name}`; {shown}) on a dynamic value -/\n"
                            f"def {name} (data : V) : Py V := open PyRt in PyU.liftBytesInt (fun d => Gen.PyUtils.{sg.name} d {args}) data\n")
        registry[name] = (getattr(U, name), "func", (name, 1))

    # logging: `logger.error(...)` evaluates its arguments and has no effect on the result
    lg = getattr(B, "logger", None)
    if isinstance(lg, logging.Logger) and type(lg).error is logging.Logger.error:
        registry["logger.error"] = (lg.error, "noop", None)

    names = list(ENUMS) + TYPED
    for f in FUNCS:
        unit.translate(getattr(B, f))
    names += unit.names
    return "PyBeacon.lean", unit.render("beacon.py: the structured-settings decoders (C03), translated by the untyped translator"), names


if __name__ == "__main__":
    sys.path.insert(0, sys.argv[1] if len(sys.argv) > 1 else "/repo")
    print(generate(Path(sys.argv[1] if len(sys.argv) > 1 else "/repo"))[1])

"""Translator plug-in: dissect/cobaltstrike/guardrails.py `payload_checksum`, translated from its *source*
(tools/py2lean.py) → lean/CsVerif/Gen/PyGuard.lean (namespace `Gen.PyGuard`).
Props/C17Gen.lean proves the translated definition equal to `C17.payloadChecksum` for all inputs."""
from __future__ import annotations

import importlib
import sys
from pathlib import Path


def generate(repo: Path):
    tools = str(Path(__file__).resolve().parent.parent)
    if tools not in sys.path:
        sys.path.insert(0, tools)
    import py2lean
    G = importlib.import_module("dissect.cobaltstrike.guardrails")
    unit = py2lean.Unit("Gen.PyGuard")
    unit.translate(G.payload_checksum)
    return "PyGuard.lean", unit.render("guardrails.py: payload_checksum"), ["payload_checksum"]

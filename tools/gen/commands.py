"""Translator plug-in: BeaconCommand value -> canonical member name (c_c2.py), BeaconMetadata fixed length.

Everything is read by *introspection of the imported package*:
  * `commandNames`  : for every distinct member value v, `(v, BeaconCommand(v).name)` as code points, i.e. exactly what
                      `HttpBeaconClient.get_handlers` sees when it evaluates `BeaconCommand(command_id).name`
                      (for aliased values such as COMMAND_KEYLOG_START = COMMAND_NOOP = 6 this is the canonical, first
                      defined name);
  * `commandAliases`: `(alias name, value)` for members whose name is not the canonical one (never used by the lookup);
  * `metadataFixedLen`: `len(BeaconMetadata(info=b"").dumps())` (all fields except `info`).
"""
from __future__ import annotations

import enum
from pathlib import Path


def _txt(s: str) -> str:
    return "[" + ", ".join(str(ord(c)) for c in s) + "]"


def generate(repo: Path):
    from dissect.cobaltstrike import c_c2
    from dissect.cobaltstrike import client

    BC = client.BeaconCommand
    if not (isinstance(BC, type) and issubclass(BC, enum.IntEnum)):
        raise TypeError("client.BeaconCommand is not a stdlib IntEnum any more: the lookup `BeaconCommand(id).name` must be re-modelled")
    rows = []
    seen = set()
    for name, member in BC.__members__.items():
        v = int(member.value)
        if v in seen:
            continue
        seen.add(v)
        canon = BC(v).name
        if not isinstance(canon, str) or not canon.isascii():
            raise ValueError(f"member name {canon!r} is not an ASCII string")
        rows.append((v, canon))
    aliases = [(n, int(m.value)) for n, m in BC.__members__.items() if m.name != n]
    md = c_c2.BeaconMetadata(info=b"")
    fixed = len(md.dumps())
    lines = [
        "namespace Gen.Commands",
        "",
        "/-- `(v, BeaconCommand(v).name)` for every distinct value of the IntEnum `BeaconCommand`; names as code points. -/",
        "def commandNames : List (Int × List Nat) := [",
    ]
    for i, (v, n) in enumerate(rows):
        sep = "," if i + 1 < len(rows) else ""
        lines.append(f"  ({v}, {_txt(n)}){sep}  -- {n}")
    lines.append("]")
    lines.append("")
    lines.append("/-- alias member names (`BeaconCommand[alias].name` is the canonical name above). -/")
    lines.append("def commandAliases : List (List Nat × Int) := [")
    for i, (n, v) in enumerate(aliases):
        sep = "," if i + 1 < len(aliases) else ""
        lines.append(f"  ({_txt(n)}, {v}){sep}  -- {n} = {BC(v).name}")
    lines.append("]")
    lines.append("")
    lines.append("/-- `len(BeaconMetadata(info=b\"\").dumps())`: every field of the metadata structure except `info`. -/")
    lines.append(f"def metadataFixedLen : Nat := {fixed}")
    lines.append("")
    lines.append("end Gen.Commands")
    return "Commands.lean", "\n".join(lines) + "\n", ["commandNames", "commandAliases", "metadataFixedLen"]

#!/venv/bin/python
"""Entry point of every registered check:  tools/check.py <ID> --tier quick|thorough [--replay PATH]

One run =
  1. regenerate lean/CsVerif/Gen/*.lean from /repo's working tree          (tools/translate.py)
  2. `lake build` the property's theorem module + compiled model driver    (proof obligations)
  3. axiom audit (`#print axioms` of every theorem in Props/<ID>.lean) + forbidden-token grep
  4. correspondence: real library (in-process) vs Lean model driver on generated cases
  5. classification / failing-input search / replay / evidence

Exit codes: 0 = property held on everything explored, 1 = VIOLATION line printed,
2 = the machinery itself failed (never to be read as a violation).
"""
from __future__ import annotations

import argparse
import fcntl
import hashlib
import importlib
import json
import multiprocessing as mp
import os
import random
import re
import signal
import subprocess
import sys
import time
import traceback
from pathlib import Path

VERIF = Path(__file__).resolve().parent.parent
LEAN = VERIF / "lean"
REPO = Path(os.environ.get("VERIF_REPO", "/repo"))
sys.path.insert(0, str(VERIF / "tools"))
sys.path.insert(0, str(REPO))
os.environ.setdefault("FOX_IT_DISSECT_COBALTSTRIKE_VERIF", "1")

ALLOWED_AXIOMS = {"propext", "Classical.choice", "Quot.sound"}
FORBIDDEN = re.compile(r"\bsorry\b|\badmit\b|^axiom |native_decide|bv_decide|implemented_by|\bunsafe |maxHeartbeats 0", re.M)


class Timeout(Exception):
    pass


def _alarm(signum, frame):
    raise Timeout()


def canon_exc(e: BaseException) -> str:
    """Map a Python exception to the PyExc enum name used by the Lean models."""
    if isinstance(e, Timeout):
        return "Timeout"
    for cls, name in (
        (EOFError, "EOFError"),
        (IndexError, "IndexError"),
        (KeyError, "KeyError"),
        (OverflowError, "OverflowError"),
        (ValueError, "ValueError"),
        (OSError, "OSError"),
        (AttributeError, "AttributeError"),
        (TypeError, "TypeError"),
        (AssertionError, "AssertionError"),
        (RecursionError, "RecursionError"),
        (MemoryError, "MemoryError"),
    ):
        if isinstance(e, cls):
            return name
    return type(e).__name__


def call_impl(mod, stream: str, line: str, timeout: int = 30) -> str:
    """Run the real library on one case.  A watchdog turns a hang into `exc Timeout`; because the machine may be
    heavily loaded, a first timeout is retried once with a longer limit before it is believed."""
    for attempt, limit in enumerate((timeout, 4 * timeout)):
        signal.signal(signal.SIGALRM, _alarm)
        signal.alarm(limit)
        try:
            return mod.impl(stream, line)
        except Timeout:
            if attempt == 1:
                return "exc Timeout"
        except Exception as e:  # noqa: BLE001
            return "exc " + canon_exc(e)
        finally:
            signal.alarm(0)
    return "exc Timeout"


# --------------------------------------------------------------------------------------
# Lean side
# --------------------------------------------------------------------------------------

def strip_comments(src: str) -> str:
    src = re.sub(r"/-.*?-/", "", src, flags=re.S)
    return re.sub(r"--[^\n]*", "", src)


def lean_sources(pid: str, extra=()):
    """Files whose content the property's proofs and model driver depend on: the import closure (within CsVerif) of
    Props/<pid>.lean, the extra theorem files of the property and Driver/<pid>.lean.  (Another property's unfinished file is
    not this property's business; a `sorry` this property DOES depend on also shows up as `sorryAx` in the axiom audit.)"""
    roots = [LEAN / "CsVerif" / "Props" / f"{pid}.lean", LEAN / "CsVerif" / "Driver" / f"{pid}.lean"]
    roots += [LEAN / "CsVerif" / e for e in extra]
    seen, todo = {}, [r for r in roots if r.exists()]
    while todo:
        f = todo.pop()
        if f in seen:
            continue
        seen[f] = True
        try:
            txt = f.read_text()
        except OSError:
            continue
        for m in re.finditer(r"^import\s+CsVerif\.([\w.]+)", txt, flags=re.M):
            g = LEAN / "CsVerif" / (m.group(1).replace(".", "/") + ".lean")
            if g.exists() and g not in seen:
                todo.append(g)
    return sorted(seen)


def theorems_in(path: Path):
    if not path.exists():
        return []
    src = strip_comments(path.read_text())
    ns = re.findall(r"^namespace\s+(\S+)", src, flags=re.M)
    prefix = (ns[0] + ".") if ns else ""
    return [prefix + m for m in re.findall(r"^theorem\s+([A-Za-z_][\w'.]*)", src, flags=re.M)]


def anchored_files(pid: str):
    for line in (VERIF / "properties.jsonl").read_text().splitlines():
        if line.strip():
            p = json.loads(line)
            if p["id"] == pid:
                return list(p["anchors"]["files"])
    return []


def source_fingerprint(pid: str) -> dict:
    """file -> hash of its normalised content (python: AST dump without docstrings/comments/layout; other files: bytes).
    Used for *scheduling only*: when an anchored file differs from the fingerprint recorded for the tree the checks were
    last validated on (tools/fingerprints.json), the quick tier explores more (never an alarm by itself)."""
    import ast
    out = {}
    for rel in anchored_files(pid):
        f = REPO / rel
        try:
            raw = f.read_bytes()
            if rel.endswith(".py"):
                tree = ast.parse(raw)
                for node in ast.walk(tree):
                    body = getattr(node, "body", None)
                    if isinstance(body, list) and body and isinstance(body[0], ast.Expr) and isinstance(body[0].value, ast.Constant) \
                            and isinstance(body[0].value.value, str):
                        body.pop(0)
                raw = ast.dump(tree, include_attributes=False).encode()
            out[rel] = hashlib.blake2b(raw, digest_size=12).hexdigest()
        except Exception as e:  # noqa: BLE001
            out[rel] = f"unreadable:{type(e).__name__}"
    return out


def recorded_fingerprints() -> dict:
    try:
        return json.loads((VERIF / "tools" / "fingerprints.json").read_text())
    except Exception:  # noqa: BLE001
        return {}


class LakeLock:
    """Exclusive lock over translate + build + audit (Gen/*.lean and .lake/build are shared state)."""

    def __enter__(self):
        self.fh = open(LEAN / ".lake.lock", "w")
        fcntl.flock(self.fh, fcntl.LOCK_EX)
        return self

    def __exit__(self, *a):
        fcntl.flock(self.fh, fcntl.LOCK_UN)
        self.fh.close()


def run_lake(targets, log):
    p = subprocess.run(["lake", "build", *targets], cwd=LEAN, capture_output=True, text=True)
    log.append(p.stdout[-8000:] + p.stderr[-4000:])
    return p.returncode == 0, p.stdout + p.stderr


def lean_phase(mod, tier: str):
    with LakeLock():
        res = _lean_phase(mod, tier)
        # private copy of the model driver: a concurrent run (other property / other VERIF_REPO) may rebuild it
        if res["driver_ok"]:
            import shutil
            rundir = LEAN / ".lake" / "run"
            rundir.mkdir(parents=True, exist_ok=True)
            dst = rundir / f"{mod.DRIVER}.{os.getpid()}"
            shutil.copy2(LEAN / ".lake" / "build" / "bin" / mod.DRIVER, dst)
            os.environ["VERIF_DRIVER_EXE"] = str(dst)
        if REPO != Path("/repo"):
            # an experiment on another checkout: put the generated tables back to what /repo says before the lock is released,
            # so that nobody else building in lean/ ever sees tables of the scratch tree (a fresh interpreter: this one has the
            # scratch checkout's modules imported)
            try:
                env = {k: v for k, v in os.environ.items() if k != "VERIF_REPO"}
                subprocess.run([sys.executable, str(VERIF / "tools" / "translate.py"), "/repo"], env=env, capture_output=True, timeout=300)
            except Exception:  # noqa: BLE001
                pass
        return res


def _lean_phase(mod, tier: str):
    """Return dict(ok, obligations, discharged, broken=[...], driver_ok, axioms)"""
    pid = mod.ID
    res = {"ok": True, "broken": [], "driver_ok": True, "axioms": {}, "log": []}
    # 1. translate
    import translate
    deps = list(getattr(mod, "GEN", []))
    gen_errors = {}
    gen_obl = translate.run(REPO, LEAN / "CsVerif" / "Gen", gen_errors)
    res["generated_tables"] = [t for t in gen_obl if t.split(":")[0] in deps]
    for stem, err in gen_errors.items():
        if stem in deps:
            res["ok"] = False
            res["broken"].append(f"translator plug-in gen/{stem}.py cannot translate the source: {err}")
    props = LEAN / "CsVerif" / "Props" / f"{pid}.lean"
    thms = theorems_in(props)
    for extra in getattr(mod, "EXTRA_PROP_FILES", []):
        thms += theorems_in(LEAN / "CsVerif" / extra)
    res["theorems"] = thms
    # audit file (generated; lists every theorem so none can be forgotten)
    audit = LEAN / "CsVerif" / "Audit" / f"{pid}.lean"
    audit.parent.mkdir(exist_ok=True)
    imports = [f"CsVerif.Props.{pid}"] + [
        "CsVerif." + e.replace("/", ".").removesuffix(".lean") for e in getattr(mod, "EXTRA_PROP_FILES", [])
    ]
    body = "".join(f"import {i}\n" for i in imports) + "".join(f"#print axioms {t}\n" for t in thms)
    if not audit.exists() or audit.read_text() != body:
        audit.write_text(body)
    # 2. build (driver first so that a broken proof does not hide a usable model)
    if tier == "thorough" and os.environ.get("VERIF_NO_CLEAN") != "1":
        # rebuild this property's proof modules from scratch
        for sub in ("Props", "Lemmas"):
            for ext in ("olean", "ilean", "trace", "hash", "olean.hash", "ilean.hash"):
                f = LEAN / ".lake" / "build" / "lib" / "lean" / "CsVerif" / sub / f"{pid}.{ext}"
                if f.exists():
                    f.unlink()
    ok_d, out_d = run_lake([mod.DRIVER], res["log"])
    res["driver_ok"] = ok_d
    ok_p, out_p = run_lake([f"CsVerif.Props.{pid}"] + [i for i in imports[1:]], res["log"])
    if not ok_p:
        res["ok"] = False
        errs = re.findall(r"error: (\S+\.lean):(\d+):\d+: ([^\n]*)", out_p)
        named = set()
        for f, ln, msg in errs[:10]:
            named.add(f"{f}:{ln}: {msg[:160]}")
            # name the enclosing theorem
            try:
                lines = (LEAN / f).read_text().splitlines()
                for k in range(int(ln) - 1, -1, -1):
                    m = re.match(r"\s*(?:theorem|example|def|lemma)\s+([\w'.]+)?", lines[k])
                    if m:
                        named.add(f"{f}: {lines[k].strip()[:120]}")
                        break
            except Exception:  # noqa: BLE001
                pass
        res["broken"] += sorted(named) or ["lake build failed: " + out_p[-400:]]
    if not ok_d:
        res["ok"] = False
        res["broken"].append("model driver does not build: " + out_d[-400:])
    # 3. audit
    if ok_p:
        p = subprocess.run(["lake", "env", "lean", str(audit)], cwd=LEAN, capture_output=True, text=True)
        txt = p.stdout + p.stderr
        for m in re.finditer(r"'([^']+)' depends on axioms: \[([^\]]*)\]", txt, flags=re.S):
            axs = {a.strip() for a in m.group(2).replace("\n", " ").split(",") if a.strip()}
            res["axioms"][m.group(1)] = sorted(axs)
            bad = axs - ALLOWED_AXIOMS
            if bad:
                res["ok"] = False
                res["broken"].append(f"theorem {m.group(1)} depends on non-standard axioms {sorted(bad)}")
        for m in re.finditer(r"'([^']+)' does not depend on any axioms", txt):
            res["axioms"][m.group(1)] = []
        missing = [t for t in thms if t not in res["axioms"]]
        if p.returncode != 0 or missing:
            res["ok"] = False
            res["broken"].append(f"axiom audit failed for {missing[:5]}: {txt[-300:]}")
        if tier == "thorough":
            mods = [f"CsVerif.Props.{pid}"]
            pc = subprocess.run(["lake", "env", "leanchecker", *mods], cwd=LEAN, capture_output=True, text=True)
            res["leanchecker"] = pc.returncode
            if pc.returncode != 0:
                res["ok"] = False
                res["broken"].append("leanchecker rejected " + " ".join(mods) + ": " + (pc.stdout + pc.stderr)[-300:])
    # forbidden tokens
    for f in lean_sources(pid, getattr(mod, "EXTRA_PROP_FILES", [])):
        if FORBIDDEN.search(strip_comments(f.read_text())):
            res["ok"] = False
            res["broken"].append(f"forbidden token (sorry/axiom/native_decide/…) in {f.relative_to(LEAN)}")
    res["obligations"] = len(thms) + len(res.get("generated_tables", []))
    res["discharged"] = res["obligations"] if res["ok"] else 0
    return res


def run_driver(driver: str, lines):
    exe = Path(os.environ.get("VERIF_DRIVER_EXE") or (LEAN / ".lake" / "build" / "bin" / driver))
    p = subprocess.run([str(exe)], input="\n".join(lines) + "\n", capture_output=True, text=True)
    if p.returncode != 0:
        raise RuntimeError(f"driver {driver} failed: {p.stderr[-500:]}")
    out = p.stdout.split("\n")
    if out and out[-1] == "":
        out.pop()
    if len(out) != len(lines):
        raise RuntimeError(f"driver {driver} answered {len(out)} lines for {len(lines)} inputs")
    return out


# --------------------------------------------------------------------------------------
# correspondence
# --------------------------------------------------------------------------------------

def worker(args):
    modname, tier, seed, shard, nshards, have_driver, known = args[:7]
    deadline = args[7] if len(args) > 7 else None
    mod = importlib.import_module(modname)
    rng = random.Random(seed * 7919 + shard)
    # a confirmed hang costs 30 s + 120 s of watchdog: after two of them in one worker the remaining cases are dropped
    # (the hangs themselves are reported; going on would only make the run take hours)
    cases, impl_out, hangs = [], [], 0
    for s, l in mod.gen(tier, rng, shard, nshards):
        cases.append((s, l))
        impl_out.append(call_impl(mod, s, l))
        if impl_out[-1] == "exc Timeout":
            hangs += 1
            if hangs >= 2:
                break
        # time-capped exploration (escalation after a source change): stop generating when the budget is used up
        if deadline is not None and time.time() > deadline:
            break
    lines = [c[1] for c in cases]
    model_out = run_driver(mod.DRIVER, lines) if (have_driver and lines) else [None] * len(lines)
    stats = {"n": len(cases), "by_stream": {}, "outcomes": {}, "distinct_nontrivial": set(), "samples": {}}
    diffs = []
    nontriv = getattr(mod, "nontrivial", None)
    oracle = getattr(mod, "oracle", None)
    for (s, l), io_, mo in zip(cases, impl_out, model_out):
        stats["by_stream"][s] = stats["by_stream"].get(s, 0) + 1
        kind = io_.split(" ", 2)[1] if io_.startswith("exc ") else "ok"
        stats["outcomes"][f"{s}:{kind}"] = stats["outcomes"].get(f"{s}:{kind}", 0) + 1
        if s not in stats["samples"]:
            stats["samples"][s] = {"line": l[:300], "impl": io_[:300], "model": (mo or "")[:300]}
        nt = nontriv(s, l, io_) if nontriv else (not io_.startswith("exc "))
        if nt:
            stats["distinct_nontrivial"].add(hashlib.blake2b((s + l).encode(), digest_size=8).digest())
        bad_oracle = False
        if oracle is not None:
            try:
                v = oracle(s, l, io_)
            except Exception:  # noqa: BLE001  (an oracle must not depend on the code under test; be conservative)
                v = None
            bad_oracle = v is False
        if mo == "bad-op":
            diffs.append({"stream": s, "line": l, "impl": io_, "model": mo, "kind": "harness"})
        elif (mo is not None and io_ != mo) or bad_oracle:
            diffs.append({"stream": s, "line": l, "impl": io_, "model": mo, "oracle_failed": bad_oracle})
    stats["distinct_nontrivial"] = list(stats["distinct_nontrivial"])
    # keep a few representatives per known finding so that they cannot crowd other disagreements out of the cap
    match_known = getattr(mod, "known", None)
    kept, per_known = [], {}
    for d in diffs:
        kid = d.get("known_id") or (match_known(d["stream"], d["line"], known) if match_known else None)
        if kid:
            d["known_id"] = kid
            per_known[kid] = per_known.get(kid, 0) + 1
            if per_known[kid] > 3:
                continue
        kept.append(d)
    stats["diffs_total"] = len(diffs)
    return stats, kept[:300]


def shrink_diff(mod, d, have_driver):
    """Generic greedy shrinking using the module's candidate generator."""
    shr = getattr(mod, "shrink", None)
    if shr is None:
        return d
    oracle = getattr(mod, "oracle", None)

    def still_bad(line):
        io_ = call_impl(mod, d["stream"], line)
        mo = run_driver(mod.DRIVER, [line])[0] if have_driver else None
        if mo == "bad-op":
            return None
        ob = oracle(d["stream"], line, io_) is False if oracle else False
        if d.get("oracle_failed"):
            return (io_, mo) if ob else None
        return (io_, mo) if (mo is not None and io_ != mo) else None

    cur = dict(d)
    deadline = time.time() + 30
    improved = True
    while improved and time.time() < deadline:
        improved = False
        for cand in shr(cur["stream"], cur["line"]):
            if len(cand) >= len(cur["line"]):
                continue
            r = still_bad(cand)
            if r:
                cur.update(line=cand, impl=r[0], model=r[1])
                improved = True
                break
            if time.time() > deadline:
                break
    return cur


def main():
    ap = argparse.ArgumentParser()
    ap.add_argument("pid")
    ap.add_argument("--tier", default=os.environ.get("VERIF_TIER", "quick"), choices=["quick", "thorough"])
    ap.add_argument("--replay")
    ap.add_argument("--update-fingerprints", action="store_true",
                    help="record the fingerprints of the anchored sources of every property for the current tree (coordinator use)")
    ap.add_argument("--jobs", type=int, default=int(os.environ.get("VERIF_JOBS", "0")))
    args = ap.parse_args()
    pid = args.pid.upper()
    if args.update_fingerprints:
        ids = [json.loads(l)["id"] for l in (VERIF / "properties.jsonl").read_text().splitlines() if l.strip()]
        (VERIF / "tools" / "fingerprints.json").write_text(json.dumps({i: source_fingerprint(i) for i in ids}, indent=1, sort_keys=True))
        print("fingerprints recorded for", len(ids), "properties")
        return 0
    seed = int(os.environ.get("VERIF_SEED", "0"))
    t0 = time.time()
    modname = f"harness.{pid.lower()}"
    try:
        mod = importlib.import_module(modname)
    except Exception:  # noqa: BLE001
        traceback.print_exc()
        print(f"harness for {pid} failed to import (machinery error)")
        return 2

    if args.replay:
        return replay(mod, Path(args.replay))

    known = json.loads((VERIF / "known_findings.json").read_text())
    known = [k for k in known.get("findings", []) if k["property"] == pid and k.get("status") == "known"]

    try:
        lean = lean_phase(mod, args.tier)
    except Exception:  # noqa: BLE001
        traceback.print_exc()
        return 2

    # correspondence (thorough volume when a proof obligation is broken: failing-input search)
    tier = args.tier
    search_tier = "thorough" if not lean["ok"] else tier
    jobs = args.jobs or (min(16, os.cpu_count() or 4) if search_tier == "thorough" else min(8, os.cpu_count() or 4))
    have_driver = lean["driver_ok"]
    try:
        with mp.Pool(jobs) as pool:
            results = pool.map(worker, [(modname, search_tier, seed, i, jobs, have_driver, known) for i in range(jobs)])
    except Exception:  # noqa: BLE001
        traceback.print_exc()
        print("correspondence harness failed (machinery error)")
        return 2

    total = 0
    by_stream, outcomes, samples = {}, {}, {}
    distinct = set()
    diffs = []
    for st, df in results:
        total += st["n"]
        for k, v in st["by_stream"].items():
            by_stream[k] = by_stream.get(k, 0) + v
        for k, v in st["outcomes"].items():
            outcomes[k] = outcomes.get(k, 0) + v
        for k, v in st["samples"].items():
            samples.setdefault(k, v)
        distinct.update(bytes(x) for x in st["distinct_nontrivial"])
        diffs += df

    # escalation (scheduling only): an anchored source file differs from the recorded fingerprint and the ordinary volume found
    # nothing -> spend a bounded extra budget on the thorough generators / a second seed before answering
    fp_now = source_fingerprint(pid)
    fp_rec = recorded_fingerprints().get(pid, {})
    changed_files = sorted(f for f in fp_now if fp_rec.get(f) not in (None, fp_now[f]))
    escalated = None
    budget = int(os.environ.get("VERIF_ESCALATE_S", "240"))
    if changed_files and not diffs and lean["ok"] and search_tier == "quick" and budget > 0:
        escalated = {"files": changed_files, "budget_s": budget}
        ejobs = min(16, os.cpu_count() or 4)
        deadline = time.time() + budget
        try:
            with mp.Pool(ejobs) as pool:
                more = pool.map(worker, [(modname, "thorough", seed + 1, i, ejobs, have_driver, known, deadline) for i in range(ejobs)])
        except Exception:  # noqa: BLE001
            traceback.print_exc()
            more = []
        extra_n = 0
        for st, df in more:
            extra_n += st["n"]
            total += st["n"]
            for k, v in st["by_stream"].items():
                by_stream[k] = by_stream.get(k, 0) + v
            for k, v in st["outcomes"].items():
                outcomes[k] = outcomes.get(k, 0) + v
            distinct.update(bytes(x) for x in st["distinct_nontrivial"])
            diffs += df
        escalated["extra_cases"] = extra_n

    harness_err = [d for d in diffs if d.get("kind") == "harness"]
    if harness_err:
        print("driver rejected a generated line (machinery error):", harness_err[0])
        return 2

    # extra, non line-protocol checks of the module (e.g. generated-table witnesses)
    extra = getattr(mod, "extra_checks", None)
    if extra:
        try:
            diffs += list(extra(search_tier, random.Random(seed), lean))
        except Exception:  # noqa: BLE001
            traceback.print_exc()
            return 2

    # classification
    known_hit, violations, corr_only = {}, [], []
    match_known = getattr(mod, "known", None)
    for d in diffs:
        kid = d.get("known_id") or (match_known(d["stream"], d["line"], known) if match_known else None)
        if kid:
            known_hit.setdefault(kid, d)
            continue
        relevant = mod.STREAMS.get(d["stream"], {}).get("relevant", True)
        if d.get("oracle_failed") or relevant:
            violations.append(d)
        else:
            corr_only.append(d)

    exit_code = 0
    for kid, d in known_hit.items():
        what = next(k["what"] for k in known if k["id"] == kid)
        print(f"KNOWN-FINDING: property={pid} {kid}: {what}")
    (VERIF / "replays").mkdir(exist_ok=True)
    n_viol = 0
    if violations:
        # the replay is the strongest witness available: a case on which the property oracle itself fails on the implementation's
        # output, before one that merely differs from the model on a property-relevant stream
        violations.sort(key=lambda v: 0 if v.get("oracle_failed") else 1)
        d = shrink_diff(mod, violations[0], have_driver)
        path = write_replay(pid, "impl-violates", d, seed, lean)
        print(f"VIOLATION property={pid} replay={path}")
        n_viol = len(violations)
        exit_code = 1
    elif corr_only or not lean["ok"]:
        d = shrink_diff(mod, corr_only[0], have_driver) if corr_only else {"stream": None, "line": None, "impl": None, "model": None}
        kind = "correspondence-broken" if corr_only else "proof-broken"
        path = write_replay(pid, kind, d, seed, lean)
        print(f"VIOLATION property={pid} replay={path} no-failing-input-found")
        n_viol = max(1, len(corr_only))
        exit_code = 1

    wall = time.time() - t0
    ev = {
        "property_id": pid,
        "tier": args.tier,
        "seed": seed,
        "level": "proof",
        "coverage": {
            "obligations": lean["obligations"],
            "discharged": lean["discharged"],
            "checker_cmd": f"cd lean && lake build CsVerif.Props.{pid} {mod.DRIVER} && lake env lean CsVerif/Audit/{pid}.lean"
            + (" && lake env leanchecker CsVerif.Props." + pid if args.tier == "thorough" else ""),
            "trusted_base": ["Lean 4.33 kernel", "axioms: " + ", ".join(sorted({a for v in lean["axioms"].values() for a in v}) or ["none"])]
            + list(getattr(mod, "TRUSTED", [])),
            "theorems": lean["theorems"],
            "axioms_per_theorem": lean["axioms"],
            "generated_tables": lean.get("generated_tables", []),
            "broken_obligations": lean["broken"],
            "evaluations": total,
            "distinct_nontrivial": len(distinct),
            "rule": getattr(mod, "RULE", "distinct = hash of (stream, input line); non-trivial = the real code returned a value (no exception)"),
            "by_stream": by_stream,
            "outcome_histogram": outcomes,
            "samples": [dict(stream=k, **v) for k, v in samples.items()],
            "traces_validated_against_impl": total,
            "disagreements": len(diffs),
            "known_findings_hit": sorted(known_hit),
            "workers": jobs,
            "correspondence_tier": search_tier,
            "source_fingerprint": fp_now,
            "source_changed_since_recorded": changed_files,
            "escalation": escalated,
        },
        "assumptions": list(getattr(mod, "ASSUMPTIONS", [])),
        "wall_s": round(wall, 2),
        "violations": n_viol,
    }
    # evidence/ holds runs against /repo itself only; experiments on another checkout (VERIF_REPO) write elsewhere
    evdir = VERIF / "evidence" if REPO == Path("/repo") else Path("/tmp/verif_scratch_evidence")
    evdir.mkdir(parents=True, exist_ok=True)
    ev["repo"] = str(REPO)
    (evdir / f"{pid}.json").write_text(json.dumps(ev, indent=1, default=str))
    try:
        if os.environ.get("VERIF_DRIVER_EXE"):
            os.unlink(os.environ["VERIF_DRIVER_EXE"])
    except OSError:
        pass
    if REPO != Path("/repo"):
        # an experiment on another checkout: put the generated tables back to what /repo says, so that nobody else building in
        # lean/ meanwhile sees tables of the scratch tree
        try:
            with LakeLock():   # a fresh interpreter: this one has the scratch checkout's modules imported
                env = {k: v for k, v in os.environ.items() if k != "VERIF_REPO"}
                subprocess.run([sys.executable, str(VERIF / "tools" / "translate.py"), "/repo"], env=env, capture_output=True, timeout=300)
        except Exception:  # noqa: BLE001
            pass
    print(f"{pid} {args.tier}: theorems={len(lean['theorems'])} proof_ok={lean['ok']} cases={total} "
          f"distinct_nontrivial={len(distinct)} diffs={len(diffs)} known={len(known_hit)} wall={wall:.1f}s")
    return exit_code


def write_replay(pid, kind, d, seed, lean):
    name = f"{pid}_{kind}_{int(time.time())}_{os.getpid()}.json"
    path = VERIF / "replays" / name
    rep = {
        "property": pid,
        "kind": kind,
        "stream": d.get("stream"),
        "input": d.get("line"),
        "actual_impl": d.get("impl"),
        "expected_model": d.get("model"),
        "oracle_failed": d.get("oracle_failed", False),
        "note": d.get("note"),
        "seed": seed,
        "broken_obligations": lean["broken"],
        "how_to_replay": f"cd /verif && tools/check.py {pid} --replay replays/{name}",
    }
    path.write_text(json.dumps(rep, indent=1))
    return f"replays/{name}"


def replay(mod, path: Path):
    rep = json.loads(path.read_text())
    if not rep.get("input"):
        print("replay names broken obligations only:", rep.get("broken_obligations"))
        return 1
    io_ = call_impl(mod, rep["stream"], rep["input"])
    try:
        run_lake([mod.DRIVER], [])
        mo = run_driver(mod.DRIVER, [rep["input"]])[0]
    except Exception as e:  # noqa: BLE001
        mo = f"<driver unavailable: {e}>"
    print("input :", rep["input"])
    print("impl  :", io_)
    print("model :", mo)
    oracle = getattr(mod, "oracle", None)
    ob = oracle(rep["stream"], rep["input"], io_) if oracle else None
    if ob is not None:
        print("oracle:", "holds" if ob else "VIOLATED")
    if io_ != mo or ob is False:
        print(f"VIOLATION property={rep['property']} replay={path}")
        return 1
    print("no longer differs")
    return 0


def _main_with_scratch():
    """every temporary file of a run (harness temp files of the worker processes, which never run their atexit handlers) lives in
    one private directory that is removed when the run ends"""
    import shutil
    import tempfile
    d = tempfile.mkdtemp(prefix="verif_run_")
    os.environ["TMPDIR"] = d
    tempfile.tempdir = d
    try:
        return main()
    finally:
        tempfile.tempdir = None
        shutil.rmtree(d, ignore_errors=True)


if __name__ == "__main__":
    sys.exit(_main_with_scratch())

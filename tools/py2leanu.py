"""py2leanu — UNTYPED translator from (a subset of) Python function *source* to Lean 4 definitions.

Sibling of `tools/py2lean.py` for dynamically typed code: every Python value is one Lean value of the universal type
`PyU.V` (lean/CsVerif/Model/PyU.lean), every Python operation is a call of one total function of that file, every
raising operation is bound in evaluation order (A-normal form) in the `Py = Except PyExc` monad.  Used by the plug-in
`tools/gen/py_beacon.py`; the property files prove `Gen.<f> = <hand-written model of f>` for all arguments.
A construct outside the subset raises `Unsupported` (→ proof obligation broken, never silently skipped).

Subset
  functions   module-level `def` with positional parameters (constant defaults), no decorators, no nested functions
  statements  `x = e`, `x: T = e`, `a, b = e` / `a, b, c = e`, `x += e` (and the other augmented operators), `if/elif/else`,
              `while <test>:` with `break` / `continue` (no `else`, no `return` inside), `return e`, `raise <Builtin>(args)`,
              `pass`, docstrings, expression statements that are calls, `name.append(e)`
  expressions names, `None True False`, int / bytes / str literals, tuple / list / dict displays, `+ - * // % & | ^ << >>`,
              unary `-`, `== != < <= > >=`, `is None` / `is not None`, `in` / `not in`, `not`, `and` / `or` in condition
              position (short-circuit), conditional expressions without raising branches, `x[i]`, `x[a:b]`, `x.name` / `x.value`,
              f-strings and `"literal".format(...)` with the fields `{}` and `{:x}`, calls of `len`, of other functions of the
              unit (defaults filled in), of the objects the plug-in registered (enum classes `Cls(e)` / `Cls.MEMBER`,
              `io.BytesIO(e)`, typed translations such as `u32be`, effect-free calls such as `logger.error`), and the
              methods `p.read(n)`, `b.rstrip(c)`, `b.partition(s)`, `b.decode()` / `.decode("latin-1", …)`, `d.get(k, default)`
  mutable objects   a name that is the receiver of `.append` / `.read` must be bound to a fresh object (`[...]`, `io.BytesIO(e)`)
              at every assignment and may otherwise only occur in `return <name>`: no second reference to a mutable object
              can exist, so threading the object as a value (`p.read(4)` ↦ data and new cursor) is exact
  loops       the body becomes a separate definition `<f>_loop<k>` over the tuple of the variables that are live before the
              loop and assigned in it; variables first assigned inside the body are local to one iteration (a use before the
              assignment in the same iteration, or after the loop, is rejected); the function gets a `fuel : Nat` parameter
              (`PyU.whileFuel`)
Evaluation order is left to right; every name of the source that is not a local variable must resolve (in the function's
globals, at translation time) to the very object the plug-in registered, or to an unshadowed builtin.
"""
from __future__ import annotations

import ast
import builtins
import inspect
import re
import string
import textwrap


class Unsupported(Exception):
    pass


LEAN_RESERVED = {"from", "at", "end", "open", "in", "do", "then", "else", "if", "let", "fun", "match", "with", "where", "have", "show",
                 "by", "def", "theorem", "namespace", "section", "variable", "universe", "instance", "class", "structure", "inductive",
                 "import", "export", "private", "protected", "mutual", "deriving", "return", "for", "unless", "mut", "try", "catch",
                 "finally", "throw", "type", "Type", "Prop", "Sort", "fuel", "st", "V", "Py", "PyU", "PyExc", "pure", "true", "false",
                 "break", "continue", "macro", "syntax", "notation", "example", "abbrev", "axiom", "opaque", "set_option", "using",
                 "calc", "suffices", "obtain", "nomatch", "nofun", "Nat", "Int", "Unit", "Bool", "String", "List", "Type"}

EXC = {"ValueError": "PyExc.valueError", "EOFError": "PyExc.eofError", "OSError": "PyExc.osError", "IndexError": "PyExc.indexError",
       "KeyError": "PyExc.keyError", "AttributeError": "PyExc.attributeError", "OverflowError": "PyExc.overflowError",
       "TypeError": "PyExc.typeError", "ZeroDivisionError": "PyExc.zeroDivisionError"}

BINOP = {ast.Add: "add", ast.Sub: "sub", ast.Mult: "mul", ast.FloorDiv: "floordiv", ast.Mod: "mod", ast.BitAnd: "band",
         ast.BitOr: "bor", ast.BitXor: "bxor", ast.LShift: "shl", ast.RShift: "shr"}
ORDER = {ast.Lt: "lt", ast.LtE: "le", ast.Gt: "gt", ast.GtE: "ge"}

# methods without side effect: name -> (runtime function, minimal / maximal number of arguments, defaults for the missing ones)
METHODS = {"rstrip": ("PyU.rstrip", 0, 1, ["V.none"]), "partition": ("PyU.partition", 1, 1, []),
           "get": ("PyU.dictGet", 1, 2, [None, "V.none"]),
           "split": ("PyU.split", 0, 1, ["V.none"]), "upper": ("PyU.upper", 0, 0, []), "lower": ("PyU.lower", 0, 0, []),
           "startswith": ("PyU.startswith", 1, 1, [])}
MUTATORS = {"append": 1, "read": (0, 1), "insert": 2}
# `x.decode(enc, errors)` / `x.encode(enc, errors)` for literal arguments: (canonical codec, error handler) -> runtime function
DECODE = {("utf-8", "strict"): "PyU.decodeUtf8", ("latin-1", "strict"): "PyU.decodeLatin1", ("latin-1", "ignore"): "PyU.decodeLatin1",
          ("latin-1", "replace"): "PyU.decodeLatin1", ("ascii", "strict"): "PyU.decodeAscii", ("ascii", "ignore"): "PyU.decodeAsciiIgnore"}
ENCODE = {("utf-8", "strict"): "PyU.encodeUtf8", ("latin-1", "strict"): "PyU.encodeLatin1", ("ascii", "strict"): "PyU.encodeAscii"}
CODECS = {"utf-8": "utf-8", "utf8": "utf-8", "latin-1": "latin-1", "latin1": "latin-1", "iso-8859-1": "latin-1", "ascii": "ascii",
          "us-ascii": "ascii"}
ISINSTANCE = {"int": "PyU.Ty.int", "bool": "PyU.Ty.bool", "bytes": "PyU.Ty.bytes", "str": "PyU.Ty.str", "list": "PyU.Ty.list",
              "tuple": "PyU.Ty.tuple", "dict": "PyU.Ty.dict"}
CALLS = "%calls"     # the hidden variable that counts the calls of a registered `stream` function (Lean name `t0`)


def lname(n: str) -> str:
    if n == "_":
        return "u_"
    if n == CALLS:
        return "t0"
    if re.fullmatch(r"t\d+", n) or n.endswith("_") and n[:-1] in LEAN_RESERVED:
        raise Unsupported(f"variable name {n} clashes with the translator's own names")
    return n + "_" if n in LEAN_RESERVED else n


def lean_string(v: str) -> str:
    out = ['"']
    for ch in v:
        if ch in '"\\':
            out.append("\\" + ch)
        elif 32 <= ord(ch) < 127:
            out.append(ch)
        elif ord(ch) < 0x10000:
            out.append("\\u%04x" % ord(ch))
        else:
            raise Unsupported("string literal with a code point above U+FFFF")
    return "".join(out) + '"'


def const_term(v) -> str:
    if v is None:
        return "V.none"
    if isinstance(v, bool):
        return f"(V.bool {'true' if v else 'false'})"
    if isinstance(v, int):
        return f"(V.int {v})" if v >= 0 else f"(V.int ({v}))"
    if isinstance(v, bytes):
        return "(V.bytes [" + ", ".join(str(b) for b in v) + "])"
    if isinstance(v, str):
        return f"(PyU.lit {lean_string(v)})"
    raise Unsupported(f"constant {v!r}")


def tuple_type(n: int) -> str:
    return "Unit" if n == 0 else " × ".join(["V"] * n)


def tuple_term(names) -> str:
    return "()" if not names else (names[0] if len(names) == 1 else "(" + ", ".join(names) + ")")


def proj(k: int, n: int) -> str:
    """k-th component of a right-nested n-tuple `st`"""
    if n == 1:
        return "st"
    return "st" + ".2" * k + (".1" if k < n - 1 else "")


class Sig:
    def __init__(self, name, params, fuel, externs=(), asserts=False):
        self.name = name        # Lean name
        self.params = params    # [(python name, default term or None)]
        self.fuel = fuel        # takes a leading `fuel : Nat` parameter
        self.externs = list(externs)   # names of the external functions it is parameterised by (before `fuel`)
        self.asserts = asserts  # contains `assert`: the monad is `PyU.PyA` (PyExc + AssertionError)


def comp_targets(node) -> set:
    """names bound by the `for` clauses of the comprehensions inside `node` (local to the comprehension)"""
    out = set()
    for n in ast.walk(node):
        if isinstance(n, ast.comprehension):
            out |= {m.id for m in ast.walk(n.target) if isinstance(m, ast.Name)}
    return out


class _SelfAttrs(ast.NodeTransformer):
    """`__init__`: every `self.a` becomes the variable `self__a`"""

    def __init__(self, self_name):
        self.self_name = self_name
        self.attrs = []

    def visit_Attribute(self, n):
        if isinstance(n.value, ast.Name) and n.value.id == self.self_name:
            if n.attr not in self.attrs:
                self.attrs.append(n.attr)
            return ast.copy_location(ast.Name(id=f"self__{n.attr}", ctx=n.ctx), n)
        return self.generic_visit(n)


def _resolve(globs: dict, dotted: str):
    parts = dotted.split(".")
    if parts[0] not in globs:
        return None
    obj = globs[parts[0]]
    for p in parts[1:]:
        obj = getattr(obj, p, None)
    return obj


class Unit:
    """a set of functions translated together.  `registry`: dotted source name -> (python object, kind, lean term) with kind in
    `bytesio` (constructor of io.BytesIO), `enum` (a cstruct enum class; lean term : PyU.EnumCls), `func` (an effect-free
    function of positional `V` arguments into `Py V`), `noop` (a call that is evaluated for its arguments only)."""

    def __init__(self, namespace: str, imports: list, registry: dict):
        """further registry kinds: `ntcls` (a NamedTuple class; lean term : PyU.Cls; constructor calls with positional / keyword
        arguments, `isinstance`), `cls` (a plain class translated by `translate(..., init_of=cls)`; only `isinstance`), `extern`
        (an effect-free external function that becomes a parameter of the translated definitions: term = (lean name, number of
        positional arguments, [keyword names])), `stream` (an external function whose results depend on how often it was called
        before, e.g. `random.getrandbits`: term = (lean name, arity); the parameter gets the number of earlier calls first)"""
        self.namespace = namespace
        self.imports = imports
        self.registry = registry
        self.int_tables = None     # Lean term of type PyU.IntTables (needed by `int(x)`)
        self.prelude: list[str] = []
        self.sigs: dict[str, Sig] = {}
        self.defs: list[str] = []
        self.names: list[str] = []

    def extern_type(self, name: str) -> str:
        for _, kind, term in self.registry.values():
            if kind in ("extern", "stream") and term[0] == name:
                n = term[1] + len(term[2]) if kind == "extern" else term[1] + 1
                return " → ".join(["V"] * n + ["Py V"])
        raise Unsupported(f"unknown extern {name}")

    def translate(self, fn, lean_name=None, init_of=None):
        """`fn`: a module-level function, or a method taken from the `__dict__` of its class (then `self` is an ordinary
        parameter).  `init_of=(cls, lean term of its PyU.Cls descriptor)`: `fn` is `cls.__init__`; the translated definition is
        the constructor call `cls(args)`: every `self.a` is a variable, the result is the instance with the attributes in the
        order of their first assignment (`self` itself must not be used in any other way)."""
        src = textwrap.dedent(inspect.getsource(fn))
        mod = ast.parse(src)
        if len(mod.body) != 1 or not isinstance(mod.body[0], ast.FunctionDef):
            raise Unsupported(f"cannot isolate the definition of {fn!r}")
        fd = mod.body[0]
        if fd.decorator_list:
            raise Unsupported(f"{fd.name}: decorators")
        a = fd.args
        if a.vararg or a.kwarg or a.posonlyargs or a.kwonlyargs:
            raise Unsupported(f"{fd.name}: *args / **kwargs / positional-only / keyword-only parameters")
        defaults = [None] * (len(a.args) - len(a.defaults)) + list(a.defaults)
        params = []
        for p, d in zip(a.args, defaults):
            if d is not None and not isinstance(d, ast.Constant):
                raise Unsupported(f"{fd.name}: non-literal default of {p.arg}")
            params.append((p.arg, None if d is None else const_term(d.value)))
        init_attrs = None
        if init_of is not None:
            if not params or params[0][1] is not None:
                raise Unsupported(f"{fd.name}: no `self` parameter")
            rw = _SelfAttrs(params[0][0])
            fd = ast.fix_missing_locations(rw.visit(fd))
            if any(isinstance(n, ast.Name) and n.id == params[0][0] for n in ast.walk(fd)):
                raise Unsupported(f"{fd.name}: `self` is used other than through its attributes")
            if any(isinstance(n, ast.Return) for n in ast.walk(fd)):
                raise Unsupported(f"{fd.name}: `return` in `__init__`")
            params = params[1:]
            init_attrs = rw.attrs
        key = lean_name or fd.name
        tr = _Fn(self, fd, fn.__globals__, [p for p, _ in params], init=(init_of[1], init_attrs) if init_of else None)
        body = tr.run()
        sig = Sig(lname(key), params, tr.needs_fuel, tr.used_externs, tr.asserts)
        self.sigs[key] = sig
        self.init_fields = init_attrs
        monad = "PyU.PyA" if sig.asserts else "Py"
        xb = "".join(f" ({e} : {self.extern_type(e)})" for e in sig.externs)
        xa = "".join(f" {e}" for e in sig.externs)

        def fill(text):
            text = text.replace("«XB»", xb).replace("«XA»", xa).replace("«M»", monad)
            return re.sub(r"«T(.*?)»", (lambda m: f"(PyU.ExcA.py {m.group(1)})") if sig.asserts else (lambda m: m.group(1)), text)

        binders = xb + (" (fuel : Nat)" if sig.fuel else "") + "".join(f" ({lname(p)} : V)" for p, _ in params)
        doc = f"/-- translated from `{fn.__module__}.{fn.__qualname__}`"
        if init_of:
            doc += f" (the constructor call: the new instance, attributes {', '.join(init_attrs)})"
        dflt = [f"{p}={d}" for p, d in params if d is not None]
        if dflt:
            doc += "; defaults: " + ", ".join(dflt)
        if sig.externs:
            doc += "; external functions: " + ", ".join(sig.externs)
        doc += " -/"
        self.defs += [fill(d) for d in tr.loop_defs]
        self.defs.append(f"{doc}\ndef {sig.name}{binders} : {monad} V := do\n" + fill("\n".join(body)) + "\n")
        self.names += tr.loop_names + [sig.name]
        # the calls with 1, 2, … trailing arguments left to their defaults
        nd = len([1 for _, d in params if d is not None])
        for k in range(1, nd + 1):
            given, omitted = params[:len(params) - k], params[len(params) - k:]
            b2 = xb + (" (fuel : Nat)" if sig.fuel else "") + "".join(f" ({lname(p)} : V)" for p, _ in given)
            args = (xa.strip() + " " if xa else "") + ("fuel " if sig.fuel else "") + " ".join([lname(p) for p, _ in given] + [d for _, d in omitted])
            shown = ", ".join(f"{p}={d}" for p, d in omitted)
            self.defs.append(f"/-- `{fd.name}` called with the default{'s' if k > 1 else ''} {shown} -/\n"
                             f"def {sig.name}_default{k}{b2} : {monad} V := {sig.name} {args}\n")
            self.names.append(f"{sig.name}_default{k}")
        return sig

    def render(self, header: str) -> str:
        imps = "".join(f"import {m}\n" for m in ["CsVerif.Model.PyU"] + self.imports)
        out = [f"{imps}/-! {header}\nGENERATED by tools/py2leanu.py from the working tree of /repo — do not edit. -/",
               f"namespace {self.namespace}", "open PyU (V)", "set_option linter.unusedVariables false", ""]
        out += self.prelude + self.defs
        out.append(f"end {self.namespace}")
        return "\n".join(out) + "\n"


class _Fn:
    def __init__(self, unit: Unit, fd: ast.FunctionDef, globs: dict, params: list, init=None):
        self.init = init                             # (Lean term of the class descriptor, attribute names) for `__init__`
        self.used_externs: list[str] = []
        self.asserts = False
        self.uses_calls = False
        self.comps = 0
        self.u = unit
        self.fd = fd
        self.globs = globs
        self.params = params
        self.tmp = 0
        self.declared: list[str] = list(params)      # python names that are bound at this point, in order of first binding
        self.loop_defs: list[str] = []
        self.loop_names: list[str] = []
        self.loops = 0
        self.in_loop: list | None = None             # names of the state tuple of the innermost enclosing loop
        self.needs_fuel = False

    def bad(self, msg):
        return Unsupported(f"{self.fd.name}: {msg}")

    def fresh(self):
        self.tmp += 1
        return f"t{self.tmp}"

    # ---- analysis ---------------------------------------------------------------------------------------------------
    def analyse(self):
        fd = self.fd
        for n in ast.walk(fd):
            if n is not fd and isinstance(n, (ast.FunctionDef, ast.AsyncFunctionDef, ast.Lambda, ast.ClassDef, ast.ListComp, ast.SetComp,
                                              ast.GeneratorExp, ast.Global, ast.Nonlocal, ast.NamedExpr, ast.Yield,
                                              ast.YieldFrom, ast.Await, ast.Try, ast.With, ast.Delete, ast.Starred)):
                raise self.bad(f"construct {type(n).__name__}")
        self.local = set()
        self.assigned = {v for v in self.stores_in([fd]) if v != CALLS}
        self.local = self.assigned | set(self.params) | comp_targets(fd)
        self.asserts = any(isinstance(n, ast.Assert) for n in ast.walk(fd))
        self.uses_calls = any(isinstance(n, ast.Call) and self.global_kind(n.func) == "stream" for n in ast.walk(fd))
        for v in self.local:
            if v in self.u.sigs or v in self.u.registry or any(k.split(".")[0] == v for k in self.u.registry):
                raise self.bad(f"local name {v} shadows a translated / registered global")
        # mutable names: receivers of the mutating methods
        self.mutable = set()
        for n in ast.walk(fd):
            recv = None
            if isinstance(n, ast.Call) and isinstance(n.func, ast.Attribute) and n.func.attr in MUTATORS:
                recv, what = n.func.value, f"`.{n.func.attr}`"
            elif isinstance(n, ast.Subscript) and isinstance(n.ctx, ast.Store):
                recv, what = n.value, "item assignment"
            if recv is not None:
                if not isinstance(recv, ast.Name) or recv.id not in self.assigned or recv.id in self.params:
                    raise self.bad(f"{what} on something that is not a local variable bound to a fresh object")
                self.mutable.add(recv.id)
        allowed = set()
        self.borrows = {}      # mutable variable -> (owner variable, attribute, the assignment statement)
        for n in ast.walk(fd):
            if isinstance(n, ast.Call) and isinstance(n.func, ast.Attribute) and n.func.attr in MUTATORS:
                allowed.add(id(n.func.value))
            if isinstance(n, ast.Subscript) and isinstance(n.ctx, ast.Store):
                allowed.add(id(n.value))
            if isinstance(n, ast.Return) and n.value is not None:
                # the function ends here: references that the returned value holds cannot be observed by this function any more
                allowed |= {id(m) for m in ast.walk(n.value) if isinstance(m, ast.Name)}
            if isinstance(n, ast.Assign) and len(n.targets) == 1 and self.is_permutation(n.targets[0], n.value):
                allowed |= {id(m) for m in n.targets[0].elts + n.value.elts}
            if isinstance(n, (ast.Assign, ast.AnnAssign)):
                targets = n.targets if isinstance(n, ast.Assign) else [n.target]
                for t in targets:
                    if isinstance(t, ast.Name) and t.id in self.mutable:
                        if n.value is not None and self.is_fresh(n.value):
                            allowed.add(id(t))
                        elif (n.value is not None and isinstance(n.value, ast.Attribute) and isinstance(n.value.value, ast.Name)
                              and n.value.value.id in self.local and n.value.value.id not in self.mutable and t.id not in self.borrows):
                            self.borrows[t.id] = (n.value.value.id, n.value.attr, n)
                            allowed.add(id(t))
                        else:
                            raise self.bad(f"mutable variable {t.id} is bound to something that is not a fresh object")
        allowed |= self.check_borrows()
        for n in ast.walk(fd):
            if isinstance(n, ast.Name) and n.id in self.mutable and id(n) not in allowed:
                raise self.bad(f"mutable variable {n.id} is used where a second reference to the object could be created")

    def check_borrows(self) -> set:
        """`m = r.a` for a mutable variable `m` (`r` a parameter or an immutable local): `m` is a *borrowed* part of `r`.  Threading
        `m` as a value gives the exact return value provided the stale field `r.a` can never be read again: `m` has no other
        assignment, the binding is a top-level statement, and afterwards `r` is not assigned and occurs only as `r.b` (`b` not a
        borrowed attribute) or as the receiver of `r._replace(…)` with `a=m` for every borrowed attribute.  (Assumed, not
        checked: the borrowed parts of the argument are pairwise different objects that no other argument refers to.  The
        in-place change of the caller's object is not part of the translated result.)"""
        ok = set()
        for m, (r, a, stmt) in self.borrows.items():
            n_assign = sum(1 for n in ast.walk(self.fd) if isinstance(n, ast.Name) and n.id == m and isinstance(n.ctx, ast.Store))
            if n_assign != 1 or stmt not in self.fd.body:
                raise self.bad(f"borrowed mutable variable {m} must be bound exactly once, by a top-level statement")
        owners = {r for r, _, _ in self.borrows.values()}
        for r in owners:
            mine = {a: m for m, (r2, a, _) in self.borrows.items() if r2 == r}
            first = min(self.fd.body.index(st) for m, (r2, _, st) in self.borrows.items() if r2 == r)
            for st in self.fd.body[first:]:
                parents = {}
                for n in ast.walk(st):
                    for c in ast.iter_child_nodes(n):
                        parents[id(c)] = n
                for n in ast.walk(st):
                    if not (isinstance(n, ast.Name) and n.id == r):
                        continue
                    par = parents.get(id(n))
                    if isinstance(n.ctx, ast.Store):
                        raise self.bad(f"{r} is assigned after a part of it was borrowed")
                    if not (isinstance(par, ast.Attribute) and par.value is n):
                        raise self.bad(f"{r} is used as a whole after a part of it was borrowed")
                    gp = parents.get(id(par))
                    if par.attr == "_replace" and isinstance(gp, ast.Call) and gp.func is par:
                        kws = {k.arg: k.value for k in gp.keywords}
                        for a, m in mine.items():
                            if not (isinstance(kws.get(a), ast.Name) and kws[a].id == m):
                                raise self.bad(f"{r}._replace(…) does not put the borrowed {m} back as {a}")
                            ok.add(id(kws[a]))
                    elif par.attr in mine:
                        owner_stmt = self.borrows[mine[par.attr]][2]
                        if st is not owner_stmt:
                            raise self.bad(f"{r}.{par.attr} is read again after it was borrowed by {mine[par.attr]}")
                    elif par.attr.startswith("_"):
                        raise self.bad(f"{r}.{par.attr} after a part of {r} was borrowed")
        return ok

    def is_permutation(self, target, value) -> bool:
        """`a, b = b, a`: both sides tuples of the same variables, each once"""
        if not (isinstance(target, ast.Tuple) and isinstance(value, ast.Tuple) and len(target.elts) == len(value.elts) >= 2):
            return False
        if not all(isinstance(e, ast.Name) for e in target.elts + value.elts):
            return False
        lhs, rhs = [e.id for e in target.elts], [e.id for e in value.elts]
        return len(set(lhs)) == len(lhs) and sorted(lhs) == sorted(rhs) and all(v in self.local for v in lhs)

    def stores_in(self, nodes) -> set:
        """the variables a piece of code may change: assigned names (not the targets of comprehensions, which are local to them),
        receivers of mutating methods / item assignments, and the hidden call counter of `stream` functions"""
        out = set()

        def visit(n):
            if isinstance(n, ast.comprehension):
                visit(n.iter)
                for c in n.ifs:
                    visit(c)
                return
            if isinstance(n, ast.Name) and isinstance(n.ctx, ast.Store):
                out.add(n.id)
            if isinstance(n, ast.Call) and isinstance(n.func, ast.Attribute) and n.func.attr in MUTATORS and isinstance(n.func.value, ast.Name):
                out.add(n.func.value.id)
            if isinstance(n, ast.Subscript) and isinstance(n.ctx, ast.Store) and isinstance(n.value, ast.Name):
                out.add(n.value.id)
            if isinstance(n, ast.Call) and self.local and self.global_kind(n.func) == "stream":
                out.add(CALLS)
            for c in ast.iter_child_nodes(n):
                visit(c)

        for n in nodes:
            visit(n)
        return out

    def is_fresh(self, v) -> bool:
        """an expression whose value is a new object nothing else refers to"""
        if isinstance(v, (ast.List, ast.Dict, ast.DictComp)):
            return True
        if isinstance(v, ast.Subscript) and isinstance(v.slice, ast.Slice):
            return True        # a slice of a list is a copy
        if isinstance(v, ast.Call) and self.is_builtin(v.func, "list") and not v.keywords:
            return True
        return isinstance(v, ast.Call) and self.global_kind(v.func) == "bytesio"

    def use_extern(self, name):
        if name not in self.used_externs:
            self.used_externs.append(name)

    def dotted(self, n):
        parts = []
        while isinstance(n, ast.Attribute):
            parts.append(n.attr)
            n = n.value
        if not isinstance(n, ast.Name) or n.id in self.local:
            return None
        return ".".join([n.id] + parts[::-1])

    def global_entry(self, n):
        d = self.dotted(n)
        if d is None or d not in self.u.registry:
            return None
        obj, kind, term = self.u.registry[d]
        got = _resolve(self.globs, d)
        if got is not obj and not (inspect.ismethod(obj) and got == obj):
            raise self.bad(f"the name {d} does not denote the registered object")
        return kind, term

    def global_kind(self, n):
        e = self.global_entry(n)
        return e[0] if e else None

    def is_builtin(self, n, name) -> bool:
        return isinstance(n, ast.Name) and n.id == name and name not in self.local and self.globs.get(name, getattr(builtins, name)) is getattr(builtins, name)

    # ---- expressions: (prelude lines, term of type V) ------------------------------------------------------------------
    def expr(self, n, ind) -> tuple[list, str]:
        P = " " * ind
        if isinstance(n, ast.Constant):
            return [], const_term(n.value)
        if isinstance(n, ast.Name):
            if n.id in self.local:
                if n.id not in self.declared:
                    raise self.bad(f"variable {n.id} may be used before it is assigned on this path")
                return [], lname(n.id)
            raise self.bad(f"free name {n.id}")
        if isinstance(n, ast.BoolOp):
            # value position: `a or b` is `a` when `a` is true, else `b` (evaluated only then); `and` dually
            is_or = isinstance(n.op, ast.Or)
            pre, cur = self.expr(n.values[0], ind)
            r = self.fresh()
            pre = pre + [f"{P}let mut {r} := {cur}"]
            for v in n.values[1:]:
                pv, tv = self.expr(v, ind + 2)
                pre.append(f"{P}if ({'!' if is_or else ''}(PyU.truthy {r})) then")
                pre += pv + [f"{P}  {r} := {tv}"]
            return pre, r
        if isinstance(n, ast.Compare) or isinstance(n, ast.UnaryOp) and isinstance(n.op, ast.Not):
            p, c = self.cond(n, ind)
            return p, f"(V.bool {c})"
        if isinstance(n, ast.BinOp):
            if type(n.op) not in BINOP:
                raise self.bad(f"operator {type(n.op).__name__}")
            pa, a = self.expr(n.left, ind)
            pb, b = self.expr(n.right, ind)
            t = self.fresh()
            return pa + pb + [f"{P}let {t} ← PyU.{BINOP[type(n.op)]} {a} {b}"], t
        if isinstance(n, ast.UnaryOp) and isinstance(n.op, ast.USub):
            if isinstance(n.operand, ast.Constant) and isinstance(n.operand.value, int) and not isinstance(n.operand.value, bool):
                return [], const_term(-n.operand.value)
            pa, a = self.expr(n.operand, ind)
            t = self.fresh()
            return pa + [f"{P}let {t} ← PyU.neg {a}"], t
        if isinstance(n, ast.IfExp):
            pc, c = self.cond(n.test, ind)
            pa, a = self.expr(n.body, ind)
            pb, b = self.expr(n.orelse, ind)
            if pa or pb:
                raise self.bad("conditional expression with raising branches")
            return pc, f"(if {c} then {a} else {b})"
        if isinstance(n, (ast.Tuple, ast.List)):
            pre, terms = self.exprs(n.elts, ind)
            return pre, f"(V.{'tuple' if isinstance(n, ast.Tuple) else 'list'} [{', '.join(terms)}])"
        if isinstance(n, ast.Dict):
            if any(k is None for k in n.keys):
                raise self.bad("dict display with ** unpacking")
            pre, items = [], []
            for k, v in zip(n.keys, n.values):
                pk, tk = self.expr(k, ind)
                pv, tv = self.expr(v, ind)
                pre += pk + pv
                items.append(f"({tk}, {tv})")
            t = self.fresh()
            return pre + [f"{P}let {t} ← PyU.mkDict [{', '.join(items)}]"], t
        if isinstance(n, ast.Subscript):
            pa, a = self.expr(n.value, ind)
            t = self.fresh()
            if isinstance(n.slice, ast.Slice):
                if n.slice.step is not None:
                    st_ = n.slice.step
                    minus1 = (isinstance(st_, ast.UnaryOp) and isinstance(st_.op, ast.USub) and isinstance(st_.operand, ast.Constant)
                              and st_.operand.value == 1 and type(st_.operand.value) is int)
                    if not minus1 or n.slice.lower is not None or n.slice.upper is not None:
                        raise self.bad("slice with a step (other than `[::-1]`)")
                    return pa + [f"{P}let {t} ← PyU.sliceRev {a}"], t
                pl, lo = self.expr(n.slice.lower, ind) if n.slice.lower is not None else ([], "V.none")
                ph, hi = self.expr(n.slice.upper, ind) if n.slice.upper is not None else ([], "V.none")
                return pa + pl + ph + [f"{P}let {t} ← PyU.slice {a} {lo} {hi}"], t
            pi, i = self.expr(n.slice, ind)
            return pa + pi + [f"{P}let {t} ← PyU.getItem {a} {i}"], t
        if isinstance(n, ast.JoinedStr):
            return self.fstring(n, ind)
        if isinstance(n, ast.Attribute):
            if self.global_kind(n.value) == "enum":
                if n.attr not in getattr(self.u.registry[self.dotted(n.value)][0], "__members__", {}):
                    raise self.bad(f"{ast.unparse(n)} is not a member of the enum")
                t = self.fresh()
                return [f"{P}let {t} ← PyU.enumMember {self.global_entry(n.value)[1]} {lean_string(n.attr)}"], t
            if not n.attr.startswith("_") and self.dotted(n) is None:
                po, o = self.expr(n.value, ind)
                t = self.fresh()
                return po + [f"{P}let {t} ← PyU.getAttr {o} {lean_string(n.attr)}"], t
            raise self.bad(f"attribute {ast.unparse(n)[:60]}")
        if isinstance(n, ast.Call):
            return self.call(n, ind)
        if isinstance(n, ast.DictComp):
            return self.dictcomp(n, ind)
        raise self.bad(f"expression {type(n).__name__}: {ast.unparse(n)[:60]}")

    def bind_target(self, target, term, ind) -> list:
        """`target = term` for a name or a tuple of two / three names (loop targets)"""
        P = " " * ind
        if isinstance(target, ast.Name):
            return [self.bind(target.id, term, ind)]
        if isinstance(target, ast.Tuple) and len(target.elts) in (2, 3) and all(isinstance(e, ast.Name) for e in target.elts):
            r = self.fresh()
            k = len(target.elts)
            out = [f"{P}let {r} ← PyU.unpack{k} {term}"]
            for i, e in enumerate(target.elts):
                out.append(self.bind(e.id, r + ".2" * i + (".1" if i < k - 1 else ""), ind))
            return out
        raise self.bad(f"assignment target {ast.unparse(target)[:40]}")

    def dictcomp(self, n: ast.DictComp, ind):
        """`{k: v for x in it if c}`: a definition of its own that adds one item to the dict (the targets are local to it), run
        by `PyU.forList` over the items of `it` (evaluated in the enclosing scope)"""
        P = " " * ind
        if len(n.generators) != 1 or n.generators[0].is_async:
            raise self.bad("comprehension with several `for` clauses")
        g = n.generators[0]
        pi, it = self.expr(g.iter, ind)
        items = self.fresh()
        self.comps += 1
        name = f"{lname(self.fd.name)}_comp{self.comps}"
        targets = {m.id for m in ast.walk(g.target) if isinstance(m, ast.Name)}
        inner = [n.key, n.value] + list(g.ifs)
        used = {m.id for e in inner for m in ast.walk(e) if isinstance(m, ast.Name)}
        if self.stores_in(inner):
            raise self.bad("a comprehension that changes a variable")
        captured = [v for v in self.declared if v in used and v not in targets]
        saved = (list(self.declared), self.in_loop)
        self.declared = list(captured)
        self.in_loop = None
        item = self.fresh()
        lines = self.bind_target(g.target, item, 2)
        for c in g.ifs:
            pc, tc = self.cond(c, 2)
            lines += pc + [f"  if (!{tc}) then", "    return (PyU.Ctl.cont, st)"]
        pk, k = self.expr(n.key, 2)
        pv, v = self.expr(n.value, 2)
        r = self.fresh()
        lines += pk + pv + [f"  let {r} ← PyU.setItem st {k} {v}", f"  return (PyU.Ctl.cont, {r})"]
        self.declared, self.in_loop = saved
        binders = "".join(f" ({lname(v)} : V)" for v in captured) + f" ({item} : V) (st : V)"
        self.loop_defs.append(f"/-- one item of comprehension {self.comps} of `{self.fd.name}`; state: the dict built so far -/\n"
                              f"def {name}«XB»{binders} : «M» (PyU.Ctl × V) := do\n" + "\n".join(lines) + "\n")
        self.loop_names.append(name)
        t = self.fresh()
        args = "".join(f" {lname(v)}" for v in captured)
        return pi + [f"{P}let {items} ← PyU.iterList {it}", f"{P}let {t} ← PyU.forList {items} ({name}«XA»{args}) (V.dict [] [])"], t

    def exprs(self, items, ind):
        pre, terms = [], []
        for it in items:
            p, t = self.expr(it, ind)
            pre += p
            terms.append(t)
        return pre, terms

    def pieces(self, parts, ind, args_first):
        """parts: str literals and (expression node, spec) fields -> a `V.str` term.  `str.format` evaluates all arguments
        before it formats the first one (`args_first`); an f-string evaluates and formats field by field."""
        P = " " * ind
        pre, fmts, terms = [], [], []
        for part in parts:
            if isinstance(part, str):
                if part:
                    terms.append(f"PyU.cps {lean_string(part)}")
            else:
                node, spec = part
                if spec not in ("", "x", "!r"):
                    raise self.bad(f"format spec {spec!r}")
                p, v = self.expr(node, ind)
                t = self.fresh()
                pre += p
                if spec == "!r":
                    op = f"PyU.fmtR {v}"
                elif spec == "" and isinstance(node, (ast.Tuple, ast.List)):
                    op = f"PyU.fmtS {v}"        # `str()` of a tuple / list display is its `repr`
                else:
                    op = f"PyU.fmt {v} {lean_string(spec)}"
                (fmts if args_first else pre).append(f"{P}let {t} ← {op}")
                terms.append(t)
        return pre + fmts, "(V.str (" + (" ++ ".join(terms) if terms else "[]") + "))"

    def type_refs(self, n) -> list:
        """the second argument of `isinstance`"""
        if isinstance(n, ast.Tuple):
            return [t for e in n.elts for t in self.type_refs(e)]
        if isinstance(n, ast.Name) and n.id in ISINSTANCE and self.is_builtin(n, n.id):
            return [ISINSTANCE[n.id]]
        e = self.global_entry(n)
        if e is not None and e[0] in ("ntcls", "cls"):
            return [f"(PyU.Ty.cls {e[1]})"]
        raise self.bad(f"isinstance with the class {ast.unparse(n)[:40]}")

    def construct(self, n: ast.Call, term, cls, ind):
        """`Cls(a, b, f=c)` for a registered NamedTuple class: the fields in declaration order, defaults filled in"""
        fields = list(cls._fields)
        defaults = dict(cls._field_defaults)
        if len(n.args) > len(fields):
            raise self.bad(f"too many arguments for {cls.__name__}")
        pre, args = self.exprs(n.args, ind)
        vals = dict(zip(fields, args))
        for k in n.keywords:
            if k.arg not in fields or k.arg in vals:
                raise self.bad(f"{cls.__name__}: unexpected / repeated field {k.arg}")
            p, t = self.expr(k.value, ind)
            pre += p
            vals[k.arg] = t
        for f in fields:
            if f not in vals:
                if f not in defaults:
                    raise self.bad(f"{cls.__name__}: missing field {f}")
                vals[f] = const_term(defaults[f])
        return pre, f"(V.inst {term} [{', '.join(vals[f] for f in fields)}])"

    def fstring(self, n: ast.JoinedStr, ind):
        parts = []
        for v in n.values:
            if isinstance(v, ast.Constant) and isinstance(v.value, str):
                parts.append(v.value)
            elif isinstance(v, ast.FormattedValue) and v.conversion == ord("r") and v.format_spec is None:
                parts.append((v.value, "!r"))
            elif isinstance(v, ast.FormattedValue) and v.conversion == -1:
                spec = ""
                if v.format_spec is not None:
                    fs = v.format_spec.values
                    if not all(isinstance(x, ast.Constant) and isinstance(x.value, str) for x in fs):
                        raise self.bad("computed format spec")
                    spec = "".join(x.value for x in fs)
                parts.append((v.value, spec))
            else:
                raise self.bad("f-string conversion (!s / !a, or !r with a format spec)")
        return self.pieces(parts, ind, False)

    def call(self, n: ast.Call, ind):
        P = " " * ind
        f = n.func
        if any(k.arg is None for k in n.keywords):
            raise self.bad(f"**kwargs in {ast.unparse(n)[:60]}")
        entry = self.global_entry(f)
        if entry is not None and entry[0] == "ntcls":
            return self.construct(n, entry[1], self.u.registry[self.dotted(f)][0], ind)
        if entry is not None and entry[0] == "extern":
            name, npos, kwnames = entry[1]
            if len(n.args) != npos or sorted(k.arg for k in n.keywords) != sorted(kwnames):
                raise self.bad(f"{ast.unparse(f)} is registered with {npos} positional arguments and the keywords {kwnames}")
            pre, args = self.exprs(n.args, ind)
            kwv = {}
            for k in n.keywords:
                pk, tk = self.expr(k.value, ind)
                pre += pk
                kwv[k.arg] = tk
            self.use_extern(name)
            t = self.fresh()
            return pre + [f"{P}let {t} ← {name} {' '.join(args + [kwv[x] for x in kwnames])}"], t
        if isinstance(f, ast.Attribute) and f.attr == "_replace" and not n.args and self.dotted(f) is None:
            po, o = self.expr(f.value, ind)
            items = []
            for k in n.keywords:
                pk, tk = self.expr(k.value, ind)
                po += pk
                items.append(f"({lean_string(k.arg)}, {tk})")
            t = self.fresh()
            return po + [f"{P}let {t} ← PyU.replace {o} [{', '.join(items)}]"], t
        if isinstance(f, ast.Attribute) and f.attr in ("decode", "encode") and self.dotted(f) is None:
            return self.codec(n, ind)
        if n.keywords:
            raise self.bad(f"keyword arguments in {ast.unparse(n)[:60]}")
        if isinstance(f, ast.Attribute) and f.attr == "read" and isinstance(f.value, ast.Name) and f.value.id in self.mutable:
            return self.expr_read(n, ind)
        if self.is_builtin(f, "isinstance"):
            p, c = self.cond(n, ind)
            return p, f"(V.bool {c})"
        if entry is not None:
            kind, term = entry
            pre, args = self.exprs(n.args, ind)
            if kind == "stream":
                name, arity = term
                if len(args) != arity or CALLS not in self.declared:
                    raise self.bad(f"{ast.unparse(f)} called with {len(args)} arguments (registered with {arity})")
                self.use_extern(name)
                t = self.fresh()
                return pre + [f"{P}let {t} ← {name} t0 {' '.join(args)}", f"{P}t0 := PyU.next t0"], t
            if kind == "noop":
                return pre, "V.none"
            t = self.fresh()
            if kind == "bytesio":
                if len(args) > 1:
                    raise self.bad("io.BytesIO with more than one argument")
                return pre + [f"{P}let {t} ← PyU.newBytesIO {args[0] if args else 'V.none'}"], t
            if kind == "enum":
                if len(args) > 1:
                    raise self.bad("enum class called with more than one argument")
                return pre + [f"{P}let {t} ← PyU.enumCall {term} {args[0] if args else 'V.none'}"], t
            if kind == "func":
                name, arity = term
                if len(args) != arity:
                    raise self.bad(f"{ast.unparse(f)} called with {len(args)} arguments (registered with {arity})")
                return pre + [f"{P}let {t} ← {name} {' '.join(args)}"], t
            raise self.bad(f"registry kind {kind}")
        if self.is_builtin(f, "len") and len(n.args) == 1:
            pa, a = self.expr(n.args[0], ind)
            t = self.fresh()
            return pa + [f"{P}let {t} ← PyU.len {a}"], t
        if self.is_builtin(f, "list") and len(n.args) == 1:
            pa, a = self.expr(n.args[0], ind)
            t = self.fresh()
            return pa + [f"{P}let {t} ← PyU.listOf {a}"], t
        if self.is_builtin(f, "int") and len(n.args) == 1:
            if self.u.int_tables is None:
                raise self.bad("`int(x)`: the plug-in did not provide the Unicode tables")
            pa, a = self.expr(n.args[0], ind)
            t = self.fresh()
            return pa + [f"{P}let {t} ← PyU.intOf {self.u.int_tables} {a}"], t
        if isinstance(f, ast.Name) and f.id in self.u.sigs and f.id not in self.local:
            sg = self.u.sigs[f.id]
            if len(n.args) > len(sg.params):
                raise self.bad(f"too many arguments for {f.id}")
            pre, args = self.exprs(n.args, ind)
            for p, d in sg.params[len(args):]:
                if d is None:
                    raise self.bad(f"missing argument {p} of {f.id}")
                args.append(d)
            if sg.fuel:
                self.needs_fuel = True
                args.insert(0, "fuel")
            if sg.asserts and not self.asserts:
                raise self.bad(f"{f.id} can raise AssertionError; the caller must contain an `assert` itself (monad PyU.PyA)")
            if any(self.u.registry[k][1] == "stream" and self.u.registry[k][2][0] in sg.externs for k in self.u.registry):
                raise self.bad(f"{f.id} uses a `stream` function; only the outermost function may")
            for e in sg.externs:
                self.use_extern(e)
            args = list(sg.externs) + args
            t = self.fresh()
            return pre + [f"{P}let {t} ← {sg.name} {' '.join(args)}"], t
        if isinstance(f, ast.Attribute):
            m = f.attr
            if m in MUTATORS:
                raise self.bad(f"`.{m}(…)` in a position where the changed object cannot be rebound")
            if m == "format" and isinstance(f.value, ast.Constant) and isinstance(f.value.value, str):
                parts, k = [], 0
                for literal, field, spec, conv in string.Formatter().parse(f.value.value):
                    parts.append(literal)
                    if field is None:
                        continue
                    if field != "" or conv is not None or k >= len(n.args):
                        raise self.bad(f"format field {{{field}!{conv}}} / too few arguments")
                    parts.append((n.args[k], spec or ""))
                    k += 1
                if k != len(n.args):
                    raise self.bad("str.format with unused arguments")
                return self.pieces(parts, ind, True)
            if m in METHODS:
                fn_, lo, hi, dflt = METHODS[m]
                if not lo <= len(n.args) <= hi:
                    raise self.bad(f"{m} with {len(n.args)} arguments")
                po, o = self.expr(f.value, ind)
                pre, args = self.exprs(n.args, ind)
                args += dflt[len(args):]
                t = self.fresh()
                return po + pre + [f"{P}let {t} ← " + " ".join([fn_, o] + args)], t
        raise self.bad(f"call {ast.unparse(n)[:70]}")

    def codec(self, n: ast.Call, ind):
        """`x.decode(encoding, errors)` / `x.encode(encoding, errors)` with literal arguments (positional or keyword)"""
        P = " " * ind
        m = n.func.attr
        lits = {}
        for name, a in list(zip(["encoding", "errors"], n.args)) + [(k.arg, k.value) for k in n.keywords]:
            if name in lits or name not in ("encoding", "errors") or not (isinstance(a, ast.Constant) and isinstance(a.value, str)):
                raise self.bad(f"{m} with non-literal / unknown arguments")
            lits[name] = a.value
        if len(n.args) > 2:
            raise self.bad(f"{m} with more than two arguments")
        enc = CODECS.get(lits.get("encoding", "utf-8").lower().replace("_", "-"))
        key = (enc, lits.get("errors", "strict"))
        table = DECODE if m == "decode" else ENCODE
        if key not in table:
            raise self.bad(f"{m}({', '.join(f'{k}={v!r}' for k, v in lits.items())})")
        po, o = self.expr(n.func.value, ind)
        t = self.fresh()
        return po + [f"{P}let {t} ← {table[key]} {o}"], t

    # ---- conditions: (prelude lines, term of type Bool) ----------------------------------------------------------------
    def cond(self, n, ind) -> tuple[list, str]:
        P = " " * ind
        if isinstance(n, ast.UnaryOp) and isinstance(n.op, ast.Not):
            p, c = self.cond(n.operand, ind)
            return p, f"(!{c})"
        if isinstance(n, ast.Compare):
            if len(n.ops) != 1:
                raise self.bad("chained comparison")
            op, rhs = n.ops[0], n.comparators[0]
            pa, a = self.expr(n.left, ind)
            if isinstance(op, (ast.Is, ast.IsNot)):
                if not (isinstance(rhs, ast.Constant) and rhs.value is None):
                    raise self.bad("`is` with something other than None")
                return pa, (f"(PyU.isNone {a})" if isinstance(op, ast.Is) else f"(!(PyU.isNone {a}))")
            pb, b = self.expr(rhs, ind)
            if isinstance(op, (ast.Eq, ast.NotEq)):
                return pa + pb, (f"(PyU.eq {a} {b})" if isinstance(op, ast.Eq) else f"(!(PyU.eq {a} {b}))")
            t = self.fresh()
            if isinstance(op, (ast.In, ast.NotIn)):
                return pa + pb + [f"{P}let {t} ← PyU.contains {b} {a}"], (t if isinstance(op, ast.In) else f"(!{t})")
            if type(op) in ORDER:
                return pa + pb + [f"{P}let {t} ← PyU.{ORDER[type(op)]} {a} {b}"], t
            raise self.bad(f"comparison {type(op).__name__}")
        if isinstance(n, ast.BoolOp):
            is_and = isinstance(n.op, ast.And)
            pre, cur = self.cond(n.values[0], ind)
            pre = list(pre)
            for v in n.values[1:]:
                pv, tv = self.cond(v, ind + 2)
                if not pv:
                    cur = f"({cur} {'&&' if is_and else '||'} {tv})"
                else:
                    r = self.fresh()
                    pre.append(f"{P}let mut {r} := {cur}")
                    pre.append(f"{P}if {r if is_and else f'(!{r})'} then")
                    pre += pv
                    pre.append(f"{P}  {r} := {tv}")
                    cur = r
            return pre, cur
        if isinstance(n, ast.Constant) and isinstance(n.value, bool):
            return [], "true" if n.value else "false"
        if isinstance(n, ast.Call) and self.is_builtin(n.func, "isinstance") and len(n.args) == 2 and not n.keywords:
            pa, a = self.expr(n.args[0], ind)
            return pa, f"(PyU.isInstance {a} [{', '.join(self.type_refs(n.args[1]))}])"
        p, t = self.expr(n, ind)
        return p, f"(PyU.truthy {t})"

    # ---- statements -----------------------------------------------------------------------------------------------------
    def bind(self, name, term, ind) -> str:
        P = " " * ind
        if name in self.declared:
            return f"{P}{lname(name)} := {term}"
        self.declared.append(name)
        return f"{P}let mut {lname(name)} := {term}"

    def exit_loop(self, ctl, ind) -> str:
        return f"{' ' * ind}return (PyU.Ctl.{ctl}, {tuple_term([lname(v) for v in self.in_loop])})"

    def block(self, stmts, ind) -> tuple[list, bool]:
        """lines of a block; second component: every path through the block ends in return / raise / break / continue"""
        P = " " * ind
        out = []
        term = False
        for st in stmts:
            if term:
                raise self.bad("unreachable statement after return / raise / break / continue")
            if isinstance(st, ast.Expr) and isinstance(st.value, ast.Constant) and isinstance(st.value.value, str):
                continue  # docstring
            if isinstance(st, ast.Pass):
                continue
            if isinstance(st, ast.Return):
                if self.in_loop is not None:
                    raise self.bad("return inside a loop")
                if st.value is None:
                    raise self.bad("bare return")
                p, t = self.expr(st.value, ind)
                out += p + [f"{P}return {t}"]
                term = True
            elif isinstance(st, ast.Raise):
                exc = st.exc
                name = exc.func.id if isinstance(exc, ast.Call) and isinstance(exc.func, ast.Name) else (exc.id if isinstance(exc, ast.Name) else None)
                if name not in EXC or st.cause is not None or not self.is_builtin(exc.func if isinstance(exc, ast.Call) else exc, name):
                    raise self.bad(f"raise {ast.unparse(st)[:60]}")
                if isinstance(exc, ast.Call):
                    if exc.keywords:
                        raise self.bad("keyword arguments of an exception")
                    p, _ = self.exprs(exc.args, ind)
                    out += p
                out.append(f"{P}throw «T{EXC[name]}»")
                term = True
            elif isinstance(st, ast.Assert):
                if st.msg is not None and not isinstance(st.msg, ast.Constant):
                    raise self.bad("assert with a computed message")
                p, c = self.cond(st.test, ind)
                out += p + [f"{P}if (!{c}) then", f"{P}  throw PyU.ExcA.assertion"]
            elif isinstance(st, ast.Break) or isinstance(st, ast.Continue):
                if self.in_loop is None:
                    raise self.bad("break / continue outside a loop")
                out.append(self.exit_loop("brk" if isinstance(st, ast.Break) else "cont", ind))
                term = True
            elif isinstance(st, (ast.Assign, ast.AnnAssign)):
                if isinstance(st, ast.AnnAssign):
                    if st.value is None:
                        continue
                    target = st.target
                else:
                    if len(st.targets) != 1:
                        raise self.bad("chained assignment")
                    target = st.targets[0]
                if isinstance(target, ast.Name):
                    p, t = self.expr(st.value, ind)
                    out += p + [self.bind(target.id, t, ind)]
                elif self.is_permutation(target, st.value):
                    for e in st.value.elts:
                        if e.id not in self.declared:
                            raise self.bad(f"variable {e.id} may be used before it is assigned on this path")
                    tmps = [self.fresh() for _ in st.value.elts]
                    out += [f"{P}let {t} := {lname(e.id)}" for t, e in zip(tmps, st.value.elts)]
                    out += [self.bind(e.id, t, ind) for t, e in zip(tmps, target.elts)]
                elif isinstance(target, ast.Subscript) and isinstance(target.value, ast.Name) and target.value.id in self.mutable \
                        and not isinstance(target.slice, ast.Slice):
                    v = target.value.id
                    if v not in self.declared:
                        raise self.bad(f"variable {v} may be used before it is assigned on this path")
                    p, t = self.expr(st.value, ind)        # CPython: the value first, then the container and the key
                    pk, k = self.expr(target.slice, ind)
                    r = self.fresh()
                    out += p + pk + [f"{P}let {r} ← PyU.setItem {lname(v)} {k} {t}", f"{P}{lname(v)} := {r}"]
                elif isinstance(target, ast.Tuple) and len(target.elts) in (2, 3) and all(isinstance(e, ast.Name) for e in target.elts):
                    p, t = self.expr(st.value, ind)
                    r = self.fresh()
                    k = len(target.elts)
                    out += p + [f"{P}let {r} ← PyU.unpack{k} {t}"]
                    for i, e in enumerate(target.elts):
                        out.append(self.bind(e.id, r + ".2" * i + (".1" if i < k - 1 else ""), ind))
                else:
                    raise self.bad(f"assignment target {ast.unparse(target)[:40]}")
            elif isinstance(st, ast.AugAssign):
                if not isinstance(st.target, ast.Name) or st.target.id not in self.declared or st.target.id in self.mutable:
                    raise self.bad(f"augmented assignment to {ast.unparse(st.target)[:40]}")
                if type(st.op) not in BINOP:
                    raise self.bad(f"operator {type(st.op).__name__}")
                p, b = self.expr(st.value, ind)
                t = self.fresh()
                op = "iadd" if isinstance(st.op, ast.Add) else BINOP[type(st.op)]
                out += p + [f"{P}let {t} ← PyU.{op} {lname(st.target.id)} {b}", f"{P}{lname(st.target.id)} := {t}"]
            elif isinstance(st, ast.Expr) and isinstance(st.value, ast.Call):
                out += self.call_stmt(st.value, ind)
            elif isinstance(st, ast.If):
                p, c = self.cond(st.test, ind)
                out += p
                saved = list(self.declared)
                body, tb = self.block(st.body, ind + 2)
                self.declared = list(saved)
                out.append(f"{P}if {c} then")
                out += body or [f"{P}  pure ()"]
                te = False
                if st.orelse:
                    orelse, te = self.block(st.orelse, ind + 2)
                    self.declared = list(saved)
                    out.append(f"{P}else")
                    out += orelse or [f"{P}  pure ()"]
                term = tb and te
            elif isinstance(st, (ast.While, ast.For)):
                out += self.loop(st, ind)
            else:
                raise self.bad(f"statement {type(st).__name__}: {ast.unparse(st)[:60]}")
        if out and out[-1].lstrip().startswith("let "):
            out.append(f"{P}pure ()")      # a Lean `do` block cannot end with a binding
        return out, term

    def call_stmt(self, c: ast.Call, ind) -> list:
        """an expression statement; `.append` / `.read` on a mutable variable rebind the variable"""
        P = " " * ind
        f = c.func
        if isinstance(f, ast.Attribute) and f.attr == "append" and isinstance(f.value, ast.Name) and f.value.id in self.mutable:
            if len(c.args) != 1 or c.keywords:
                raise self.bad("append with other than one argument")
            v = f.value.id
            if v not in self.declared:
                raise self.bad(f"variable {v} may be used before it is assigned on this path")
            p, t = self.expr(c.args[0], ind)
            r = self.fresh()
            return p + [f"{P}let {r} ← PyU.append {lname(v)} {t}", f"{P}{lname(v)} := {r}"]
        if isinstance(f, ast.Attribute) and f.attr == "insert" and isinstance(f.value, ast.Name) and f.value.id in self.mutable:
            if len(c.args) != 2 or c.keywords:
                raise self.bad("insert with other than two arguments")
            v = f.value.id
            if v not in self.declared:
                raise self.bad(f"variable {v} may be used before it is assigned on this path")
            p, ts = self.exprs(c.args, ind)
            r = self.fresh()
            return p + [f"{P}let {r} ← PyU.insert {lname(v)} {ts[0]} {ts[1]}", f"{P}{lname(v)} := {r}"]
        p, t = self.expr(c, ind)
        return p       # the call is bound in the prelude; its value is discarded

    def expr_read(self, n, ind):
        """`p.read(k)` for a mutable variable p: (prelude incl. the rebinding of p, term)"""
        P = " " * ind
        v = n.func.value.id
        if v not in self.declared:
            raise self.bad(f"variable {v} may be used before it is assigned on this path")
        if len(n.args) > 1:
            raise self.bad("read with several arguments")
        pre, args = self.exprs(n.args, ind)
        r = self.fresh()
        return pre + [f"{P}let {r} ← PyU.read {lname(v)} {args[0] if args else 'V.none'}", f"{P}{lname(v)} := {r}.2"], f"{r}.1"

    def loop(self, st, ind) -> list:
        """`while`: run by `PyU.whileFuel`; `for x in e`: the items of `e` (a snapshot taken before the loop: the body must not
        change the object it iterates over) run by `PyU.forList`"""
        P = " " * ind
        is_for = isinstance(st, ast.For)
        if st.orelse:
            raise self.bad("loop … else")
        if not is_for and self.asserts:
            raise self.bad("`while` in a function with `assert`")
        pre = []
        if is_for:
            if isinstance(st.iter, ast.Name) and st.iter.id in self.mutable:
                raise self.bad("iteration over a mutable variable")
            it_text = ast.unparse(st.iter)
            for n in ast.walk(st):
                if isinstance(n, ast.Call) and isinstance(n.func, ast.Attribute) and n.func.attr in MUTATORS and ast.unparse(n.func.value) == it_text:
                    raise self.bad("the loop changes the object it iterates over")
            pi, it = self.expr(st.iter, ind)
            items = self.fresh()
            pre = pi + [f"{P}let {items} ← PyU.iterList {it}"]
        self.loops += 1
        if not is_for:
            self.needs_fuel = True
        name = f"{lname(self.fd.name)}_loop{self.loops}"
        inside = [st] if not is_for else [st.target] + st.body
        stored = self.stores_in(inside)
        used = {n.id for m in inside for n in ast.walk(m) if isinstance(n, ast.Name)} | ({CALLS} if CALLS in stored else set())
        state = [v for v in self.declared if v in stored]
        captured = [v for v in self.declared if v in used and v not in stored]
        inner_has_loop = any(isinstance(n, ast.While) for s in st.body for n in ast.walk(s))
        if is_for:
            inner_has_loop = inner_has_loop or any(isinstance(n, ast.Call) and isinstance(n.func, ast.Name) and n.func.id in self.u.sigs
                                                   and self.u.sigs[n.func.id].fuel for s in st.body for n in ast.walk(s))
        # the body, as a definition of its own
        saved = (list(self.declared), self.in_loop, self.tmp)
        self.declared = list(captured) + list(state)
        self.in_loop = state
        lines = [f"  let mut {lname(v)} := {proj(k, len(state))}" for k, v in enumerate(state)]
        if is_for:
            item = self.fresh()
            lines += self.bind_target(st.target, item, 2)
        elif not (isinstance(st.test, ast.Constant) and st.test.value is True):
            p, c = self.cond(st.test, 2)
            lines += p + [f"  if (!{c}) then", self.exit_loop("brk", 4)]
        body, term = self.block(st.body, 2)
        lines += body
        if not term:
            lines.append(self.exit_loop("cont", 2))
        self.declared, self.in_loop, _ = saved
        sigma = tuple_type(len(state))
        binders = (" (fuel : Nat)" if inner_has_loop else "") + "".join(f" ({lname(v)} : V)" for v in captured) \
            + (f" ({item} : V)" if is_for else "") + f" (st : {sigma})"
        what = f"`for {ast.unparse(st.target)} in …`, " if is_for else ""
        self.loop_defs.append(f"/-- body of loop {self.loops} of `{self.fd.name}`; {what}state: ({', '.join(lname(v) for v in state) if is_for else ', '.join(state)}) -/\n"
                              f"def {name}«XB»{binders} : «M» (PyU.Ctl × ({sigma})) := do\n" + "\n".join(lines) + "\n")
        self.loop_names.append(name)
        r = self.fresh()
        args = (" fuel" if inner_has_loop else "") + "".join(f" {lname(v)}" for v in captured)
        if is_for:
            out = pre + [f"{P}let {r} ← PyU.forList {items} ({name}«XA»{args}) {tuple_term([lname(v) for v in state])}"]
        else:
            out = [f"{P}let {r} ← PyU.whileFuel fuel ({name}«XA»{args}) {tuple_term([lname(v) for v in state])}"]
        for k, v in enumerate(state):
            out.append(f"{P}{lname(v)} := {r if len(state) == 1 else '(' + proj(k, len(state)).replace('st', r, 1) + ')'}")
        return out

    def run(self):
        self.analyse()
        head = [f"  let mut {lname(p)} := {lname(p)}" for p in self.params if p in self.assigned]
        if self.uses_calls:
            head.append("  let mut t0 := (V.int 0)")
            self.declared.append(CALLS)
        body, term = self.block(self.fd.body, 2)
        if self.init is not None:
            cls_term, attrs = self.init
            if term:
                raise self.bad("`__init__` always raises")
            missing = [a for a in attrs if f"self__{a}" not in self.declared]
            if missing:
                raise self.bad(f"attributes {missing} are not assigned on every path (at the top level of `__init__`)")
            body.append(f"  return (V.inst {cls_term} [{', '.join(lname('self__' + a) for a in attrs)}])")
        elif not term:
            raise self.bad("a path reaches the end of the function without return")
        return head + body

"""py2leanu — UNTYPED translator from (a subset of) Python function *source* to Lean 4 definitions.

Sibling of `tools/py2lean.py` for dynamically typed code: every Python value is one Lean value of the universal type
`PyU.V` (lean/CsVerif/Model/PyU.lean), every Python operation is a call of one total function of that file, every
raising operation is bound in evaluation order (A-normal form) in the `Py = Except PyExc` monad.  Used by the plug-in
`tools/gen/py_beacon.py`; the property files prove `Gen.<f> = <hand-written model of f>` for all arguments.
A construct outside the subset raises `Unsupported` (→ proof obligation broken, never silently skipped).

Subset
  functions   module-level `def` with positional parameters (constant defaults), no decorators, no nested functions
  statements  `x = e`, `x: T = e`, `a, b = e` / `a, b, c = e`, `x += e` (and the other augmented operators), `if/elif/else`,
              `while <test>:` with `break` / `continue` (no `else`, no `return` inside), `return e`, `raise <Builtin>(args)`,
              `pass`, docstrings, expression statements that are calls, `name.append(e)`
  expressions names, `None True False`, int / bytes / str literals, tuple / list / dict displays, `+ - * // % & | ^ << >>`,
              unary `-`, `== != < <= > >=`, `is None` / `is not None`, `in` / `not in`, `not`, `and` / `or` in condition
              position (short-circuit), conditional expressions without raising branches, `x[i]`, `x[a:b]`, `x.name` / `x.value`,
              f-strings and `"literal".format(...)` with the fields `{}` and `{:x}`, calls of `len`, of other functions of the
              unit (defaults filled in), of the objects the plug-in registered (enum classes `Cls(e)` / `Cls.MEMBER`,
              `io.BytesIO(e)`, typed translations such as `u32be`, effect-free calls such as `logger.error`), and the
              methods `p.read(n)`, `b.rstrip(c)`, `b.partition(s)`, `b.decode()` / `.decode("latin-1", …)`, `d.get(k, default)`
  mutable objects   a name that is the receiver of `.append` / `.read` must be bound to a fresh object (`[...]`, `io.BytesIO(e)`)
              at every assignment and may otherwise only occur in `return <name>`: no second reference to a mutable object
              can exist, so threading the object as a value (`p.read(4)` ↦ data and new cursor) is exact
  loops       the body becomes a separate definition `<f>_loop<k>` over the tuple of the variables that are live before the
              loop and assigned in it; variables first assigned inside the body are local to one iteration (a use before the
              assignment in the same iteration, or after the loop, is rejected); the function gets a `fuel : Nat` parameter
              (`PyU.whileFuel`)
Evaluation order is left to right; every name of the source that is not a local variable must resolve (in the function's
globals, at translation time) to the very object the plug-in registered, or to an unshadowed builtin.

Objects (c2profile.py's `StringIterator`; run-time: lean/CsVerif/Model/PyU_T12.lean; see `_Fn.analyse_objects`)
  classes     a plain class registered with kind `obj`: `__init__` translated with `init_of=` (the constructor call, the instance
              is `V.inst cls [attributes]`), every other method with `method_of=`: `self.a` reads, `self.a = e` / `self.a += e`
              rebind `self` to the changed instance, a method that assigns an attribute answers `(result, self afterwards)`
  object variables   `v = Cls(args)`; `v.m(args)`, `next(v)`, `for x in v:` (= `v.__iter__()`, then `v.__next__()` before every run of
              the body until StopIteration; needs `__iter__` to return `self`; run by `PyU.whileFuelS`); no other use of `v`, so no
              second reference to the object can exist
  StopIteration   `raise StopIteration`; a function that can raise it lives in the monad `PyU.PyS` (`PyExc` + StopIteration)
  more        list comprehensions `[e for x in it if c]`, `repr(x)`, `ord(x)`, `chr(x)`, `bytes(x)`, `int(x, base)`, `x.replace(a, b)`,
              `sep.join(xs)`, `for i, x in enumerate(xs):`; reads of a mutable variable that hand out no reference to it
              (`x in v`, `len(v)`, `enumerate(v)`, `v[i]`; see `_Fn.t12_allowed`)

File objects, generators, file-owning instances (utils.iter_find_needle, artifact.iter_artifactkit_payloads, xordecode.py;
run-time: lean/CsVerif/Model/PyU_T15.lean; plug-ins gen/py_scan.py, gen/py_xor.py)
  file parameters   `Unit.translate(fn, files=[…])`: a parameter that is a binary file object of the caller occurs only as the receiver
              of `.read(n)` / `.seek(off[, whence])` / `.tell()`; it is threaded as a value and returned: the definition answers the
              tuple `(result, file, …)`
  generators  a function with `yield e` statements answers the LIST of the yielded values (what `list(f(…))` returns)
  registry    kind `gparam` (a module attribute read at call time, e.g. `io.DEFAULT_BUFFER_SIZE`: a value parameter of the
              definitions), kind `const` (a module attribute with a fixed literal value, e.g. `io.SEEK_END`; also as a parameter default)
  expressions conditional expressions WITH raising branches (only the chosen branch is evaluated), `x.find(sub[, start])`,
              negative int literals as parameter defaults; with `unit.t15_builtins`: `range(n)` as the iterable of a `for`, `max(a, b)`
  file-owning instance   `unit.t15_fobj = (self, [file attributes], {method: key})`: `self.fh.read/seek/tell(…)` act on the file held
              by the instance, `self.m(…)` calls a method translated the same way, every method answers `(result, self afterwards)`;
              `unit.t15_init_files = {attr: parameter}`: `__init__` moves the file parameter into the new instance (`_Fn.t15_analyse`)
  try         `try: … except OSError: …` with a handler that goes on (`_Fn.t15_try`); a variable that every continuing path of an
              `if` / `try` assigns and a later statement reads is declared before the statement (`_Fn.t15_stmt`)

`C2Profile.from_beacon_config` (c2profile.py; run-time: lean/CsVerif/Model/PyU_T13.lean; plug-in gen/py_c2gen.py; units with `t13 = True`)
  expressions `x is True` / `x is False`, `d.items()`, `sep.join(<generator expression>)` (translated as the list comprehension)
  defaultdict `v = collections.defaultdict(list)` (registry kind `t13ddlist`), the statement `v[k].append(e)`, `for … in v.items():`
              (`_Fn.t13_analyse`: no second reference to the dict or its lists)
  mutable     a list variable may be an argument of a registered external function (assumed not to keep or change it) and may be
              tested for truth
"""
from __future__ import annotations

import ast
import builtins
import inspect
import re
import string
import textwrap


class Unsupported(Exception):
    pass


LEAN_RESERVED = {"from", "at", "end", "open", "in", "do", "then", "else", "if", "let", "fun", "match", "with", "where", "have", "show",
                 "by", "def", "theorem", "namespace", "section", "variable", "universe", "instance", "class", "structure", "inductive",
                 "import", "export", "private", "protected", "mutual", "deriving", "return", "for", "unless", "mut", "try", "catch",
                 "finally", "throw", "type", "Type", "Prop", "Sort", "fuel", "st", "V", "Py", "PyU", "PyExc", "pure", "true", "false",
                 "break", "continue", "macro", "syntax", "notation", "example", "abbrev", "axiom", "opaque", "set_option", "using",
                 "calc", "suffices", "obtain", "nomatch", "nofun", "Nat", "Int", "Unit", "Bool", "String", "List", "Type"}

EXC = {"ValueError": "PyExc.valueError", "EOFError": "PyExc.eofError", "OSError": "PyExc.osError", "IndexError": "PyExc.indexError",
       "KeyError": "PyExc.keyError", "AttributeError": "PyExc.attributeError", "OverflowError": "PyExc.overflowError",
       "TypeError": "PyExc.typeError", "ZeroDivisionError": "PyExc.zeroDivisionError"}

BINOP = {ast.Add: "add", ast.Sub: "sub", ast.Mult: "mul", ast.FloorDiv: "floordiv", ast.Mod: "mod", ast.BitAnd: "band",
         ast.BitOr: "bor", ast.BitXor: "bxor", ast.LShift: "shl", ast.RShift: "shr"}
ORDER = {ast.Lt: "lt", ast.LtE: "le", ast.Gt: "gt", ast.GtE: "ge"}

# methods without side effect: name -> (runtime function, minimal / maximal number of arguments, defaults for the missing ones)
METHODS = {"rstrip": ("PyU.rstrip", 0, 1, ["V.none"]), "partition": ("PyU.partition", 1, 1, []),
           "get": ("PyU.dictGet", 1, 2, [None, "V.none"]),
           "split": ("PyU.split", 0, 1, ["V.none"]), "upper": ("PyU.upper", 0, 0, []), "lower": ("PyU.lower", 0, 0, []),
           "startswith": ("PyU.startswith", 1, 1, [])}
MUTATORS = {"append": 1, "read": (0, 1), "insert": 2}
# `x.decode(enc, errors)` / `x.encode(enc, errors)` for literal arguments: (canonical codec, error handler) -> runtime function
DECODE = {("utf-8", "strict"): "PyU.decodeUtf8", ("latin-1", "strict"): "PyU.decodeLatin1", ("latin-1", "ignore"): "PyU.decodeLatin1",
          ("latin-1", "replace"): "PyU.decodeLatin1", ("ascii", "strict"): "PyU.decodeAscii", ("ascii", "ignore"): "PyU.decodeAsciiIgnore"}
ENCODE = {("utf-8", "strict"): "PyU.encodeUtf8", ("latin-1", "strict"): "PyU.encodeLatin1", ("ascii", "strict"): "PyU.encodeAscii"}
CODECS = {"utf-8": "utf-8", "utf8": "utf-8", "latin-1": "latin-1", "latin1": "latin-1", "iso-8859-1": "latin-1", "ascii": "ascii",
          "us-ascii": "ascii"}
ISINSTANCE = {"int": "PyU.Ty.int", "bool": "PyU.Ty.bool", "bytes": "PyU.Ty.bytes", "str": "PyU.Ty.str", "list": "PyU.Ty.list",
              "tuple": "PyU.Ty.tuple", "dict": "PyU.Ty.dict"}
CALLS = "%calls"     # the hidden variable that counts the calls of a registered `stream` function (Lean name `t0`)
# -- file parameters and generators (run-time: lean/CsVerif/Model/PyU_T15.lean) --
# methods of a FILE PARAMETER (`Unit.translate(fn, files=[...])`): name -> (runtime function, min / max number of arguments,
# defaults of the missing ones, the call answers (result, file afterwards))
FILE_METHODS = {"read": ("PyU.fileRead", 0, 1, ["V.none"], True), "seek": ("PyU.fileSeek", 1, 2, [None, "(V.int 0)"], True),
                "tell": ("PyU.fileTell", 0, 0, [], False)}
YIELDS = "%yields"   # the hidden variable of a generator function: the list of the values yielded so far (Lean name `ys0`)
RET = "%ret"         # T18: the hidden variable of `return e` inside a loop (Lean name `ret0`; see the section "T18" of `_Fn`)
METHODS["find"] = ("PyU.find", 1, 2, [None, "V.none"])
# -- T02 (run-time: lean/CsVerif/Model/PyU_T02.lean): `p.seek(off[, whence])` on a BytesIO variable, cstruct structures read from a
# BytesIO variable (registry kind `struct`), attribute assignment on a fresh instance, `try … except <Builtin>: <terminating handler>`,
# registered constants (kind `const`), `str(x)` / `tuple(x)` / `max(x)`, `s.replace(a, b)`, calls of a local variable (extern `%callvalue`)
MUTATORS["seek"] = (1, 2)
METHODS["replace"] = ("PyU.strReplace", 2, 2, [])
# -- objects with translated methods, the iterator protocol, more builtins (run-time: lean/CsVerif/Model/PyU_T12.lean) --
METHODS["replace"] = ("PyU.strReplace", 2, 2, [])
METHODS["join"] = ("PyU.join", 1, 1, [])
BUILTIN1 = {"repr": "PyU.reprV", "ord": "PyU.ord", "chr": "PyU.chr", "bytes": "PyU.bytesOf"}     # builtins called with one argument
# -- T17 (guardrails.py; run-time: lean/CsVerif/Model/PyU_T17.lean; all of it is active only for a unit with `t17 = True`): `for … else`,
# `range(a, b)`, `bytes(x)`, external GENERATOR functions that are handed a file parameter (`unit.t17_filegens`), dataclass constructors
# (registry kind `dcls`), `collections.Counter()` (kind `counterctor`: `.update(<generator expression>)`, `.most_common(n)`),
# `io.BufferedReader(io.BytesIO(x))` (kind `bufreader`: `.peek(n)`), functions called with keyword arguments (kind `kwfunc`), and
# `for x in iter(functools.partial(f.read, n), <literal>)` (rewritten into `while True:` before the analysis, see `_t17_desugar_iter`)
T17_FRESH_KINDS = ("counterctor", "bufreader")
# -- T19 (client.py; run-time: lean/CsVerif/Model/PyU_T19.lean): `b.decode(errors="ignore")` (UTF-8), `n.to_bytes(length, byteorder)`,
# `s.replace(a, b)`, Python IntEnum classes (registry kind `intenum`), and — for units with `unit.t19 = True` — `try … except <Builtin>`
# with a handler that goes on, and the statements `self.a[k] = e` / `self.a[k].append(e)` on the first parameter (see `_Fn.t19_stmt`)
DECODE[("utf-8", "ignore")] = "PyU.decodeUtf8Ignore"
METHODS["to_bytes"] = ("PyU.toBytes", 2, 2, [])
# -- T01 (beacon.py extraction; run-time: lean/CsVerif/Model/PyU_T01.lean; see `_Fn.t01_scan`): `b.hex()`; for units with `unit.t01 = True`:
# dynamic dispatch of `read` / `seek` / `tell` on file parameters, handle variables, calls that are handed a file-like object,
# `try: H = <detector>(F); … except ValueError: …`, and an f-string field without conversion prints a list / tuple / bytes value by `repr`
METHODS["hex"] = ("PyU.t01Hex", 0, 0, [])
# -- T07 (c2.py: decrypt_metadata / encrypt_metadata, C2Http; run-time: lean/CsVerif/Model/PyU_T07.lean; see the section "T07" of `_Fn`):
# cstruct structures parsed from `bytes` (registry kind `t07struct`), IN-OUT parameters (`unit.t07_inout`: an object of the caller that
# the function changes by `p.a = e`; the definition answers `(result, p afterwards)`; `len(p)` / `p.dumps()` know the registered
# structure classes `unit.t07_structs` and can raise `struct.error`: monad `PyU.T07PyE`), constructors of external immutable objects
# whose methods are external functions (kind `t07ctor`, e.g. `PKCS1_v1_5.new(key)`), the format spec `0<w>x`
# -- T11 (c2profile.py: C2Profile.as_dict, the block builders; run-time: lean/CsVerif/Model/PyU_T11.lean; see the section "T11" of `_Fn`;
# all of it is active only for a unit with `unit.t11 = <Lean term of the class descriptor of lark.Token>`): `lark.Token` is a `str`
# (`==`, `in`, `join`, `str`, `tuple`, `repr` see the text a Token carries), `xs.pop()` / `xs.extend(ys)` on a list variable,
# `collections.defaultdict(list)` (registry kind `t11ddlist`) with the statement `d[k].append(e)` and `dict(d)`, `tuple(<generator
# expression>)`, constructors of plain record classes (kind `t11cls`), `hash(x)` as the external function registered as `%hash`, and a
# variable that is re-used for a temporary list is split in two (`_t11_split_temp`)
MUTATORS["pop"] = 0
MUTATORS["extend"] = 1
T11_FRESH_KINDS = ("t11ddlist",)
# -- T13 (c2profile.py `C2Profile.from_beacon_config`; run-time: lean/CsVerif/Model/PyU_T13.lean; all of it is active only for a unit with
# `t13 = True`; see the section "T13" of `_Fn`): `x is True` / `x is False`, `d.items()`, `sep.join(<generator expression>)`,
# `collections.defaultdict(list)` variables (registry kind `t13ddlist`: `v[k].append(e)`, `for … in v.items():`), a mutable variable as
# an argument of an external function / in a truth test


def lname(n: str) -> str:
    if n == "_":
        return "u_"
    if n == CALLS:
        return "t0"
    if n == YIELDS:
        return "ys0"
    if n == RET:
        return "ret0"
    if re.fullmatch(r"t\d+", n) or n.endswith("_") and n[:-1] in LEAN_RESERVED:
        raise Unsupported(f"variable name {n} clashes with the translator's own names")
    return n + "_" if n in LEAN_RESERVED else n


def lean_string(v: str) -> str:
    out = ['"']
    for ch in v:
        if ch in '"\\':
            out.append("\\" + ch)
        elif 32 <= ord(ch) < 127:
            out.append(ch)
        elif ord(ch) < 0x10000:
            out.append("\\u%04x" % ord(ch))
        else:
            raise Unsupported("string literal with a code point above U+FFFF")
    return "".join(out) + '"'


def const_term(v) -> str:
    if v is None:
        return "V.none"
    if isinstance(v, bool):
        return f"(V.bool {'true' if v else 'false'})"
    if isinstance(v, int):
        return f"(V.int {v})" if v >= 0 else f"(V.int ({v}))"
    if isinstance(v, bytes):
        return "(V.bytes [" + ", ".join(str(b) for b in v) + "])"
    if isinstance(v, str):
        return f"(PyU.lit {lean_string(v)})"
    raise Unsupported(f"constant {v!r}")


def tuple_type(n: int) -> str:
    return "Unit" if n == 0 else " × ".join(["V"] * n)


def tuple_term(names) -> str:
    return "()" if not names else (names[0] if len(names) == 1 else "(" + ", ".join(names) + ")")


def proj(k: int, n: int) -> str:
    """k-th component of a right-nested n-tuple `st`"""
    if n == 1:
        return "st"
    return "st" + ".2" * k + (".1" if k < n - 1 else "")


class Sig:
    def __init__(self, name, params, fuel, externs=(), asserts=False):
        self.name = name        # Lean name
        self.params = params    # [(python name, default term or None)]
        self.fuel = fuel        # takes a leading `fuel : Nat` parameter
        self.externs = list(externs)   # names of the external functions it is parameterised by (before `fuel`)
        self.asserts = asserts  # contains `assert`: the monad is `PyU.PyA` (PyExc + AssertionError)


def comp_targets(node) -> set:
    """names bound by the `for` clauses of the comprehensions inside `node` (local to the comprehension)"""
    out = set()
    for n in ast.walk(node):
        if isinstance(n, ast.comprehension):
            out |= {m.id for m in ast.walk(n.target) if isinstance(m, ast.Name)}
    return out


class _SelfAttrs(ast.NodeTransformer):
    """`__init__`: every `self.a` becomes the variable `self__a`"""

    def __init__(self, self_name):
        self.self_name = self_name
        self.attrs = []

    def visit_Attribute(self, n):
        if isinstance(n.value, ast.Name) and n.value.id == self.self_name:
            if n.attr not in self.attrs:
                self.attrs.append(n.attr)
            return ast.copy_location(ast.Name(id=f"self__{n.attr}", ctx=n.ctx), n)
        return self.generic_visit(n)


def _resolve(globs: dict, dotted: str):
    parts = dotted.split(".")
    if parts[0] not in globs:
        return None
    obj = globs[parts[0]]
    for p in parts[1:]:
        obj = getattr(obj, p, None)
    return obj


class Unit:
    """a set of functions translated together.  `registry`: dotted source name -> (python object, kind, lean term) with kind in
    `bytesio` (constructor of io.BytesIO), `enum` (a cstruct enum class; lean term : PyU.EnumCls), `func` (an effect-free
    function of positional `V` arguments into `Py V`), `noop` (a call that is evaluated for its arguments only)."""

    def __init__(self, namespace: str, imports: list, registry: dict):
        """further registry kinds: `ntcls` (a NamedTuple class; lean term : PyU.Cls; constructor calls with positional / keyword
        arguments, `isinstance`), `cls` (a plain class translated by `translate(..., init_of=cls)`; only `isinstance`), `extern`
        (an effect-free external function that becomes a parameter of the translated definitions: term = (lean name, number of
        positional arguments, [keyword names])), `stream` (an external function whose results depend on how often it was called
        before, e.g. `random.getrandbits`: term = (lean name, arity); the parameter gets the number of earlier calls first)"""
        self.namespace = namespace
        self.imports = imports
        self.registry = registry
        self.int_tables = None     # Lean term of type PyU.IntTables (needed by `int(x)`)
        self.prelude: list[str] = []
        self.sigs: dict[str, Sig] = {}
        self.defs: list[str] = []
        self.names: list[str] = []

    def extern_type(self, name: str) -> str:
        for _, kind, term in self.registry.values():
            if kind == "gparam" and term == name:     # a module attribute read at call time, e.g. `io.DEFAULT_BUFFER_SIZE`: a value parameter
                return "V"
        for _, kind, term in self.registry.values():
            if kind in ("extern", "stream") and term[0] == name:
                n = term[1] + len(term[2]) if kind == "extern" else term[1] + 1
                return " → ".join(["V"] * n + ["Py V"])
        for _, kind, term in self.registry.values():
            if kind == "t01xff" and term == name:         # T01: the detector `XorEncodedFile.from_file`, reified (see `_Fn.t01_stmt`)
                return "V → Py V"
            if kind in ("t01fileext", "t01ctor") and term[0] == name:  # T01: an external function that is handed a file-like object first /
                return " → ".join(["V"] * term[1] + ["Py V"])           #      an external constructor
        raise Unsupported(f"unknown extern {name}")

    def translate(self, fn, lean_name=None, init_of=None, files=(), method_of=None):
        """`fn`: a module-level function, or a method taken from the `__dict__` of its class (then `self` is an ordinary
        parameter).  `init_of=(cls, lean term of its PyU.Cls descriptor)`: `fn` is `cls.__init__`; the translated definition is
        the constructor call `cls(args)`: every `self.a` is a variable, the result is the instance with the attributes in the
        order of their first assignment (`self` itself must not be used in any other way).
        `files`: names of the parameters that are binary file objects owned by the caller (run-time: Model/PyU_T15.lean); they may
        only occur as the receiver of `.read(n)` / `.seek(off[, whence])` / `.tell()`; the translated definition returns the tuple
        `(result, file1, …)` — the files as they are afterwards.  (Assumed, not checked: different file parameters are different
        objects.)  A function that contains `yield e` statements is a GENERATOR: its result is the list of the yielded values, i.e.
        what `list(f(…))` returns (the caller is assumed to consume the generator completely; an exception discards the list).
        `method_of=<registry key of a class of kind obj>`: `fn` is a method of that class (see `_Fn.analyse_objects`); it is
        recorded as `unit.sigs["<key>.<method name>"]` (pass the Lean name of the definition as `lean_name`)."""
        src = textwrap.dedent(inspect.getsource(fn))
        mod = ast.parse(src)
        if len(mod.body) != 1 or not isinstance(mod.body[0], ast.FunctionDef):
            raise Unsupported(f"cannot isolate the definition of {fn!r}")
        fd = mod.body[0]
        if getattr(self, "t01_rewrite", None) is not None:
            fd = self.t01_rewrite(fd, fn.__globals__)                   # T01: the plug-in's desugaring (first-yield form, see gen/py_extractu.py)
            if not isinstance(fd, ast.FunctionDef):
                raise Unsupported("t01_rewrite did not answer a function definition")
        if getattr(self, "t18_classmethods", False) and [ast.unparse(d) for d in fd.decorator_list] == ["classmethod"] \
                and fn.__globals__.get("classmethod", builtins.classmethod) is builtins.classmethod:
            fd.decorator_list = []       # T18: the plug-in passes the `__func__` of a classmethod object; `cls` is an ordinary parameter
        if fd.decorator_list and not (getattr(self, "t02_property_getters", False) and [ast.unparse(d) for d in fd.decorator_list] == ["property"]
                                      and fn.__globals__.get("property", builtins.property) is builtins.property):
            # T02: the plug-in passes the `fget` of a read-only `property` object; the translation is the getter as a function of `self`
            raise Unsupported(f"{fd.name}: decorators")
        if getattr(self, "t17", False):
            fd = _t17_desugar_iter(fd, fn.__globals__, list(files))     # T17: `for x in iter(functools.partial(f.read, n), <literal>)`
        if getattr(self, "t07", False):
            fd = _t07_desugar(fd, fn.__globals__, self)                 # T07: `tuple(<generator expression>)` = `tuple([<list comprehension>])`, …
        if getattr(self, "t11", None):
            fd = _t11_split_temp(fd)                                    # T11: a variable re-used for a temporary list is split in two
        a = fd.args
        if a.vararg or a.kwarg or a.posonlyargs or a.kwonlyargs:
            raise Unsupported(f"{fd.name}: *args / **kwargs / positional-only / keyword-only parameters")
        defaults = [None] * (len(a.args) - len(a.defaults)) + list(a.defaults)
        params = []
        for p, d in zip(a.args, defaults):
            if d is not None and not isinstance(d, ast.Constant):
                dt = self.t15_default(d, fn.__globals__)      # T15: a negative int literal / a registered constant (`io.SEEK_SET`)
                if dt is None:
                    raise Unsupported(f"{fd.name}: non-literal default of {p.arg}")
                params.append((p.arg, dt))
                continue
            params.append((p.arg, None if d is None else const_term(d.value)))
        init_attrs = None
        if init_of is not None:
            if not params or params[0][1] is not None:
                raise Unsupported(f"{fd.name}: no `self` parameter")
            rw = _SelfAttrs(params[0][0])
            fd = ast.fix_missing_locations(rw.visit(fd))
            if any(isinstance(n, ast.Name) and n.id == params[0][0] for n in ast.walk(fd)):
                raise Unsupported(f"{fd.name}: `self` is used other than through its attributes")
            if any(isinstance(n, ast.Return) for n in ast.walk(fd)):
                raise Unsupported(f"{fd.name}: `return` in `__init__`")
            params = params[1:]
            init_attrs = rw.attrs
            for attr, par in (getattr(self, "t15_init_files", None) or {}).items():
                fd = _t15_move_file_attr(fd, attr, par)       # T15: `self.<attr> = <file parameter>` is a move
        key = lean_name or fd.name
        tr = _Fn(self, fd, fn.__globals__, [p for p, _ in params], init=(init_of[1], init_attrs) if init_of else None)
        tr.files = [f for f in files]
        tr.method_of = method_of
        if init_of is not None and getattr(self, "t15_init_files", None):
            tr.files = list(self.t15_init_files.values())     # T15: the file parameters that `__init__` moves into the instance
            tr.t15_init_files = dict(self.t15_init_files)
            if any(f not in tr.params for f in tr.files):
                raise Unsupported(f"{fd.name}: {tr.files} are not parameters")
        elif getattr(self, "t15_fobj", None) is not None:
            tr.fobj = self.t15_fobj                           # T15: `self` owns file objects (see `_Fn.t15_analyse`)
            if init_of is not None or method_of is not None or not tr.params or tr.params[0] != tr.fobj[0]:
                raise Unsupported(f"{fd.name}: the first parameter is not {tr.fobj[0]} / `__init__` / a T02 method")
        if any(f not in tr.params for f in tr.files) or (tr.files and init_of is not None and not tr.t15_init_files):
            raise Unsupported(f"{fd.name}: file parameters {list(files)} (not parameters, or in `__init__`)")
        body = tr.run()
        sig = Sig(lname(key), params, tr.needs_fuel, tr.used_externs, tr.asserts)
        sig.files, sig.is_gen = list(tr.files), tr.is_gen
        sig.fobj = tr.fobj[0] if tr.fobj is not None else None
        sig.stops, sig.mutates, sig.returns_self = tr.stops, tr.mutates, tr.returns_self
        sig.t11_selfmode = tr.t11_self()[0] if tr.t11_self() is not None else None      # T11: answers `(result, self afterwards)`
        self.sigs[f"{method_of}.{fd.name}" if method_of else key] = sig
        self.init_fields = init_attrs
        monad = "PyU.PyA" if sig.asserts else ("PyU.PyS" if sig.stops else "Py")
        exc_wrap = "PyU.ExcA.py" if sig.asserts else ("PyU.ExcS.py" if sig.stops else None)
        sig.t07_serr, sig.t07_inout = getattr(tr, "t07_serr", False), list(getattr(tr, "t07_inout_params", ()))
        if sig.t07_serr:                   # T07: `len(p)` / `p.dumps()` of a cstruct structure can raise `struct.error`
            if monad != "Py":
                raise Unsupported(f"{fd.name}: struct.error together with assert / StopIteration")
            monad, exc_wrap = "PyU.T07PyE", "PyU.T07Exc.py"
        xb = "".join(f" ({e} : {self.extern_type(e)})" for e in sig.externs)
        xa = "".join(f" {e}" for e in sig.externs)

        def fill(text):
            text = text.replace("«XB»", xb).replace("«XA»", xa).replace("«M»", monad)
            return re.sub(r"«T(.*?)»", (lambda m: f"({exc_wrap} {m.group(1)})") if exc_wrap else (lambda m: m.group(1)), text)

        binders = xb + (" (fuel : Nat)" if sig.fuel else "") + "".join(f" ({lname(p)} : V)" for p, _ in params)
        doc = f"/-- translated from `{fn.__module__}.{fn.__qualname__}`"
        if init_of:
            doc += f" (the constructor call: the new instance, attributes {', '.join(init_attrs)})"
        dflt = [f"{p}={d}" for p, d in params if d is not None]
        if dflt:
            doc += "; defaults: " + ", ".join(dflt)
        if sig.externs:
            doc += "; external functions: " + ", ".join(sig.externs)
        doc += " -/"
        self.defs += [fill(d) for d in tr.loop_defs]
        self.defs.append(f"{doc}\ndef {sig.name}{binders} : {monad} V := do\n" + fill("\n".join(body)) + "\n")
        self.names += tr.loop_names + [sig.name]
        # the calls with 1, 2, … trailing arguments left to their defaults
        nd = len([1 for _, d in params if d is not None])
        for k in range(1, nd + 1):
            given, omitted = params[:len(params) - k], params[len(params) - k:]
            b2 = xb + (" (fuel : Nat)" if sig.fuel else "") + "".join(f" ({lname(p)} : V)" for p, _ in given)
            args = (xa.strip() + " " if xa else "") + ("fuel " if sig.fuel else "") + " ".join([lname(p) for p, _ in given] + [d for _, d in omitted])
            shown = ", ".join(f"{p}={d}" for p, d in omitted)
            self.defs.append(f"/-- `{fd.name}` called with the default{'s' if k > 1 else ''} {shown} -/\n"
                             f"def {sig.name}_default{k}{b2} : {monad} V := {sig.name} {args}\n")
            self.names.append(f"{sig.name}_default{k}")
        return sig

    def t15_default(self, d, globs):
        """a parameter default that is a negative int literal, or a registered constant (registry kind `const`)"""
        if isinstance(d, ast.UnaryOp) and isinstance(d.op, ast.USub) and isinstance(d.operand, ast.Constant) and type(d.operand.value) is int:
            return const_term(-d.operand.value)
        if isinstance(d, (ast.Attribute, ast.Name)):
            key = ast.unparse(d)
            ent = self.registry.get(key)
            if ent is not None and ent[1] == "const":
                got = _resolve(globs, key)
                if type(got) is type(ent[0]) and got == ent[0]:
                    return ent[2]
        return None

    def render(self, header: str) -> str:
        imps = "".join(f"import {m}\n" for m in ["CsVerif.Model.PyU"] + self.imports)
        out = [f"{imps}/-! {header}\nGENERATED by tools/py2leanu.py from the working tree of /repo — do not edit. -/",
               f"namespace {self.namespace}", "open PyU (V)", "set_option linter.unusedVariables false", ""]
        out += self.prelude + self.defs
        out.append(f"end {self.namespace}")
        return "\n".join(out) + "\n"


def _t15_move_file_attr(fd, attr, par):
    """`__init__` after `_SelfAttrs`: the top-level statement `self__<attr> = <par>` for a file parameter `par` MOVES the file into
    the instance — required: it is the only assignment of `self__<attr>`, `self__<attr>` does not occur before it and `par` occurs
    nowhere else.  The statement is removed and `self__<attr>` renamed to `par`: the attribute IS the file parameter."""
    var = f"self__{attr}"
    idx = [i for i, st in enumerate(fd.body) if isinstance(st, ast.Assign) and len(st.targets) == 1 and isinstance(st.targets[0], ast.Name)
           and st.targets[0].id == var and isinstance(st.value, ast.Name) and st.value.id == par]
    stores = [n for n in ast.walk(fd) if isinstance(n, ast.Name) and n.id == var and not isinstance(n.ctx, ast.Load)]
    uses_par = [n for n in ast.walk(fd) if isinstance(n, ast.Name) and n.id == par]
    if len(idx) != 1 or len(stores) != 1 or len(uses_par) != 1:
        raise Unsupported(f"{fd.name}: `self.{attr} = {par}` is not the one place where the file parameter is stored")
    if any(isinstance(n, ast.Name) and n.id == var for st in fd.body[:idx[0]] for n in ast.walk(st)):
        raise Unsupported(f"{fd.name}: self.{attr} is used before it is assigned")
    del fd.body[idx[0]]
    for n in ast.walk(fd):
        if isinstance(n, ast.Name) and n.id == var:
            n.id = par
    return fd


def _t07_desugar(fd, globs, unit=None):
    """T07: `tuple(e for x in it if c)` / `list(…)` with the builtin `tuple` / `list` and no other argument builds the same object as
    `tuple([e for x in it if c])` (the generator expression is consumed completely, in order, before anything else happens; an
    exception of `e` / `c` / `it` propagates at the same point).
    `for x in v.m(): body` for a variable `v` and a GENERATOR METHOD `m` registered in `unit.t07_genmethods` (an external function
    that answers the tuple `(items yielded, the exception that ended the generator or None)`) becomes
        g = t07_extgen("m", v);  for x in g[0]: body;  t07_reraise(g[1])
    — exact when the body cannot influence the generator (it only reads `v`, which the generator does not change) and leaves the
    loop by no `break` / `return`: the items are processed in order and an exception of the generator surfaces after the last item.
    `f(a, k=b, **v._asdict())` for a function registered with kind `t07starfunc` becomes `f(a, k=b, t07_star=v)`."""
    stored = {n.id for n in ast.walk(fd) if isinstance(n, ast.Name) and not isinstance(n.ctx, ast.Load)} | {a.arg for a in fd.args.args}
    genmethods = getattr(unit, "t07_genmethods", None) or {}
    registry = getattr(unit, "registry", None) or {}
    counter = [0]

    class R(ast.NodeTransformer):
        def visit_For(self, st):
            self.generic_visit(st)
            it = st.iter
            if not (isinstance(it, ast.Call) and isinstance(it.func, ast.Attribute) and it.func.attr in genmethods
                    and isinstance(it.func.value, ast.Name) and not it.args and not it.keywords):
                return st
            v = it.func.value.id
            if st.orelse or any(isinstance(m, (ast.Break, ast.Return)) for b in st.body for m in ast.walk(b)) \
                    or any(isinstance(m, ast.Name) and m.id == v and not isinstance(m.ctx, ast.Load) for b in st.body for m in ast.walk(b)) \
                    or {"t07_extgen", "t07_reraise"} & stored:
                raise Unsupported(f"{fd.name}: `for … in {v}.{it.func.attr}()` with else / break / return / an assignment of {v}")
            counter[0] += 1
            g = f"t07g{counter[0]}"
            if g in stored:
                raise Unsupported(f"{fd.name}: variable name {g} clashes with the translator's own names")
            mk = ast.Assign(targets=[ast.Name(id=g, ctx=ast.Store())],
                            value=ast.Call(func=ast.Name(id="t07_extgen", ctx=ast.Load()),
                                           args=[ast.Constant(value=it.func.attr), ast.Name(id=v, ctx=ast.Load())], keywords=[]))
            st.iter = ast.Subscript(value=ast.Name(id=g, ctx=ast.Load()), slice=ast.Constant(value=0), ctx=ast.Load())
            after = ast.Expr(value=ast.Call(func=ast.Name(id="t07_reraise", ctx=ast.Load()),
                                            args=[ast.Subscript(value=ast.Name(id=g, ctx=ast.Load()), slice=ast.Constant(value=1), ctx=ast.Load())],
                                            keywords=[]))
            return [ast.copy_location(mk, st), st, ast.copy_location(after, st)]

        def visit_Call(self, n):
            self.generic_visit(n)
            if (isinstance(n.func, (ast.Name, ast.Attribute)) and (registry.get(ast.unparse(n.func)) or (None, None))[1] == "t07starfunc"
                    and any(k.arg is None for k in n.keywords)):
                stars = [k for k in n.keywords if k.arg is None]
                sv = stars[0].value
                if not (len(stars) == 1 and isinstance(sv, ast.Call) and isinstance(sv.func, ast.Attribute) and sv.func.attr == "_asdict"
                        and isinstance(sv.func.value, ast.Name) and not sv.args and not sv.keywords and n.keywords[-1] is stars[0]):
                    raise Unsupported(f"{fd.name}: `**` other than a trailing `**<variable>._asdict()`")
                stars[0].arg, stars[0].value = "t07_star", sv.func.value
                return n
            if (isinstance(n.func, ast.Name) and n.func.id in ("tuple", "list") and n.func.id not in stored and not n.keywords
                    and len(n.args) == 1 and isinstance(n.args[0], ast.GeneratorExp)
                    and globs.get(n.func.id, getattr(builtins, n.func.id)) is getattr(builtins, n.func.id)):
                g = n.args[0]
                n.args = [ast.copy_location(ast.ListComp(elt=g.elt, generators=g.generators), g)]
            return n

    return ast.fix_missing_locations(R().visit(fd))


def _t17_desugar_iter(fd, globs, files):
    """T17: `for x in iter(functools.partial(f.read, n), s): body` for a file parameter `f`, a size `n` that is an int literal or a
    dotted global name (e.g. `io.DEFAULT_BUFFER_SIZE`, read once per call in the translation), a literal sentinel `s` and a plain
    variable `x` becomes
        while True:
            x = f.read(n)
            if x == s: break
            body
    (`iter(callable, sentinel)` calls `callable()` before every run of the body and stops when the result `== sentinel`; `continue`
    goes on with the next call in both forms).  `iter` and `functools.partial` must be the builtin / the standard function."""
    import functools as _functools
    stored = {n.id for n in ast.walk(fd) if isinstance(n, ast.Name) and not isinstance(n.ctx, ast.Load)} | {a.arg for a in fd.args.args}

    def dotted_global(e):
        while isinstance(e, ast.Attribute):
            e = e.value
        return isinstance(e, ast.Name) and e.id not in stored

    class R(ast.NodeTransformer):
        def visit_For(self, st):
            self.generic_visit(st)
            it = st.iter
            if not (isinstance(it, ast.Call) and isinstance(it.func, ast.Name) and it.func.id == "iter" and len(it.args) == 2):
                return st
            part, sent = it.args
            ok = (not it.keywords and not st.orelse and isinstance(st.target, ast.Name) and "iter" not in stored
                  and globs.get("iter", builtins.iter) is builtins.iter
                  and isinstance(part, ast.Call) and not part.keywords and len(part.args) == 2
                  and isinstance(part.func, (ast.Name, ast.Attribute)) and dotted_global(part.func)
                  and _resolve(globs, ast.unparse(part.func)) is _functools.partial
                  and isinstance(part.args[0], ast.Attribute) and part.args[0].attr == "read" and isinstance(part.args[0].value, ast.Name)
                  and part.args[0].value.id in files
                  and (isinstance(part.args[1], ast.Constant) and type(part.args[1].value) is int
                       or isinstance(part.args[1], (ast.Name, ast.Attribute)) and dotted_global(part.args[1]))
                  and isinstance(sent, ast.Constant) and isinstance(sent.value, (bytes, type(None))))
            if not ok:
                raise Unsupported(f"{fd.name}: `iter(…, …)` other than iter(functools.partial(<file parameter>.read, <size>), <literal>)")
            x = st.target.id
            read = ast.Assign(targets=[ast.Name(id=x, ctx=ast.Store())],
                              value=ast.Call(func=ast.Attribute(value=ast.Name(id=part.args[0].value.id, ctx=ast.Load()), attr="read", ctx=ast.Load()),
                                             args=[part.args[1]], keywords=[]))
            stop = ast.If(test=ast.Compare(left=ast.Name(id=x, ctx=ast.Load()), ops=[ast.Eq()], comparators=[sent]), body=[ast.Break()], orelse=[])
            new = ast.While(test=ast.Constant(value=True), body=[read, stop] + st.body, orelse=[])
            return ast.copy_location(new, st)

    return ast.fix_missing_locations(R().visit(fd))


def _t11_split_temp(fd):
    """T11: a variable that is RE-USED for a temporary list is split in two.  In one block, `v = [<display>]` (statement i, the display
    does not mention `v`) … `v = e` (statement j, the first later statement of the same block that assigns `v` by a plain assignment
    at the top level of the block), where `v` is the receiver of a mutating list method in between: every occurrence of `v` in the
    statements i … j-1 and in the right-hand side `e` of j is renamed to `v__<k>`.  Meaning-preserving because a block is only ever
    entered at its first statement and (required here) the statements i+1 … j-1 contain no `break` / `continue` / `return`, the
    function contains no `try` and no nested scope that mentions `v`: every use of `v` inside the region sees an assignment made
    inside the region, and every use outside sees the assignment j or a later one.  Done only when `v` is assigned outside the
    region as well (otherwise nothing is gained).  The new variable is an ordinary mutable variable (always bound to a fresh
    list); the old one is never changed in place any more."""
    params = {a.arg for a in fd.args.args}
    names = {n.id for n in ast.walk(fd) if isinstance(n, ast.Name)} | params
    if any(isinstance(n, (ast.Try, ast.Global, ast.Nonlocal, ast.Delete)) for n in ast.walk(fd)):
        return fd
    scoped = set()      # names mentioned inside nested scopes / bound by comprehensions: never split
    for n in ast.walk(fd):
        if n is not fd and isinstance(n, (ast.FunctionDef, ast.AsyncFunctionDef, ast.Lambda, ast.ClassDef)):
            scoped |= {m.id for m in ast.walk(n) if isinstance(m, ast.Name)}
        if isinstance(n, ast.comprehension):
            scoped |= {m.id for m in ast.walk(n.target) if isinstance(m, ast.Name)}
    counter = [0]

    def top_assign(st, v):
        return isinstance(st, ast.Assign) and len(st.targets) == 1 and isinstance(st.targets[0], ast.Name) and st.targets[0].id == v

    def rename(node, v, new):
        for m in ast.walk(node):
            if isinstance(m, ast.Name) and m.id == v:
                m.id = new

    def visit_block(stmts):
        i = 0
        while i < len(stmts):
            st = stmts[i]
            if (isinstance(st, ast.Assign) and len(st.targets) == 1 and isinstance(st.targets[0], ast.Name) and isinstance(st.value, ast.List)):
                v = st.targets[0].id
                js = [j for j in range(i + 1, len(stmts)) if top_assign(stmts[j], v)]
                if js and v not in params and v not in scoped and not any(isinstance(m, ast.Name) and m.id == v for m in ast.walk(st.value)):
                    j = js[0]
                    region = stmts[i + 1:j]
                    mutated = any(isinstance(m, ast.Call) and isinstance(m.func, ast.Attribute) and m.func.attr in MUTATORS
                                  and isinstance(m.func.value, ast.Name) and m.func.value.id == v for s in region for m in ast.walk(s))
                    jumps = any(isinstance(m, (ast.Break, ast.Continue, ast.Return)) for s in region for m in ast.walk(s))
                    inside = {id(m) for s in stmts[i:j] for m in ast.walk(s)} | {id(m) for m in ast.walk(stmts[j].value)}
                    outside = any(isinstance(m, ast.Name) and m.id == v and isinstance(m.ctx, ast.Store) and id(m) not in inside
                                  for m in ast.walk(fd))
                    if mutated and not jumps and outside:
                        counter[0] += 1
                        new = f"{v}__{counter[0]}"
                        while new in names:
                            counter[0] += 1
                            new = f"{v}__{counter[0]}"
                        names.add(new)
                        for s in stmts[i:j]:
                            rename(s, v, new)
                        rename(stmts[j].value, v, new)
            for fld in ("body", "orelse"):
                sub = getattr(st, fld, None)
                if isinstance(sub, list) and sub and isinstance(sub[0], ast.stmt):
                    visit_block(sub)
            i += 1

    visit_block(fd.body)
    return ast.fix_missing_locations(fd)


class _Fn:
    def __init__(self, unit: Unit, fd: ast.FunctionDef, globs: dict, params: list, init=None):
        self.init = init                             # (Lean term of the class descriptor, attribute names) for `__init__`
        self.used_externs: list[str] = []
        self.asserts = False
        self.uses_calls = False
        self.comps = 0
        self.u = unit
        self.fd = fd
        self.globs = globs
        self.params = params
        self.tmp = 0
        self.declared: list[str] = list(params)      # python names that are bound at this point, in order of first binding
        self.loop_defs: list[str] = []
        self.loop_names: list[str] = []
        self.loops = 0
        self.in_loop: list | None = None             # names of the state tuple of the innermost enclosing loop
        self.needs_fuel = False
        self.files: list[str] = []                   # parameters that are file objects of the caller (set by `Unit.translate`)
        self.is_gen = False                          # the function contains `yield` statements
        self.fobj = None                             # T15: (name of the first parameter, its file attributes, {method: key in unit.sigs})
        self.t15_init_files: dict = {}               # T15: `__init__`: attribute -> the file parameter moved into it
        self.t15_follow: dict = {}                   # T15: id(statement) -> the statements after it in its block
        self.method_of = None                        # registry key of the class (kind `obj`) this function is a method of
        self.objvars: dict = {}                      # local variable -> registry key of the class (kind `obj`) of the object it holds
        self.stops = self.mutates = self.returns_self = False     # see `analyse_objects`

    def bad(self, msg):
        return Unsupported(f"{self.fd.name}: {msg}")

    def fresh(self):
        self.tmp += 1
        return f"t{self.tmp}"

    # ---- analysis ---------------------------------------------------------------------------------------------------
    def analyse(self):
        fd = self.fd
        for n in ast.walk(fd):
            if n is not fd and isinstance(n, (ast.FunctionDef, ast.AsyncFunctionDef, ast.Lambda, ast.ClassDef, ast.SetComp,
                                              ast.GeneratorExp, ast.Global, ast.Nonlocal, ast.NamedExpr,
                                              ast.YieldFrom, ast.Await, ast.With, ast.Delete, ast.Starred)):
                if isinstance(n, ast.GeneratorExp) and self.t17_genexp_ok(n):
                    continue       # T17: the argument of the statement `<counter>.update(<generator expression>)`
                if isinstance(n, ast.GeneratorExp) and self.t11_genexp_ok(n):
                    continue       # T11: the argument of `tuple(<generator expression>)`
                if isinstance(n, ast.GeneratorExp) and self.t13_genexp_ok(n):
                    continue       # T13: the argument of `sep.join(<generator expression>)`
                raise self.bad(f"construct {type(n).__name__}")
        self.analyse_files_and_yields()
        self.local = set()
        self.assigned = {v for v in self.stores_in([fd]) if v != CALLS}
        self.assigned.discard(YIELDS)
        self.assigned.discard(RET)
        self.local = self.assigned | set(self.params) | comp_targets(fd)
        self.asserts = any(isinstance(n, ast.Assert) for n in ast.walk(fd))
        self.uses_calls = any(isinstance(n, ast.Call) and self.global_kind(n.func) == "stream" for n in ast.walk(fd))
        for v in self.local:
            if v in self.u.sigs or v in self.u.registry or any(k.split(".")[0] == v for k in self.u.registry):
                raise self.bad(f"local name {v} shadows a translated / registered global")
        # mutable names: receivers of the mutating methods
        self.mutable = set()
        for n in ast.walk(fd):
            recv = None
            if isinstance(n, ast.Call) and isinstance(n.func, ast.Attribute) and n.func.attr in MUTATORS:
                recv, what = n.func.value, f"`.{n.func.attr}`"
            elif isinstance(n, ast.Subscript) and isinstance(n.ctx, ast.Store):
                recv, what = n.value, "item assignment"
            if recv is not None and isinstance(recv, ast.Name) and recv.id in self.files:
                recv = None        # a method of a file parameter (checked by `analyse_files_and_yields`)
            if recv is not None and self.fobj is not None and isinstance(n, ast.Call) and self.t15_fobj_call(n) is not None:
                recv = None        # T15: `self.fh.read(…)` / a translated method of the file-owning `self` (checked by `t15_analyse`)
            if recv is not None and isinstance(recv, ast.Name) and recv.id in self.t02_owned() and recv.id in self.assigned:
                self.mutable.add(recv.id)
                recv = None        # T02: a parameter the plug-in declared as holding an object of the caller (`Unit.owned_params`)
            if recv is not None and self.t19_item_store(n) is not None:
                recv = None        # T19: `self.a[k] = e` / `self.a[k].append(e)` on the first parameter (checked by `t19_analyse`)
            if recv is not None and self.t07_item_store(n) is not None:
                recv = None        # T07: `p.a[k] = e` on an in-out parameter (checked by `t07_mutables`)
            if recv is not None and self.t11_special_store(n) is not None:
                recv = None        # T11: `d[k].append(e)` on a defaultdict variable / `self.a.b.append(e)` (checked by `t11_mutables`)
            if recv is not None and self.t13_dd_append(n) is not None:
                recv = None        # T13: `v[k].append(e)` on a `collections.defaultdict(list)` variable (checked by `t13_analyse`)
            if recv is not None:
                if not isinstance(recv, ast.Name) or recv.id not in self.assigned or recv.id in self.params:
                    raise self.bad(f"{what} on something that is not a local variable bound to a fresh object")
                self.mutable.add(recv.id)
        self.mutable |= self.t02_mutables()
        self.mutable |= self.t17_mutables()
        self.mutable |= self.t11_mutables()
        self.mutable |= self.t07_mutables()
        allowed = set()
        self.borrows = {}      # mutable variable -> (owner variable, attribute, the assignment statement)
        for n in ast.walk(fd):
            if isinstance(n, ast.Call) and isinstance(n.func, ast.Attribute) and n.func.attr in MUTATORS:
                allowed.add(id(n.func.value))
            if isinstance(n, ast.Subscript) and isinstance(n.ctx, ast.Store):
                allowed.add(id(n.value))
            if isinstance(n, ast.Return) and n.value is not None:
                # the function ends here: references that the returned value holds cannot be observed by this function any more
                allowed |= {id(m) for m in ast.walk(n.value) if isinstance(m, ast.Name)}
            if isinstance(n, ast.Assign) and len(n.targets) == 1 and self.is_permutation(n.targets[0], n.value):
                allowed |= {id(m) for m in n.targets[0].elts + n.value.elts}
            if isinstance(n, (ast.Assign, ast.AnnAssign)):
                targets = n.targets if isinstance(n, ast.Assign) else [n.target]
                for t in targets:
                    if isinstance(t, ast.Name) and t.id in self.mutable:
                        if n.value is not None and self.is_fresh(n.value):
                            allowed.add(id(t))
                        elif (n.value is not None and isinstance(n.value, ast.Attribute) and isinstance(n.value.value, ast.Name)
                              and n.value.value.id in self.local and n.value.value.id not in self.mutable and t.id not in self.borrows):
                            self.borrows[t.id] = (n.value.value.id, n.value.attr, n)
                            allowed.add(id(t))
                        else:
                            raise self.bad(f"mutable variable {t.id} is bound to something that is not a fresh object")
        allowed |= self.check_borrows()
        allowed |= self.t02_allowed()
        allowed |= self.t12_allowed()
        allowed |= self.t17_allowed()
        allowed |= self.t19_allowed()
        allowed |= self.t11_allowed()
        allowed |= self.t07_allowed()
        allowed |= self.t13_allowed()
        for n in ast.walk(fd):
            if isinstance(n, ast.Name) and n.id in self.mutable and id(n) not in allowed:
                raise self.bad(f"mutable variable {n.id} is used where a second reference to the object could be created")
        self.analyse_objects()
        self.t19_analyse()
        self.t18_checks()
        self.t13_analyse()

    def analyse_files_and_yields(self):
        """`yield` only as the statement `yield e` (then the function is a generator: no `return e`, no `assert`, not `__init__`);
        a file parameter only as the receiver of `.read` / `.seek` / `.tell` (never assigned, never passed on, never stored)"""
        fd = self.fd
        stmt_yields = {id(st.value) for st in ast.walk(fd) if isinstance(st, ast.Expr) and isinstance(st.value, ast.Yield)
                       and st.value.value is not None}
        for n in ast.walk(fd):
            if isinstance(n, ast.Yield) and id(n) not in stmt_yields:
                raise self.bad("construct Yield (other than the statement `yield e`)")
        self.is_gen = bool(stmt_yields)
        self.t15_analyse()
        if self.is_gen:
            if self.init is not None or any(isinstance(n, ast.Assert) for n in ast.walk(fd)):
                raise self.bad("`yield` in `__init__` / together with `assert`")
            if any(isinstance(n, ast.Return) and n.value is not None for n in ast.walk(fd)):
                raise self.bad("`return e` in a generator")
            if any(isinstance(n, ast.Name) and n.id == "ys0" for n in ast.walk(fd)):
                raise self.bad("variable name ys0 clashes with the translator's own names")
        receivers = set()
        for n in ast.walk(fd):
            if (isinstance(n, ast.Call) and isinstance(n.func, ast.Attribute) and isinstance(n.func.value, ast.Name)
                    and n.func.value.id in self.files and n.func.attr in FILE_METHODS and not n.keywords):
                receivers.add(id(n.func.value))
        receivers |= self.t17_file_uses()
        receivers |= self.t18_file_uses()
        receivers |= self.t01_file_uses()      # T01: handles, calls that are handed a file-like object
        for n in ast.walk(fd):
            if isinstance(n, ast.Name) and n.id in self.files and (id(n) not in receivers or not isinstance(n.ctx, ast.Load)):
                raise self.bad(f"file parameter {n.id} is used other than as the receiver of .read(n) / .seek(off[, whence]) / .tell()")

    # -- objects with translated methods (registry kind `obj`: term = Lean term of the class descriptor `PyU.Cls`; the plug-in
    #    translates `__init__` with `init_of=` under the class's own name and every method with `method_of=<registry key>`) --
    def is_stop_raise(self, st) -> bool:
        """`raise StopIteration` / `raise StopIteration()`"""
        if not isinstance(st, ast.Raise) or st.cause is not None or st.exc is None:
            return False
        e = st.exc.func if isinstance(st.exc, ast.Call) and not st.exc.args and not st.exc.keywords else st.exc
        return self.is_builtin(e, "StopIteration")

    def obj_sig(self, var, meth):
        sg = self.u.sigs.get(f"{self.objvars[var]}.{meth}")
        if sg is None:
            raise self.bad(f"{self.objvars[var]} has no translated method {meth}")
        return sg

    def analyse_objects(self):
        """An OBJECT VARIABLE is a local variable (not a parameter) every assignment of which is `v = Cls(args)` for a class of kind
        `obj`; the instance is a value (`V.inst`) threaded through the calls of its methods.  That is exact because no second
        reference to the object can exist: the constructor call is the whole right-hand side of the assignment, and the variable
        occurs only as the receiver of a call of a translated method `v.m(args)`, as `next(v)`, or as the iterable of `for x in v:`.
        In a METHOD (`method_of`), `self` occurs only as `self.a` (read, or the target of `=` / `+=` …) or as `return self`; a method
        that assigns an attribute MUTATES: its translation returns the tuple `(result, self afterwards)`.  A function STOPS when it
        can raise StopIteration (`raise StopIteration`, `next(v)`, a `for` over an object variable, a call of a function that
        stops): its monad is `PyU.PyS`.  In a method that raises StopIteration no path may assign an attribute before the raise
        (the `for` statement that catches the exception goes on with the object as it was before the call)."""
        fd = self.fd
        parents = {id(c): n for n in ast.walk(fd) for c in ast.iter_child_nodes(n)}

        def is_ctor(v):
            return isinstance(v, ast.Call) and self.global_kind(v.func) == "obj"

        for n in ast.walk(fd):
            if is_ctor(n):
                par = parents.get(id(n))
                tg = (par.targets if isinstance(par, ast.Assign) else [par.target]) if isinstance(par, (ast.Assign, ast.AnnAssign)) and par.value is n else []
                if len(tg) != 1 or not isinstance(tg[0], ast.Name) or tg[0].id in self.params:
                    raise self.bad(f"{ast.unparse(n)[:40]}: an object must be bound to a local variable by `v = Cls(…)`")
                key = self.dotted(n.func)
                if self.objvars.setdefault(tg[0].id, key) != key or key not in self.u.sigs:
                    raise self.bad(f"object variable {tg[0].id}: two classes / the constructor of {key} is not translated")
        for n in ast.walk(fd):
            if not (isinstance(n, ast.Name) and n.id in self.objvars):
                continue
            par = parents.get(id(n))
            gp = parents.get(id(par))
            if isinstance(n.ctx, ast.Store):
                ok = isinstance(par, (ast.Assign, ast.AnnAssign)) and is_ctor(par.value)
            else:
                ok = (isinstance(par, ast.Attribute) and isinstance(gp, ast.Call) and gp.func is par and not gp.keywords
                      and par.attr not in MUTATORS and f"{self.objvars[n.id]}.{par.attr}" in self.u.sigs
                      or isinstance(par, ast.Call) and self.is_builtin(par.func, "next") and par.args == [n] and not par.keywords
                      or isinstance(par, ast.For) and par.iter is n)
            if not ok:
                raise self.bad(f"object variable {n.id} is used where a second reference to the object could be created "
                               f"(or with a method that is not translated)")
        if self.objvars and self.in_comprehension(set(self.objvars)):
            raise self.bad("an object variable inside a comprehension")
        if (self.objvars or self.method_of is not None) and any(isinstance(n, ast.Try) for n in ast.walk(fd)):
            raise self.bad("`try` in a method / in a function with object variables (an exception would discard the changes of the object)")
        # methods
        if self.method_of is not None:
            if not self.params or self.init is not None or self.files or self.is_gen:
                raise self.bad("a method needs a `self` parameter (and cannot be a generator / take file parameters)")
            me = self.params[0]
            rets = [n for n in ast.walk(fd) if isinstance(n, ast.Return) and n.value is not None]
            self.returns_self = bool(rets) and all(isinstance(r.value, ast.Name) and r.value.id == me for r in rets)
            for n in ast.walk(fd):
                if not (isinstance(n, ast.Name) and n.id == me):
                    continue
                par = parents.get(id(n))
                gp = parents.get(id(par))
                if isinstance(par, ast.Return) and self.returns_self and isinstance(n.ctx, ast.Load):
                    continue
                if not (isinstance(n.ctx, ast.Load) and isinstance(par, ast.Attribute) and par.value is n and not par.attr.startswith("_")):
                    raise self.bad(f"`{me}` is used other than as `{me}.attr` / `return {me}`")
                if isinstance(gp, ast.Call) and gp.func is par:
                    raise self.bad(f"call of `{me}.{par.attr}(…)` inside a method")
                if not isinstance(par.ctx, ast.Load):
                    tgt = gp.targets if isinstance(gp, ast.Assign) else ([gp.target] if isinstance(gp, (ast.AnnAssign, ast.AugAssign)) else [])
                    if len(tgt) != 1 or tgt[0] is not par:
                        raise self.bad(f"`{me}.{par.attr}` is assigned other than by `=` / an augmented assignment")
                    self.mutates = True
            if self.in_comprehension({me}):
                raise self.bad(f"`{me}` inside a comprehension")
            if self.mutates:
                self.assigned.add(me)
        # StopIteration
        def calls_stop(n):
            if not isinstance(n, ast.Call):
                return False
            f = n.func
            if isinstance(f, ast.Name) and f.id in self.u.sigs and f.id not in self.local:
                return getattr(self.u.sigs[f.id], "stops", False)
            if isinstance(f, ast.Attribute) and isinstance(f.value, ast.Name) and f.value.id in self.objvars:
                return getattr(self.u.sigs.get(f"{self.objvars[f.value.id]}.{f.attr}"), "stops", False)
            return self.is_builtin(f, "next")
        raises = any(self.is_stop_raise(n) for n in ast.walk(fd))
        self.stops = (raises or any(calls_stop(n) for n in ast.walk(fd))
                      or any(isinstance(n, ast.For) and isinstance(n.iter, ast.Name) and n.iter.id in self.objvars for n in ast.walk(fd)))
        if self.stops and (self.asserts or self.init is not None or self.files or self.is_gen or self.uses_calls):
            raise self.bad("StopIteration together with assert / `__init__` / file parameters / yield / a stream function")
        if raises and self.mutates and self.stop_after_store(fd.body, False) is None:
            raise self.bad("an attribute is assigned on a path that raises StopIteration afterwards")
        if self.mutates and any(calls_stop(n) for n in ast.walk(fd)):
            raise self.bad("a method that assigns attributes calls something that can raise StopIteration")

    def t12_allowed(self) -> set:
        """reads of a mutable variable that hand out no reference to the object itself: the right operand of `in` / `not in`, the
        argument of `len(…)` / `enumerate(…)` (the items are copied into a new list), the object of an item read `v[i]` (the item
        may be shared, but a change of it needs a receiver variable bound to a fresh object).  When such a read is (part of) the
        iterable of a `for`, the body must not change the variable (the loop runs over a snapshot).  `enumerate(x)` is accepted as
        the iterable of a `for` only (`PyU.enumerate`: the list of the pairs)."""
        ok = set()
        for n in ast.walk(self.fd):
            if isinstance(n, ast.Compare) and len(n.ops) == 1 and isinstance(n.ops[0], (ast.In, ast.NotIn)) and isinstance(n.comparators[0], ast.Name):
                ok.add(id(n.comparators[0]))
            if (isinstance(n, ast.Call) and (self.is_builtin(n.func, "len") or self.is_builtin(n.func, "enumerate")) and len(n.args) == 1
                    and not n.keywords and isinstance(n.args[0], ast.Name)):
                ok.add(id(n.args[0]))
            if isinstance(n, ast.Subscript) and isinstance(n.ctx, ast.Load) and not isinstance(n.slice, ast.Slice) and isinstance(n.value, ast.Name):
                ok.add(id(n.value))
        parents = {id(c): n for n in ast.walk(self.fd) for c in ast.iter_child_nodes(n)}
        for n in ast.walk(self.fd):
            if isinstance(n, ast.Call) and self.is_builtin(n.func, "enumerate"):
                par = parents.get(id(n))
                if not (isinstance(par, ast.For) and par.iter is n) or n.keywords or len(n.args) != 1:
                    raise self.bad("enumerate(…) other than `for … in enumerate(x)`")
            if isinstance(n, ast.For):
                names = {m.id for m in ast.walk(n.iter) if isinstance(m, ast.Name) and m.id in self.mutable and id(m) in ok}
                if names & self.stores_in(n.body):
                    raise self.bad("the loop changes a mutable variable its iterable was computed from")
        return ok

    def in_comprehension(self, names: set) -> bool:
        return any(isinstance(m, ast.Name) and m.id in names for n in ast.walk(self.fd)
                   if isinstance(n, (ast.ListComp, ast.DictComp)) for m in ast.walk(n))

    def stop_after_store(self, stmts, dirty):
        """walks the paths of a block: `dirty` = an attribute of `self` was assigned on the way.  Result: the set of the possible
        values of `dirty` where the block is left at its end (empty: every path ends in return / raise); None: a
        `raise StopIteration` can be reached with `dirty`, or the block has a shape this check does not follow"""
        states = {dirty}
        for st in stmts:
            if not states:
                return states
            stores = any(isinstance(n, ast.Attribute) and not isinstance(n.ctx, ast.Load) for n in ast.walk(st))
            stop = any(self.is_stop_raise(n) for n in ast.walk(st))
            if self.is_stop_raise(st):
                if True in states:
                    return None
                states = set()
            elif isinstance(st, (ast.Return, ast.Raise)):
                states = set()
            elif isinstance(st, ast.If):
                out = set()
                for d in states:
                    for branch in (st.body, st.orelse):
                        r = self.stop_after_store(branch, d)
                        if r is None:
                            return None
                        out |= r
                states = out
            elif stop or (stores and not isinstance(st, (ast.Assign, ast.AnnAssign, ast.AugAssign))):
                return None
            elif stores:
                states = {True}
        return states

    def check_borrows(self) -> set:
        """`m = r.a` for a mutable variable `m` (`r` a parameter or an immutable local): `m` is a *borrowed* part of `r`.  Threading
        `m` as a value gives the exact return value provided the stale field `r.a` can never be read again: `m` has no other
        assignment, the binding is a top-level statement, and afterwards `r` is not assigned and occurs only as `r.b` (`b` not a
        borrowed attribute) or as the receiver of `r._replace(…)` with `a=m` for every borrowed attribute.  (Assumed, not
        checked: the borrowed parts of the argument are pairwise different objects that no other argument refers to.  The
        in-place change of the caller's object is not part of the translated result.)"""
        ok = set()
        for m, (r, a, stmt) in self.borrows.items():
            n_assign = sum(1 for n in ast.walk(self.fd) if isinstance(n, ast.Name) and n.id == m and isinstance(n.ctx, ast.Store))
            if n_assign != 1 or stmt not in self.fd.body:
                raise self.bad(f"borrowed mutable variable {m} must be bound exactly once, by a top-level statement")
        owners = {r for r, _, _ in self.borrows.values()}
        for r in owners:
            mine = {a: m for m, (r2, a, _) in self.borrows.items() if r2 == r}
            first = min(self.fd.body.index(st) for m, (r2, _, st) in self.borrows.items() if r2 == r)
            for st in self.fd.body[first:]:
                parents = {}
                for n in ast.walk(st):
                    for c in ast.iter_child_nodes(n):
                        parents[id(c)] = n
                for n in ast.walk(st):
                    if not (isinstance(n, ast.Name) and n.id == r):
                        continue
                    par = parents.get(id(n))
                    if isinstance(n.ctx, ast.Store):
                        raise self.bad(f"{r} is assigned after a part of it was borrowed")
                    if not (isinstance(par, ast.Attribute) and par.value is n):
                        raise self.bad(f"{r} is used as a whole after a part of it was borrowed")
                    gp = parents.get(id(par))
                    if par.attr == "_replace" and isinstance(gp, ast.Call) and gp.func is par:
                        kws = {k.arg: k.value for k in gp.keywords}
                        for a, m in mine.items():
                            if not (isinstance(kws.get(a), ast.Name) and kws[a].id == m):
                                raise self.bad(f"{r}._replace(…) does not put the borrowed {m} back as {a}")
                            ok.add(id(kws[a]))
                    elif par.attr in mine:
                        owner_stmt = self.borrows[mine[par.attr]][2]
                        if st is not owner_stmt:
                            raise self.bad(f"{r}.{par.attr} is read again after it was borrowed by {mine[par.attr]}")
                    elif par.attr.startswith("_"):
                        raise self.bad(f"{r}.{par.attr} after a part of {r} was borrowed")
        return ok

    def is_permutation(self, target, value) -> bool:
        """`a, b = b, a`: both sides tuples of the same variables, each once"""
        if not (isinstance(target, ast.Tuple) and isinstance(value, ast.Tuple) and len(target.elts) == len(value.elts) >= 2):
            return False
        if not all(isinstance(e, ast.Name) for e in target.elts + value.elts):
            return False
        lhs, rhs = [e.id for e in target.elts], [e.id for e in value.elts]
        return len(set(lhs)) == len(lhs) and sorted(lhs) == sorted(rhs) and all(v in self.local for v in lhs)

    def stores_in(self, nodes) -> set:
        """the variables a piece of code may change: assigned names (not the targets of comprehensions, which are local to them),
        receivers of mutating methods / item assignments, and the hidden call counter of `stream` functions"""
        out = set()

        def visit(n):
            if isinstance(n, ast.comprehension):
                visit(n.iter)
                for c in n.ifs:
                    visit(c)
                return
            if isinstance(n, ast.Name) and isinstance(n.ctx, ast.Store):
                out.add(n.id)
            if isinstance(n, ast.Call) and isinstance(n.func, ast.Attribute) and n.func.attr in MUTATORS and isinstance(n.func.value, ast.Name):
                out.add(n.func.value.id)
            if isinstance(n, ast.Subscript) and isinstance(n.ctx, ast.Store) and isinstance(n.value, ast.Name):
                out.add(n.value.id)
            if (isinstance(n, ast.Call) and isinstance(n.func, ast.Attribute) and isinstance(n.func.value, ast.Name)
                    and n.func.value.id in self.files and n.func.attr in FILE_METHODS and FILE_METHODS[n.func.attr][4]):
                out.add(n.func.value.id)       # a file parameter is changed by `.read` / `.seek`
            if isinstance(n, ast.Yield):
                out.add(YIELDS)
            if self.fobj is not None and isinstance(n, ast.Call) and self.t15_fobj_call(n) is not None:
                out.add(self.fobj[0])          # T15: a file of `self` is moved by `.read` / `.seek`; a method of `self` may do that
            if isinstance(n, ast.Attribute) and isinstance(n.ctx, ast.Store) and isinstance(n.value, ast.Name) and n.value.id in getattr(self, "mutable", ()):
                out.add(n.value.id)            # T02: attribute assignment on a fresh instance changes the variable
            if (isinstance(n, ast.Call) and len(n.args) == 1 and isinstance(n.args[0], ast.Name) and self.local
                    and self.global_kind(n.func) == "struct"):
                out.add(n.args[0].id)          # T02: `Struct(fobj)` reads from (changes) the file object
            if isinstance(n, ast.Name) and n.id in self.objvars:
                out.add(n.id)                  # an object variable: every use is a method call / `next` / `for` and may change the object
            if isinstance(n, ast.Call) and self.local and self.global_kind(n.func) == "stream":
                out.add(CALLS)
            if self.t19_item_store(n) is not None:
                out.add(self.params[0])        # T19: `self.a[k] = e` / `self.a[k].append(e)` changes the (threaded) first parameter
            if self.t07_item_store(n) is not None:
                out.add(self.t07_item_store(n)[0])     # T07: `p.a[k] = e` changes the in-out parameter `p`
            out.update(self.t17_stores(n))     # T17: `<counter>.update(…)`, a file parameter handed to an external generator function
            out.update(self.t11_stores(n))     # T11: `d[k].append(e)` changes the defaultdict variable `d`, `self.a.b.append(e)` changes `self`
            out.update(self.t18_stores(n))     # T18: `Type(fh)`, a file parameter handed to a translated function, `return` inside a loop
            out.update(self.t01_stores(n))     # T01: an operation on a handle / a call that is handed a file-like object changes the file
            out.update(self.t13_stores(n))     # T13: `v[k].append(e)` changes the defaultdict variable `v`
            for c in ast.iter_child_nodes(n):
                visit(c)

        for n in nodes:
            visit(n)
        return out

    def is_fresh(self, v) -> bool:
        """an expression whose value is a new object nothing else refers to"""
        if isinstance(v, (ast.List, ast.Dict, ast.DictComp)):
            return True
        if isinstance(v, ast.Subscript) and isinstance(v.slice, ast.Slice):
            return True        # a slice of a list is a copy
        if isinstance(v, ast.Call) and self.is_builtin(v.func, "list") and not v.keywords:
            return True
        if isinstance(v, ast.ListComp):
            return True
        if isinstance(v, ast.Call) and self.global_kind(v.func) in T11_FRESH_KINDS:
            return True        # T11: `collections.defaultdict(list)`
        if isinstance(v, ast.Call) and self.global_kind(v.func) == "t01ctor":
            return True        # T01: an external constructor (a new instance that nothing else refers to)
        return isinstance(v, ast.Call) and self.global_kind(v.func) in ("bytesio", "struct", "dictctor") + T17_FRESH_KINDS

    def use_extern(self, name):
        if name not in self.used_externs:
            self.used_externs.append(name)

    def dotted(self, n):
        parts = []
        while isinstance(n, ast.Attribute):
            parts.append(n.attr)
            n = n.value
        if not isinstance(n, ast.Name) or n.id in self.local:
            return None
        return ".".join([n.id] + parts[::-1])

    def global_entry(self, n):
        d = self.dotted(n)
        if d is None or d not in self.u.registry:
            return None
        obj, kind, term = self.u.registry[d]
        got = _resolve(self.globs, d)
        if got is not obj and not (inspect.ismethod(obj) and got == obj):
            raise self.bad(f"the name {d} does not denote the registered object")
        return kind, term

    def global_kind(self, n):
        e = self.global_entry(n)
        return e[0] if e else None

    def is_builtin(self, n, name) -> bool:
        return isinstance(n, ast.Name) and n.id == name and name not in self.local and self.globs.get(name, getattr(builtins, name)) is getattr(builtins, name)

    # ---- expressions: (prelude lines, term of type V) ------------------------------------------------------------------
    def expr(self, n, ind) -> tuple[list, str]:
        P = " " * ind
        t18 = self.t18_expr(n, ind)              # T18: `[Type(fh) for _ in range(e)]`
        if t18 is not None:
            return t18
        if isinstance(n, ast.Constant):
            return [], const_term(n.value)
        if isinstance(n, ast.Name):
            if n.id in self.local:
                if n.id not in self.declared:
                    raise self.bad(f"variable {n.id} may be used before it is assigned on this path")
                return [], lname(n.id)
            if self.global_kind(n) == "const":
                return [], self.global_entry(n)[1]      # T02: a registered module-level constant
            raise self.bad(f"free name {n.id}")
        if isinstance(n, ast.BoolOp):
            # value position: `a or b` is `a` when `a` is true, else `b` (evaluated only then); `and` dually
            is_or = isinstance(n.op, ast.Or)
            pre, cur = self.expr(n.values[0], ind)
            r = self.fresh()
            pre = pre + [f"{P}let mut {r} := {cur}"]
            for v in n.values[1:]:
                pv, tv = self.expr(v, ind + 2)
                pre.append(f"{P}if ({'!' if is_or else ''}(PyU.truthy {r})) then")
                pre += pv + [f"{P}  {r} := {tv}"]
            return pre, r
        if isinstance(n, ast.Compare) or isinstance(n, ast.UnaryOp) and isinstance(n.op, ast.Not):
            p, c = self.cond(n, ind)
            return p, f"(V.bool {c})"
        if isinstance(n, ast.BinOp):
            if type(n.op) not in BINOP:
                raise self.bad(f"operator {type(n.op).__name__}")
            pa, a = self.expr(n.left, ind)
            pb, b = self.expr(n.right, ind)
            t = self.fresh()
            return pa + pb + [f"{P}let {t} ← PyU.{BINOP[type(n.op)]} {a} {b}"], t
        if isinstance(n, ast.UnaryOp) and isinstance(n.op, ast.USub):
            if isinstance(n.operand, ast.Constant) and isinstance(n.operand.value, int) and not isinstance(n.operand.value, bool):
                return [], const_term(-n.operand.value)
            pa, a = self.expr(n.operand, ind)
            t = self.fresh()
            return pa + [f"{P}let {t} ← PyU.neg {a}"], t
        if isinstance(n, ast.IfExp):
            pc, c = self.cond(n.test, ind)
            pa, a = self.expr(n.body, ind)
            pb, b = self.expr(n.orelse, ind)
            if pa or pb:
                # raising branches: only the chosen branch is evaluated (translated again, one level deeper)
                if any(isinstance(m, (ast.DictComp, ast.ListComp)) for m in ast.walk(n)):
                    raise self.bad("conditional expression with raising branches and a comprehension")
                pa, a = self.expr(n.body, ind + 2)
                pb, b = self.expr(n.orelse, ind + 2)
                r = self.fresh()
                return (pc + [f"{P}let mut {r} := V.none", f"{P}if {c} then"] + pa + [f"{P}  {r} := {a}", f"{P}else"]
                        + pb + [f"{P}  {r} := {b}"]), r
            return pc, f"(if {c} then {a} else {b})"
        if isinstance(n, (ast.Tuple, ast.List)):
            pre, terms = self.exprs(n.elts, ind)
            return pre, f"(V.{'tuple' if isinstance(n, ast.Tuple) else 'list'} [{', '.join(terms)}])"
        if isinstance(n, ast.Dict):
            if any(k is None for k in n.keys):
                raise self.bad("dict display with ** unpacking")
            pre, items = [], []
            for k, v in zip(n.keys, n.values):
                pk, tk = self.expr(k, ind)
                pv, tv = self.expr(v, ind)
                pre += pk + pv
                items.append(f"({tk}, {tv})")
            t = self.fresh()
            return pre + [f"{P}let {t} ← PyU.mkDict [{', '.join(items)}]"], t
        if isinstance(n, ast.Subscript):
            pa, a = self.expr(n.value, ind)
            t = self.fresh()
            if isinstance(n.slice, ast.Slice):
                if n.slice.step is not None:
                    st_ = n.slice.step
                    minus1 = (isinstance(st_, ast.UnaryOp) and isinstance(st_.op, ast.USub) and isinstance(st_.operand, ast.Constant)
                              and st_.operand.value == 1 and type(st_.operand.value) is int)
                    if not minus1 or n.slice.lower is not None or n.slice.upper is not None:
                        raise self.bad("slice with a step (other than `[::-1]`)")
                    return pa + [f"{P}let {t} ← PyU.sliceRev {a}"], t
                pl, lo = self.expr(n.slice.lower, ind) if n.slice.lower is not None else ([], "V.none")
                ph, hi = self.expr(n.slice.upper, ind) if n.slice.upper is not None else ([], "V.none")
                return pa + pl + ph + [f"{P}let {t} ← PyU.slice {a} {lo} {hi}"], t
            pi, i = self.expr(n.slice, ind)
            return pa + pi + [f"{P}let {t} ← PyU.getItem {a} {i}"], t
        if isinstance(n, ast.JoinedStr):
            return self.fstring(n, ind)
        if isinstance(n, ast.Attribute):
            t02 = self.t02_property(n, ind)
            if t02 is not None:
                return t02
            t11 = self.t11_attr(n, ind)             # T11: `self.a` in a self-mode function (any listed attribute)
            if t11 is not None:
                return t11
            if self.global_kind(n.value) == "enum":
                if n.attr not in getattr(self.u.registry[self.dotted(n.value)][0], "__members__", {}):
                    raise self.bad(f"{ast.unparse(n)} is not a member of the enum")
                t = self.fresh()
                return [f"{P}let {t} ← PyU.enumMember {self.global_entry(n.value)[1]} {lean_string(n.attr)}"], t
            if not n.attr.startswith("_") and self.dotted(n) is None:
                po, o = self.expr(n.value, ind)
                t = self.fresh()
                return po + [f"{P}let {t} ← PyU.getAttr {o} {lean_string(n.attr)}"], t
            if self.global_kind(n) == "const":
                return [], self.global_entry(n)[1]  # T15: a module attribute with a fixed literal value (checked by the plug-in)
            if self.global_kind(n) == "gparam":
                name = self.global_entry(n)[1]      # a module attribute read at call time: a value parameter of the definition
                self.use_extern(name)
                return [], name
            if self.global_kind(n) == "const":
                return [], self.global_entry(n)[1]      # T02: a registered constant such as `io.SEEK_CUR`
            raise self.bad(f"attribute {ast.unparse(n)[:60]}")
        if isinstance(n, ast.Call):
            return self.call(n, ind)
        if isinstance(n, ast.DictComp):
            return self.dictcomp(n, ind)
        if isinstance(n, ast.ListComp):
            return self.listcomp(n, ind)
        if isinstance(n, ast.GeneratorExp) and self.t13_genexp_ok(n):
            return self.listcomp(n, ind)     # T13: `sep.join(e for x in it if c)` — `join` materialises the items first
        raise self.bad(f"expression {type(n).__name__}: {ast.unparse(n)[:60]}")

    def bind_target(self, target, term, ind) -> list:
        """`target = term` for a name or a tuple of two / three names (loop targets)"""
        P = " " * ind
        if isinstance(target, ast.Name):
            return [self.bind(target.id, term, ind)]
        if isinstance(target, ast.Tuple) and len(target.elts) in (2, 3) and all(isinstance(e, ast.Name) for e in target.elts):
            r = self.fresh()
            k = len(target.elts)
            out = [f"{P}let {r} ← PyU.unpack{k} {term}"]
            for i, e in enumerate(target.elts):
                out.append(self.bind(e.id, r + ".2" * i + (".1" if i < k - 1 else ""), ind))
            return out
        raise self.bad(f"assignment target {ast.unparse(target)[:40]}")

    def dictcomp(self, n: ast.DictComp, ind):
        """`{k: v for x in it if c}`: a definition of its own that adds one item to the dict (the targets are local to it), run
        by `PyU.forList` over the items of `it` (evaluated in the enclosing scope)"""
        P = " " * ind
        if len(n.generators) != 1 or n.generators[0].is_async:
            raise self.bad("comprehension with several `for` clauses")
        g = n.generators[0]
        pi, it = self.expr(g.iter, ind)
        items = self.fresh()
        self.comps += 1
        name = f"{lname(self.fd.name)}_comp{self.comps}"
        targets = {m.id for m in ast.walk(g.target) if isinstance(m, ast.Name)}
        inner = [n.key, n.value] + list(g.ifs)
        used = {m.id for e in inner for m in ast.walk(e) if isinstance(m, ast.Name)}
        if self.stores_in(inner):
            raise self.bad("a comprehension that changes a variable")
        captured = [v for v in self.declared if v in used and v not in targets]
        saved = (list(self.declared), self.in_loop)
        self.declared = list(captured)
        self.in_loop = None
        item = self.fresh()
        lines = self.bind_target(g.target, item, 2)
        for c in g.ifs:
            pc, tc = self.cond(c, 2)
            lines += pc + [f"  if (!{tc}) then", "    return (PyU.Ctl.cont, st)"]
        pk, k = self.expr(n.key, 2)
        pv, v = self.expr(n.value, 2)
        r = self.fresh()
        lines += pk + pv + [f"  let {r} ← PyU.setItem st {k} {v}", f"  return (PyU.Ctl.cont, {r})"]
        self.declared, self.in_loop = saved
        binders = "".join(f" ({lname(v)} : V)" for v in captured) + f" ({item} : V) (st : V)"
        self.loop_defs.append(f"/-- one item of comprehension {self.comps} of `{self.fd.name}`; state: the dict built so far -/\n"
                              f"def {name}«XB»{binders} : «M» (PyU.Ctl × V) := do\n" + "\n".join(lines) + "\n")
        self.loop_names.append(name)
        t = self.fresh()
        args = "".join(f" {lname(v)}" for v in captured)
        return pi + [f"{P}let {items} ← PyU.iterList {it}", f"{P}let {t} ← PyU.forList {items} ({name}«XA»{args}) (V.dict [] [])"], t

    def listcomp(self, n: ast.ListComp, ind):
        """`[e for x in it if c]`: like `dictcomp`; the definition appends one item to the list built so far"""
        P = " " * ind
        if len(n.generators) != 1 or n.generators[0].is_async:
            raise self.bad("comprehension with several `for` clauses")
        g = n.generators[0]
        pi, it = self.expr(g.iter, ind)
        items = self.fresh()
        self.comps += 1
        name = f"{lname(self.fd.name)}_comp{self.comps}"
        targets = {m.id for m in ast.walk(g.target) if isinstance(m, ast.Name)}
        inner = [n.elt] + list(g.ifs)
        used = {m.id for e in inner for m in ast.walk(e) if isinstance(m, ast.Name)}
        if self.stores_in(inner):
            raise self.bad("a comprehension that changes a variable")
        captured = [v for v in self.declared if v in used and v not in targets]
        saved = (list(self.declared), self.in_loop)
        self.declared = list(captured)
        self.in_loop = None
        item = self.fresh()
        lines = self.bind_target(g.target, item, 2)
        for c in g.ifs:
            pc, tc = self.cond(c, 2)
            lines += pc + [f"  if (!{tc}) then", "    return (PyU.Ctl.cont, st)"]
        pv, v = self.expr(n.elt, 2)
        r = self.fresh()
        lines += pv + [f"  let {r} ← PyU.append st {v}", f"  return (PyU.Ctl.cont, {r})"]
        self.declared, self.in_loop = saved
        binders = "".join(f" ({lname(v)} : V)" for v in captured) + f" ({item} : V) (st : V)"
        self.loop_defs.append(f"/-- one item of comprehension {self.comps} of `{self.fd.name}`; state: the list built so far -/\n"
                              f"def {name}«XB»{binders} : «M» (PyU.Ctl × V) := do\n" + "\n".join(lines) + "\n")
        self.loop_names.append(name)
        t = self.fresh()
        args = "".join(f" {lname(v)}" for v in captured)
        return pi + [f"{P}let {items} ← PyU.iterList {it}", f"{P}let {t} ← PyU.forList {items} ({name}«XA»{args}) (V.list [])"], t

    def exprs(self, items, ind):
        pre, terms = [], []
        for it in items:
            p, t = self.expr(it, ind)
            pre += p
            terms.append(t)
        return pre, terms

    def pieces(self, parts, ind, args_first):
        """parts: str literals and (expression node, spec) fields -> a `V.str` term.  `str.format` evaluates all arguments
        before it formats the first one (`args_first`); an f-string evaluates and formats field by field."""
        P = " " * ind
        pre, fmts, terms = [], [], []
        for part in parts:
            if isinstance(part, str):
                if part:
                    terms.append(f"PyU.cps {lean_string(part)}")
            else:
                node, spec = part
                if spec not in ("", "x", "!r") and not self.t07_spec(spec):
                    raise self.bad(f"format spec {spec!r}")
                p, v = self.expr(node, ind)
                t = self.fresh()
                pre += p
                if spec == "!r":
                    op = f"PyU.t07ReprText {v}" if getattr(self, "t07_discard", False) else f"PyU.fmtR {v}"
                elif spec == "" and isinstance(node, (ast.Tuple, ast.List)):
                    op = f"PyU.fmtS {v}"        # `str()` of a tuple / list display is its `repr`
                elif self.t07_spec(spec):
                    op = "PyU.t07FmtAltHex " + v if spec == "#x" else f"PyU.t07FmtZeroHex {v} {int(spec[1:-1])}"      # T07: `{v:#x}`, `{v:08x}`
                else:
                    op = f"PyU.fmt {v} {lean_string(spec)}"
                    if spec == "" and self.t01_on():
                        op = f"PyU.fmtS {v}"       # T01: `str()` of a list / tuple / bytes value is its `repr` (else `PyU.fmt`)
                (fmts if args_first else pre).append(f"{P}let {t} ← {op}")
                terms.append(t)
        return pre + fmts, "(V.str (" + (" ++ ".join(terms) if terms else "[]") + "))"

    def type_refs(self, n) -> list:
        """the second argument of `isinstance`"""
        if isinstance(n, ast.Tuple):
            return [t for e in n.elts for t in self.type_refs(e)]
        if isinstance(n, ast.Name) and n.id in ISINSTANCE and self.is_builtin(n, n.id):
            return [ISINSTANCE[n.id]]
        e = self.global_entry(n)
        if e is not None and e[0] in ("ntcls", "cls"):
            return [f"(PyU.Ty.cls {e[1]})"]
        raise self.bad(f"isinstance with the class {ast.unparse(n)[:40]}")

    def construct(self, n: ast.Call, term, cls, ind):
        """`Cls(a, b, f=c)` for a registered NamedTuple class: the fields in declaration order, defaults filled in"""
        fields = list(cls._fields)
        defaults = dict(cls._field_defaults)
        if len(n.args) > len(fields):
            raise self.bad(f"too many arguments for {cls.__name__}")
        pre, args = self.exprs(n.args, ind)
        vals = dict(zip(fields, args))
        for k in n.keywords:
            if k.arg not in fields or k.arg in vals:
                raise self.bad(f"{cls.__name__}: unexpected / repeated field {k.arg}")
            p, t = self.expr(k.value, ind)
            pre += p
            vals[k.arg] = t
        for f in fields:
            if f not in vals:
                if f not in defaults:
                    raise self.bad(f"{cls.__name__}: missing field {f}")
                vals[f] = const_term(defaults[f])
        return pre, f"(V.inst {term} [{', '.join(vals[f] for f in fields)}])"

    def fstring(self, n: ast.JoinedStr, ind):
        parts = []
        for v in n.values:
            if isinstance(v, ast.Constant) and isinstance(v.value, str):
                parts.append(v.value)
            elif isinstance(v, ast.FormattedValue) and v.conversion == ord("r") and v.format_spec is None:
                parts.append((v.value, "!r"))
            elif isinstance(v, ast.FormattedValue) and v.conversion == -1:
                spec = ""
                if v.format_spec is not None:
                    fs = v.format_spec.values
                    if not all(isinstance(x, ast.Constant) and isinstance(x.value, str) for x in fs):
                        raise self.bad("computed format spec")
                    spec = "".join(x.value for x in fs)
                parts.append((v.value, spec))
            else:
                raise self.bad("f-string conversion (!s / !a, or !r with a format spec)")
        return self.pieces(parts, ind, False)

    def call(self, n: ast.Call, ind):
        P = " " * ind
        f = n.func
        if any(k.arg is None for k in n.keywords):
            raise self.bad(f"**kwargs in {ast.unparse(n)[:60]}")
        entry = self.global_entry(f)
        t18 = self.t18_call(n, entry, ind)
        if t18 is not None:
            return t18
        t02 = self.t02_call(n, entry, ind)
        if t02 is not None:
            return t02
        t01 = self.t01_call(n, entry, ind)
        if t01 is not None:
            return t01
        t17 = self.t17_call(n, entry, ind)
        if t17 is not None:
            return t17
        t11 = self.t11_call(n, entry, ind)
        if t11 is not None:
            return t11
        t07 = self.t07_call(n, entry, ind)
        if t07 is not None:
            return t07
        t13 = self.t13_call(n, entry, ind)
        if t13 is not None:
            return t13
        if entry is not None and entry[0] == "intenum":      # T19: a Python `enum.IntEnum` class called with one argument
            if len(n.args) != 1 or n.keywords:
                raise self.bad(f"{ast.unparse(f)} (an IntEnum class) called with other than one positional argument")
            pa, a = self.expr(n.args[0], ind)
            t = self.fresh()
            return pa + [f"{P}let {t} ← PyU.intEnumCall {entry[1]} {a}"], t
        if entry is not None and entry[0] == "ntcls":
            return self.construct(n, entry[1], self.u.registry[self.dotted(f)][0], ind)
        if entry is not None and entry[0] == "extern":
            name, npos, kwnames = entry[1]
            if len(n.args) != npos or sorted(k.arg for k in n.keywords) != sorted(kwnames):
                raise self.bad(f"{ast.unparse(f)} is registered with {npos} positional arguments and the keywords {kwnames}")
            pre, args = self.exprs(n.args, ind)
            kwv = {}
            for k in n.keywords:
                pk, tk = self.expr(k.value, ind)
                pre += pk
                kwv[k.arg] = tk
            self.use_extern(name)
            t = self.fresh()
            return pre + [f"{P}let {t} ← {name} {' '.join(args + [kwv[x] for x in kwnames])}"], t
        if isinstance(f, ast.Attribute) and f.attr == "_replace" and not n.args and self.dotted(f) is None:
            po, o = self.expr(f.value, ind)
            items = []
            for k in n.keywords:
                pk, tk = self.expr(k.value, ind)
                po += pk
                items.append(f"({lean_string(k.arg)}, {tk})")
            t = self.fresh()
            return po + [f"{P}let {t} ← PyU.replace {o} [{', '.join(items)}]"], t
        if isinstance(f, ast.Attribute) and f.attr in ("decode", "encode") and self.dotted(f) is None:
            return self.codec(n, ind)
        if n.keywords:
            raise self.bad(f"keyword arguments in {ast.unparse(n)[:60]}")
        if self.fobj is not None and self.t15_fobj_call(n) is not None:
            return self.t15_fobj_emit(n, ind)
        if isinstance(f, ast.Attribute) and isinstance(f.value, ast.Name) and f.value.id in self.files and f.attr in FILE_METHODS:
            return self.file_call(n, ind)
        if isinstance(f, ast.Attribute) and f.attr == "read" and isinstance(f.value, ast.Name) and f.value.id in self.mutable:
            return self.expr_read(n, ind)
        if self.is_builtin(f, "isinstance"):
            p, c = self.cond(n, ind)
            return p, f"(V.bool {c})"
        if isinstance(f, ast.Attribute) and isinstance(f.value, ast.Name) and f.value.id in self.objvars:
            return self.obj_call(f.value.id, f.attr, n.args, ind)
        if self.is_builtin(f, "next") and len(n.args) == 1 and isinstance(n.args[0], ast.Name) and n.args[0].id in self.objvars:
            return self.obj_call(n.args[0].id, "__next__", [], ind)
        if entry is not None and entry[0] != "obj":     # (kind `obj`: the constructor call is the call of the translated `__init__`, below)
            kind, term = entry
            pre, args = self.exprs(n.args, ind)
            if kind == "stream":
                name, arity = term
                if len(args) != arity or CALLS not in self.declared:
                    raise self.bad(f"{ast.unparse(f)} called with {len(args)} arguments (registered with {arity})")
                self.use_extern(name)
                t = self.fresh()
                return pre + [f"{P}let {t} ← {name} t0 {' '.join(args)}", f"{P}t0 := PyU.next t0"], t
            if kind == "noop":
                return pre, "V.none"
            t = self.fresh()
            if kind == "bytesio":
                if len(args) > 1:
                    raise self.bad("io.BytesIO with more than one argument")
                return pre + [f"{P}let {t} ← PyU.newBytesIO {args[0] if args else 'V.none'}"], t
            if kind == "enum":
                if len(args) > 1:
                    raise self.bad("enum class called with more than one argument")
                return pre + [f"{P}let {t} ← PyU.enumCall {term} {args[0] if args else 'V.none'}"], t
            if kind == "func":
                name, arity = term
                if len(args) != arity:
                    raise self.bad(f"{ast.unparse(f)} called with {len(args)} arguments (registered with {arity})")
                return pre + [f"{P}let {t} ← {name} {' '.join(args)}"], t
            raise self.bad(f"registry kind {kind}")
        if self.is_builtin(f, "range") and len(n.args) == 1 and getattr(self.u, "t15_builtins", False):
            pa, a = self.expr(n.args[0], ind)      # T15: only as the iterable of a `for` (checked by `t15_analyse`)
            t = self.fresh()
            return pa + [f"{P}let {t} ← PyU.rangeV {a}"], t
        if self.is_builtin(f, "max") and len(n.args) == 2 and getattr(self.u, "t15_builtins", False):
            pa, args = self.exprs(n.args, ind)
            t = self.fresh()
            return pa + [f"{P}let {t} ← PyU.max2 {args[0]} {args[1]}"], t
        if self.is_builtin(f, "len") and len(n.args) == 1:
            pa, a = self.expr(n.args[0], ind)
            t = self.fresh()
            return pa + [f"{P}let {t} ← PyU.len {a}"], t
        if isinstance(f, ast.Name) and f.id in BUILTIN1 and self.is_builtin(f, f.id) and len(n.args) == 1:
            pa, a = self.expr(n.args[0], ind)
            t = self.fresh()
            return pa + [f"{P}let {t} ← {BUILTIN1[f.id]} {a}"], t
        if self.is_builtin(f, "enumerate") and len(n.args) == 1:
            pa, a = self.expr(n.args[0], ind)
            t = self.fresh()
            return pa + [f"{P}let {t} ← PyU.enumerate {a}"], t
        if self.is_builtin(f, "int") and len(n.args) == 2:
            if self.u.int_tables is None:
                raise self.bad("`int(x, base)`: the plug-in did not provide the Unicode tables")
            pre, args = self.exprs(n.args, ind)
            t = self.fresh()
            return pre + [f"{P}let {t} ← PyU.intBase {self.u.int_tables} {args[0]} {args[1]}"], t
        if self.is_builtin(f, "list") and len(n.args) == 1:
            pa, a = self.expr(n.args[0], ind)
            t = self.fresh()
            return pa + [f"{P}let {t} ← PyU.listOf {a}"], t
        if self.is_builtin(f, "int") and len(n.args) == 1:
            if self.u.int_tables is None:
                raise self.bad("`int(x)`: the plug-in did not provide the Unicode tables")
            pa, a = self.expr(n.args[0], ind)
            t = self.fresh()
            return pa + [f"{P}let {t} ← PyU.intOf {self.u.int_tables} {a}"], t
        if isinstance(f, ast.Name) and f.id in self.u.sigs and f.id not in self.local:
            sg = self.u.sigs[f.id]
            if len(n.args) > len(sg.params):
                raise self.bad(f"too many arguments for {f.id}")
            pre, args = self.exprs(n.args, ind)
            for p, d in sg.params[len(args):]:
                if d is None:
                    raise self.bad(f"missing argument {p} of {f.id}")
                args.append(d)
            if sg.fuel:
                self.needs_fuel = True
                args.insert(0, "fuel")
            if sg.asserts and not self.asserts:
                raise self.bad(f"{f.id} can raise AssertionError; the caller must contain an `assert` itself (monad PyU.PyA)")
            if any(self.u.registry[k][1] == "stream" and self.u.registry[k][2][0] in sg.externs for k in self.u.registry):
                raise self.bad(f"{f.id} uses a `stream` function; only the outermost function may")
            for e in sg.externs:
                self.use_extern(e)
            args = list(sg.externs) + args
            t = self.fresh()
            return pre + [f"{P}let {t} ← {sg.name} {' '.join(args)}"], t
        if isinstance(f, ast.Attribute):
            m = f.attr
            if m in MUTATORS:
                raise self.bad(f"`.{m}(…)` in a position where the changed object cannot be rebound")
            if m == "format" and isinstance(f.value, ast.Constant) and isinstance(f.value.value, str):
                parts, k = [], 0
                for literal, field, spec, conv in string.Formatter().parse(f.value.value):
                    parts.append(literal)
                    if field is None:
                        continue
                    if field != "" or conv is not None or k >= len(n.args):
                        raise self.bad(f"format field {{{field}!{conv}}} / too few arguments")
                    parts.append((n.args[k], spec or ""))
                    k += 1
                if k != len(n.args):
                    raise self.bad("str.format with unused arguments")
                return self.pieces(parts, ind, True)
            if m in METHODS:
                fn_, lo, hi, dflt = METHODS[m]
                if not lo <= len(n.args) <= hi:
                    raise self.bad(f"{m} with {len(n.args)} arguments")
                po, o = self.expr(f.value, ind)
                pre, args = self.exprs(n.args, ind)
                args += dflt[len(args):]
                t = self.fresh()
                return po + pre + [f"{P}let {t} ← " + " ".join([fn_, o] + args)], t
        raise self.bad(f"call {ast.unparse(n)[:70]}")

    def attr_store(self, st):
        """`self.a = e` / `self.a: T = e` / `self.a op= e` in a method: (attribute, value expression, operator or None)"""
        if isinstance(st, ast.Assign) and len(st.targets) == 1:
            tg, value, op = st.targets[0], st.value, None
        elif isinstance(st, ast.AnnAssign) and st.value is not None:
            tg, value, op = st.target, st.value, None
        elif isinstance(st, ast.AugAssign):
            tg, value, op = st.target, st.value, st.op
        else:
            return None
        if isinstance(tg, ast.Attribute) and isinstance(tg.value, ast.Name) and tg.value.id == self.params[0]:
            return tg.attr, value, op
        return None

    def obj_call(self, var, meth, argnodes, ind, catch=False):
        """`var.meth(args)` for an object variable (see `analyse_objects`): the call of the translated method with the object as
        first argument; a method that mutates answers `(result, object afterwards)` and the variable is rebound.  `catch`: the
        call of `__next__` by a `for` statement — StopIteration leaves the loop"""
        P = " " * ind
        sg = self.obj_sig(var, meth)
        if var not in self.declared:
            raise self.bad(f"variable {var} may be used before it is assigned on this path")
        params = sg.params[1:]
        if len(argnodes) > len(params):
            raise self.bad(f"too many arguments for {meth}")
        pre, args = self.exprs(argnodes, ind)
        for p, d in params[len(args):]:
            if d is None:
                raise self.bad(f"missing argument {p} of {meth}")
            args.append(d)
        if sg.fuel or sg.externs or sg.asserts or (sg.stops and not self.stops) or (catch and not sg.stops):
            raise self.bad(f"method {meth}: loops / external functions / assert are not supported in methods")
        term = f"{sg.name} {' '.join([lname(var)] + args)}"
        t = self.fresh()
        if catch:
            pre += [f"{P}let {t} ← PyU.catchStop ({term})", f"{P}if {t}.1 then", self.exit_loop("brk", ind + 2)]
            val = f"{t}.2"
        else:
            pre.append(f"{P}let {t} ← {term}")
            val = t
        if sg.mutates:
            r = self.fresh()
            pre += [f"{P}let {r} ← PyU.unpack2 {val}", f"{P}{lname(var)} := {r}.2"]
            val = f"{r}.1"
        return pre, val

    def codec(self, n: ast.Call, ind):
        """`x.decode(encoding, errors)` / `x.encode(encoding, errors)` with literal arguments (positional or keyword)"""
        P = " " * ind
        m = n.func.attr
        lits = {}
        for name, a in list(zip(["encoding", "errors"], n.args)) + [(k.arg, k.value) for k in n.keywords]:
            if name in lits or name not in ("encoding", "errors") or not (isinstance(a, ast.Constant) and isinstance(a.value, str)):
                raise self.bad(f"{m} with non-literal / unknown arguments")
            lits[name] = a.value
        if len(n.args) > 2:
            raise self.bad(f"{m} with more than two arguments")
        enc = CODECS.get(lits.get("encoding", "utf-8").lower().replace("_", "-"))
        key = (enc, lits.get("errors", "strict"))
        table = DECODE if m == "decode" else ENCODE
        if key not in table:
            raise self.bad(f"{m}({', '.join(f'{k}={v!r}' for k, v in lits.items())})")
        po, o = self.expr(n.func.value, ind)
        t = self.fresh()
        return po + [f"{P}let {t} ← {table[key]} {o}"], t

    # ---- conditions: (prelude lines, term of type Bool) ----------------------------------------------------------------
    def cond(self, n, ind) -> tuple[list, str]:
        P = " " * ind
        if isinstance(n, ast.UnaryOp) and isinstance(n.op, ast.Not):
            p, c = self.cond(n.operand, ind)
            return p, f"(!{c})"
        if isinstance(n, ast.Compare):
            if len(n.ops) == 2 and self.t18_on():
                return self.t18_chain(n, ind)
            if len(n.ops) != 1:
                raise self.bad("chained comparison")
            op, rhs = n.ops[0], n.comparators[0]
            pa, a = self.expr(n.left, ind)
            if isinstance(op, (ast.Is, ast.IsNot)):
                if getattr(self.u, "t13", False) and isinstance(rhs, ast.Constant) and isinstance(rhs.value, bool):
                    t = f"(PyU.t13IsBool {a} {'true' if rhs.value else 'false'})"      # T13: `x is True` / `x is False`
                    return pa, (t if isinstance(op, ast.Is) else f"(!{t})")
                if not (isinstance(rhs, ast.Constant) and rhs.value is None):
                    raise self.bad("`is` with something other than None")
                return pa, (f"(PyU.isNone {a})" if isinstance(op, ast.Is) else f"(!(PyU.isNone {a}))")
            pb, b = self.expr(rhs, ind)
            if getattr(self.u, "t11", None) and isinstance(op, (ast.Eq, ast.NotEq, ast.In, ast.NotIn)):
                return self.t11_compare(op, pa + pb, a, b, ind)      # T11: a `lark.Token` is compared as the `str` it is
            if isinstance(op, (ast.Eq, ast.NotEq)):
                return pa + pb, (f"(PyU.eq {a} {b})" if isinstance(op, ast.Eq) else f"(!(PyU.eq {a} {b}))")
            t = self.fresh()
            if isinstance(op, (ast.In, ast.NotIn)):
                return pa + pb + [f"{P}let {t} ← PyU.contains {b} {a}"], (t if isinstance(op, ast.In) else f"(!{t})")
            if type(op) in ORDER:
                return pa + pb + [f"{P}let {t} ← PyU.{ORDER[type(op)]} {a} {b}"], t
            raise self.bad(f"comparison {type(op).__name__}")
        if isinstance(n, ast.BoolOp):
            is_and = isinstance(n.op, ast.And)
            pre, cur = self.cond(n.values[0], ind)
            pre = list(pre)
            for v in n.values[1:]:
                pv, tv = self.cond(v, ind + 2)
                if not pv:
                    cur = f"({cur} {'&&' if is_and else '||'} {tv})"
                else:
                    r = self.fresh()
                    pre.append(f"{P}let mut {r} := {cur}")
                    pre.append(f"{P}if {r if is_and else f'(!{r})'} then")
                    pre += pv
                    pre.append(f"{P}  {r} := {tv}")
                    cur = r
            return pre, cur
        if isinstance(n, ast.Constant) and isinstance(n.value, bool):
            return [], "true" if n.value else "false"
        if isinstance(n, ast.Call) and self.is_builtin(n.func, "isinstance") and len(n.args) == 2 and not n.keywords:
            pa, a = self.expr(n.args[0], ind)
            return pa, f"(PyU.isInstance {a} [{', '.join(self.type_refs(n.args[1]))}])"
        p, t = self.expr(n, ind)
        return p, f"(PyU.truthy {t})"

    # ---- statements -----------------------------------------------------------------------------------------------------
    def bind(self, name, term, ind) -> str:
        P = " " * ind
        if name in self.declared:
            return f"{P}{lname(name)} := {term}"
        self.declared.append(name)
        return f"{P}let mut {lname(name)} := {term}"

    def exit_loop(self, ctl, ind) -> str:
        return f"{' ' * ind}return (PyU.Ctl.{ctl}, {tuple_term([lname(v) for v in self.in_loop])})"

    def block(self, stmts, ind) -> tuple[list, bool]:
        """lines of a block; second component: every path through the block ends in return / raise / break / continue"""
        P = " " * ind
        out = []
        term = False
        for st in stmts:
            if term:
                raise self.bad("unreachable statement after return / raise / break / continue")
            if isinstance(st, ast.Expr) and isinstance(st.value, ast.Constant) and isinstance(st.value.value, str):
                continue  # docstring
            if isinstance(st, ast.Pass):
                continue
            t13 = self.t13_stmt(st, ind)         # T13: `v[k].append(e)` on a `collections.defaultdict(list)` variable
            if t13 is not None:
                out += t13
                continue
            t18 = self.t18_stmt(st, ind, stmts)  # T18: `return` inside a loop, `try … except EOFError`, hoisted `if` variables
            if t18 is not None:
                out += t18[0]
                term = t18[1]
                continue
            t07 = self.t07_stmt(st, ind)         # T07: `p.a[k] = e` on an in-out parameter
            if t07 is not None:
                out += t07
                continue
            t19 = self.t19_stmt(st, ind, stmts)  # T19: `self.a[k] = e` / `self.a[k].append(e)`, `try … except <Builtin>` with a handler that goes on
            if t19 is not None:
                out += t19[0]
                term = t19[1]
                continue
            t01 = self.t01_stmt(st, ind)         # T01: `H = F` for a handle, `try: H = <detector>(F); … except ValueError: …`
            if t01 is not None:
                out += t01[0]
                term = t01[1]
                continue
            t17 = self.t17_stmt(st, ind)         # T17: `<counter>.update(<generator expression>)`
            if t17 is not None:
                out += t17
                continue
            t11 = self.t11_stmt(st, ind)         # T11: `d[k].append(e)` on a defaultdict variable, `xs.extend(e)`, `self.a.b.append(e)`
            if t11 is not None:
                out += t11
                continue
            t15 = self.t15_stmt(st, ind, stmts)  # T15: `try … except OSError` with a handler that goes on, hoisted `if` variables
            if t15 is not None:
                out += t15[0]
                term = t15[1]
                continue
            t02 = self.t02_stmt(st, ind)       # T02: try / except, attribute assignment on a fresh instance, hoisted `if` variables
            if t02 is not None:
                out += t02[0]
                term = t02[1]
                continue
            if isinstance(st, ast.Return):
                if self.in_loop is not None:
                    raise self.bad("return inside a loop")
                if st.value is None:
                    raise self.bad("bare return")
                p, t = self.expr(st.value, ind)
                out += p + [f"{P}return {self.result_term(t)}"]
                term = True
            elif self.is_stop_raise(st):
                if not self.stops:
                    raise self.bad("raise StopIteration (analysis)")
                out.append(f"{P}throw PyU.ExcS.stop")
                term = True
            elif self.method_of is not None and self.attr_store(st) is not None:
                # `self.a = e` / `self.a += e` in a method: `self` is rebound to the changed instance
                me, (attr, value, op) = lname(self.params[0]), self.attr_store(st)
                p, t = self.expr(value, ind)
                if op is not None:
                    if type(op) not in BINOP:
                        raise self.bad(f"operator {type(op).__name__}")
                    old, new = self.fresh(), self.fresh()
                    p = [f"{P}let {old} ← PyU.getAttr {me} {lean_string(attr)}"] + p + [
                        f"{P}let {new} ← PyU.{'iadd' if isinstance(op, ast.Add) else BINOP[type(op)]} {old} {t}"]
                    t = new
                r = self.fresh()
                out += p + [f"{P}let {r} ← PyU.setAttrObj {me} {lean_string(attr)} {t}", f"{P}{me} := {r}"]
            elif isinstance(st, ast.Raise):
                exc = st.exc
                name = exc.func.id if isinstance(exc, ast.Call) and isinstance(exc.func, ast.Name) else (exc.id if isinstance(exc, ast.Name) else None)
                if name not in EXC or st.cause is not None or not self.is_builtin(exc.func if isinstance(exc, ast.Call) else exc, name):
                    raise self.bad(f"raise {ast.unparse(st)[:60]}")
                if isinstance(exc, ast.Call):
                    if exc.keywords:
                        raise self.bad("keyword arguments of an exception")
                    p, _ = self.t07_discarded(exc.args, ind)     # (T07: the message is discarded, see `t07_discarded`)
                    out += p
                out.append(f"{P}throw «T{EXC[name]}»")
                term = True
            elif isinstance(st, ast.Assert):
                if st.msg is not None and not isinstance(st.msg, ast.Constant) and not getattr(self.u, "t07", False):
                    raise self.bad("assert with a computed message")
                p, c = self.cond(st.test, ind)
                pm = self.t07_discarded([st.msg], ind + 2)[0] if st.msg is not None and not isinstance(st.msg, ast.Constant) else []
                out += p + [f"{P}if (!{c}) then"] + pm + [f"{P}  throw PyU.ExcA.assertion"]     # (T07: a computed message is evaluated first)
            elif isinstance(st, ast.Break) or isinstance(st, ast.Continue):
                if self.in_loop is None:
                    raise self.bad("break / continue outside a loop")
                out.append(self.exit_loop("brk" if isinstance(st, ast.Break) else "cont", ind))
                term = True
            elif isinstance(st, (ast.Assign, ast.AnnAssign)):
                if isinstance(st, ast.AnnAssign):
                    if st.value is None:
                        continue
                    target = st.target
                else:
                    if len(st.targets) != 1:
                        raise self.bad("chained assignment")
                    target = st.targets[0]
                if isinstance(target, ast.Name):
                    p, t = self.expr(st.value, ind)
                    out += p + [self.bind(target.id, t, ind)]
                elif self.is_permutation(target, st.value):
                    for e in st.value.elts:
                        if e.id not in self.declared:
                            raise self.bad(f"variable {e.id} may be used before it is assigned on this path")
                    tmps = [self.fresh() for _ in st.value.elts]
                    out += [f"{P}let {t} := {lname(e.id)}" for t, e in zip(tmps, st.value.elts)]
                    out += [self.bind(e.id, t, ind) for t, e in zip(tmps, target.elts)]
                elif isinstance(target, ast.Subscript) and isinstance(target.value, ast.Name) and target.value.id in self.mutable \
                        and not isinstance(target.slice, ast.Slice):
                    v = target.value.id
                    if v not in self.declared:
                        raise self.bad(f"variable {v} may be used before it is assigned on this path")
                    p, t = self.expr(st.value, ind)        # CPython: the value first, then the container and the key
                    pk, k = self.expr(target.slice, ind)
                    r = self.fresh()
                    out += p + pk + [f"{P}let {r} ← PyU.setItem {lname(v)} {k} {t}", f"{P}{lname(v)} := {r}"]
                elif isinstance(target, ast.Tuple) and len(target.elts) in (2, 3) and all(isinstance(e, ast.Name) for e in target.elts):
                    p, t = self.expr(st.value, ind)
                    r = self.fresh()
                    k = len(target.elts)
                    out += p + [f"{P}let {r} ← PyU.unpack{k} {t}"]
                    for i, e in enumerate(target.elts):
                        out.append(self.bind(e.id, r + ".2" * i + (".1" if i < k - 1 else ""), ind))
                else:
                    raise self.bad(f"assignment target {ast.unparse(target)[:40]}")
            elif isinstance(st, ast.AugAssign):
                if not isinstance(st.target, ast.Name) or st.target.id not in self.declared or st.target.id in self.mutable:
                    raise self.bad(f"augmented assignment to {ast.unparse(st.target)[:40]}")
                if type(st.op) not in BINOP:
                    raise self.bad(f"operator {type(st.op).__name__}")
                p, b = self.expr(st.value, ind)
                t = self.fresh()
                op = "iadd" if isinstance(st.op, ast.Add) else BINOP[type(st.op)]
                out += p + [f"{P}let {t} ← PyU.{op} {lname(st.target.id)} {b}", f"{P}{lname(st.target.id)} := {t}"]
            elif isinstance(st, ast.Expr) and isinstance(st.value, ast.Yield):
                p, t = self.expr(st.value.value, ind)
                out += p + [f"{P}ys0 := PyU.yieldTo ys0 {t}"]
            elif isinstance(st, ast.Expr) and isinstance(st.value, ast.Call):
                out += self.call_stmt(st.value, ind)
            elif isinstance(st, ast.If):
                p, c = self.cond(st.test, ind)
                out += p
                saved = list(self.declared)
                body, tb = self.block(st.body, ind + 2)
                self.declared = list(saved)
                out.append(f"{P}if {c} then")
                out += body or [f"{P}  pure ()"]
                te = False
                if st.orelse:
                    orelse, te = self.block(st.orelse, ind + 2)
                    self.declared = list(saved)
                    out.append(f"{P}else")
                    out += orelse or [f"{P}  pure ()"]
                term = tb and te
            elif isinstance(st, (ast.While, ast.For)):
                out += self.loop(st, ind)
            else:
                raise self.bad(f"statement {type(st).__name__}: {ast.unparse(st)[:60]}")
        if out and out[-1].lstrip().startswith("let "):
            out.append(f"{P}pure ()")      # a Lean `do` block cannot end with a binding
        return out, term

    def call_stmt(self, c: ast.Call, ind) -> list:
        """an expression statement; `.append` / `.read` on a mutable variable rebind the variable"""
        P = " " * ind
        f = c.func
        if isinstance(f, ast.Attribute) and f.attr == "append" and isinstance(f.value, ast.Name) and f.value.id in self.mutable:
            if len(c.args) != 1 or c.keywords:
                raise self.bad("append with other than one argument")
            v = f.value.id
            if v not in self.declared:
                raise self.bad(f"variable {v} may be used before it is assigned on this path")
            p, t = self.expr(c.args[0], ind)
            r = self.fresh()
            return p + [f"{P}let {r} ← PyU.append {lname(v)} {t}", f"{P}{lname(v)} := {r}"]
        if isinstance(f, ast.Attribute) and f.attr == "insert" and isinstance(f.value, ast.Name) and f.value.id in self.mutable:
            if len(c.args) != 2 or c.keywords:
                raise self.bad("insert with other than two arguments")
            v = f.value.id
            if v not in self.declared:
                raise self.bad(f"variable {v} may be used before it is assigned on this path")
            p, ts = self.exprs(c.args, ind)
            r = self.fresh()
            return p + [f"{P}let {r} ← PyU.insert {lname(v)} {ts[0]} {ts[1]}", f"{P}{lname(v)} := {r}"]
        p, t = self.expr(c, ind)
        return p       # the call is bound in the prelude; its value is discarded

    # ---- T15: an object whose attributes hold file objects (`self.fh`), `try … except OSError`, hoisted variables -------------
    def t15_fobj_call(self, n: ast.Call):
        """`self.<file attribute>.<read|seek|tell>(…)` -> ("file", attribute, method); `self.<translated method>(…)` -> ("method", name)"""
        o, fattrs, meths = self.fobj
        f = n.func
        if not isinstance(f, ast.Attribute):
            return None
        if (isinstance(f.value, ast.Attribute) and isinstance(f.value.value, ast.Name) and f.value.value.id == o
                and f.value.attr in fattrs and f.attr in FILE_METHODS):
            return ("file", f.value.attr, f.attr)
        if isinstance(f.value, ast.Name) and f.value.id == o and f.attr in meths:
            return ("method", f.attr)
        return None

    def t15_analyse(self):
        """A function translated with `unit.t15_fobj = (self name, file attributes, methods)`: its first parameter is an instance that
        OWNS the file objects held by the listed attributes (nothing else refers to them while a method runs — assumed of the
        callers).  `self` may occur only as `self.<file attribute>.read/seek/tell(…)`, as the receiver of a listed method (translated
        before, with the same `t15_fobj`), or as `self.<attribute>` read as a value (not a file attribute).  The instance is threaded
        as a value; the translated definition returns the tuple `(result, self afterwards)`.
        `range(…)` only as the iterable of a `for`.  `try`: see `t15_try`."""
        fd = self.fd
        parents = {id(c): n for n in ast.walk(fd) for c in ast.iter_child_nodes(n)}
        for n in ast.walk(fd):
            if isinstance(n, ast.Call) and self.is_builtin_name(n.func, "range") and getattr(self.u, "t15_builtins", False):
                par = parents.get(id(n))
                if not (isinstance(par, ast.For) and par.iter is n) or n.keywords:
                    raise self.bad("range(…) other than as the iterable of a `for`")
        if self.fobj is None:
            return
        o, fattrs, meths = self.fobj
        if self.is_gen or self.init is not None or self.files:
            raise self.bad("a method of a file-owning object cannot be a generator / `__init__` / take file parameters")
        for n in ast.walk(fd):
            if not (isinstance(n, ast.Name) and n.id == o):
                continue
            par = parents.get(id(n))
            gp = parents.get(id(par))
            ggp = parents.get(id(gp))
            ok = False
            if isinstance(n.ctx, ast.Load) and isinstance(par, ast.Attribute) and par.value is n and isinstance(par.ctx, ast.Load):
                if par.attr in fattrs:
                    ok = (isinstance(gp, ast.Attribute) and gp.value is par and gp.attr in FILE_METHODS and isinstance(ggp, ast.Call)
                          and ggp.func is gp and not ggp.keywords)
                elif par.attr in meths:
                    ok = isinstance(gp, ast.Call) and gp.func is par and not gp.keywords and meths[par.attr] in self.u.sigs
                else:
                    ok = not par.attr.startswith("_") and not (isinstance(gp, ast.Call) and gp.func is par)
            if not ok:
                raise self.bad(f"`{o}` is used other than as {o}.<file>.read/seek/tell(…), {o}.<translated method>(…) or {o}.<attribute>")
        if self.in_comprehension({o}):
            raise self.bad(f"`{o}` inside a comprehension")

    def is_builtin_name(self, n, name) -> bool:
        return isinstance(n, ast.Name) and n.id == name and self.globs.get(name, getattr(builtins, name)) is getattr(builtins, name)

    def t15_fobj_emit(self, n: ast.Call, ind):
        P = " " * ind
        o = self.fobj[0]
        what = self.t15_fobj_call(n)
        if o not in self.declared:
            raise self.bad(f"{o} is not bound here")
        if what[0] == "file":
            _, attr, m = what
            fn_, lo, hi, dflt, changes = FILE_METHODS[m]
            if not lo <= len(n.args) <= hi:
                raise self.bad(f"{m} with {len(n.args)} arguments")
            a = self.fresh()
            pre = [f"{P}let {a} ← PyU.getAttr {lname(o)} {lean_string(attr)}"]      # `self.fh` is evaluated before the arguments
            pa, args = self.exprs(n.args, ind)
            args += dflt[len(args):]
            r = self.fresh()
            pre += pa + [f"{P}let {r} ← " + " ".join([fn_, a] + args)]
            if not changes:
                return pre, r
            s = self.fresh()
            return pre + [f"{P}let {s} ← PyU.setAttr {lname(o)} {lean_string(attr)} {r}.2", f"{P}{lname(o)} := {s}"], f"{r}.1"
        sg = self.u.sigs[self.fobj[2][what[1]]]
        if getattr(sg, "fobj", None) != o or sg.asserts or getattr(sg, "stops", False):
            raise self.bad(f"{what[1]} was not translated as a method of the same file-owning object")
        rest = sg.params[1:]
        if len(n.args) > len(rest):
            raise self.bad(f"too many arguments for {what[1]}")
        pre, args = self.exprs(n.args, ind)
        for pname, d in rest[len(args):]:
            if d is None:
                raise self.bad(f"missing argument {pname} of {what[1]}")
            args.append(d)
        if sg.fuel:
            self.needs_fuel = True
        for e in sg.externs:
            self.use_extern(e)
        r, q = self.fresh(), self.fresh()
        call = " ".join([sg.name] + list(sg.externs) + (["fuel"] if sg.fuel else []) + [lname(o)] + args)
        return pre + [f"{P}let {r} ← {call}", f"{P}let {q} ← PyU.unpack2 {r}", f"{P}{lname(o)} := {q}.2"], f"{q}.1"

    def t15_def_assigned(self, stmts):
        """(variables that every path through the block that reaches its end assigns by `x = e`, the block never reaches its end)"""
        out, term = [], False
        for st in stmts:
            if isinstance(st, (ast.Raise, ast.Return, ast.Break, ast.Continue)):
                term = True
            elif isinstance(st, ast.Assign) and len(st.targets) == 1 and isinstance(st.targets[0], ast.Name):
                if st.targets[0].id not in out:
                    out.append(st.targets[0].id)
            elif isinstance(st, ast.If) and st.orelse:
                (a, ta), (b, tb) = self.t15_def_assigned(st.body), self.t15_def_assigned(st.orelse)
                both = b if ta else (a if tb else [v for v in a if v in b])
                out += [v for v in both if v not in out]
                term = term or (ta and tb)
            elif isinstance(st, ast.Try) and len(st.handlers) == 1 and not st.orelse and not st.finalbody:
                (a, _), (b, tb) = self.t15_def_assigned(st.body), self.t15_def_assigned(st.handlers[0].body)
                out += [v for v in (a if tb else [v for v in a if v in b]) if v not in out]
        return out, term

    def t15_stmt(self, st, ind, stmts):
        """(lines, terminates) or None.  Active only for units with `t15_builtins`.
        * an `if` / `try` statement that assigns, on every path that goes on, a variable which is not bound yet and is read by a later
          statement of the same block: the variable is declared before the statement (Lean scoping; the value `None` is never read);
        * `try: <body> except OSError: <handler>` whose handler goes on (see `t15_try`)."""
        if not getattr(self.u, "t15_builtins", False) or not isinstance(st, (ast.If, ast.Try)):
            return None
        if id(st) in self.t15_follow:          # second visit (after the hoisting below)
            if isinstance(st, ast.Try) and self.fobj is not None:
                return self.t15_try(st, ind), False
            return None
        later = stmts[stmts.index(st) + 1:]
        self.t15_follow[id(st)] = later
        read_later = {n.id for s in later for n in ast.walk(s) if isinstance(n, ast.Name) and isinstance(n.ctx, ast.Load)}
        new = [v for v in self.t15_def_assigned([st])[0] if v not in self.declared and v in read_later and v not in self.mutable]
        lines = [self.bind(v, "V.none", ind) for v in new]
        body, term = self.block([st], ind)
        return lines + body, term

    def t15_try(self, st: ast.Try, ind) -> list:
        """`try: <body> except OSError: <handler>`, both without loop / return / break / continue / yield / raise / nested try
        (checked by T02's `t02_check_try` and here).  Translated with Lean's `try … catch`: when the body raises, what it did before
        is discarded — EXACT here because the only operation of the run-time library that raises OSError is `PyU.fileSeek`, which
        leaves the file as it was, and every line of the translated body before the LAST operation that may raise OSError (a
        `PyU.fileSeek`, a loop, or a call outside the run-time library) only binds a fresh temporary.  Any other exception propagates."""
        P = " " * ind
        h = st.handlers[0]
        if (st.orelse or st.finalbody or len(st.handlers) != 1 or h.name is not None or not isinstance(h.type, ast.Name)
                or h.type.id != "OSError" or not self.is_builtin(h.type, "OSError") or self.asserts or getattr(self, "stops", False)):
            raise self.bad("try statement other than `try: … except OSError: …`")
        for part in (st.body, h.body):
            for b in part:
                for n in ast.walk(b):
                    if isinstance(n, (ast.While, ast.For, ast.DictComp, ast.ListComp, ast.Raise, ast.Return, ast.Break, ast.Continue,
                                      ast.Yield, ast.Try, ast.Assert)):
                        raise self.bad(f"{type(n).__name__} inside a try statement")
        if any(isinstance(n, ast.Name) and n.id == "exc0" for n in ast.walk(self.fd)):
            raise self.bad("variable name exc0 clashes with the translator's own names")
        saved = list(self.declared)
        body, _ = self.block(st.body, ind + 2)
        self.declared = list(saved)
        may = [i for i, l in enumerate(body) if "PyU.fileSeek" in l or "PyU.whileFuel" in l or "PyU.forList" in l
               or (" ← " in l and not re.search(r"← PyU\.", l))]
        if may and not all(re.match(r"\s*let t\d+ (←|:=) ", l) for l in body[:may[-1]]):
            raise self.bad("try: something is changed before the last operation that can raise OSError")
        handler, _ = self.block(h.body, ind + 4)
        self.declared = list(saved)
        return ([f"{P}try"] + (body or [f"{P}  pure ()"]) + [f"{P}catch exc0 =>", f"{P}  if exc0 = PyExc.osError then"]
                + (handler or [f"{P}    pure ()"]) + [f"{P}  else", f"{P}    throw exc0"])

    def file_call(self, n, ind):
        """`f.read(n)` / `f.seek(off[, whence])` / `f.tell()` for a file parameter f: (prelude incl. the rebinding of f, term)"""
        P = " " * ind
        v = n.func.value.id
        fn_, lo, hi, dflt, changes = FILE_METHODS[n.func.attr]
        if not lo <= len(n.args) <= hi:
            raise self.bad(f"{n.func.attr} with {len(n.args)} arguments")
        pre, args = self.exprs(n.args, ind)
        args += dflt[len(args):]
        r = self.fresh()
        pre = pre + [f"{P}let {r} ← " + " ".join([fn_, lname(v)] + args)]
        if not changes:
            return pre, r
        return pre + [f"{P}{lname(v)} := {r}.2"], f"{r}.1"

    def result_term(self, t=None) -> str:
        """what the translated definition returns: the value (a generator: the list of its yields), with the file parameters"""
        t = lname(YIELDS) if self.is_gen else t
        if self.mutates:       # a method that assigns attributes: (result, `self` afterwards)
            return f"(V.tuple [{t}, {lname(self.params[0])}])"
        objs = list(self.files) + ([self.fobj[0]] if self.fobj is not None else [])     # T15: + the `self` that owns files
        objs += list(getattr(self, "t07_inout_params", ()))                             # T07: + the in-out parameters
        objs += [self.t11_self()[0]] if self.t11_self() is not None else []             # T11: + the `self` of a self-mode function
        return f"(V.tuple [{', '.join([t] + [lname(f) for f in objs])}])" if objs else t

    def expr_read(self, n, ind):
        """`p.read(k)` for a mutable variable p: (prelude incl. the rebinding of p, term)"""
        P = " " * ind
        v = n.func.value.id
        if v not in self.declared:
            raise self.bad(f"variable {v} may be used before it is assigned on this path")
        if len(n.args) > 1:
            raise self.bad("read with several arguments")
        pre, args = self.exprs(n.args, ind)
        r = self.fresh()
        return pre + [f"{P}let {r} ← PyU.read {lname(v)} {args[0] if args else 'V.none'}", f"{P}{lname(v)} := {r}.2"], f"{r}.1"

    def loop(self, st, ind) -> list:
        """`while`: run by `PyU.whileFuel`; `for x in e`: the items of `e` (a snapshot taken before the loop: the body must not
        change the object it iterates over) run by `PyU.forList`"""
        P = " " * ind
        is_for = isinstance(st, ast.For)
        if st.orelse:
            if is_for and getattr(self.u, "t17", False):
                return self.t17_for_else(st, ind)
            raise self.bad("loop … else")
        if is_for and isinstance(st.iter, ast.Name) and st.iter.id in self.objvars:
            return self.loop_obj(st, ind)
        if not is_for and self.asserts:
            raise self.bad("`while` in a function with `assert`")
        pre = []
        if is_for:
            if isinstance(st.iter, ast.Name) and st.iter.id in self.mutable:
                raise self.bad("iteration over a mutable variable")
            it_text = ast.unparse(st.iter)
            for n in ast.walk(st):
                if isinstance(n, ast.Call) and isinstance(n.func, ast.Attribute) and n.func.attr in MUTATORS and ast.unparse(n.func.value) == it_text:
                    raise self.bad("the loop changes the object it iterates over")
            pi, it = self.expr(st.iter, ind)
            items = self.fresh()
            pre = pi + [f"{P}let {items} ← PyU.iterList {it}"]
        self.loops += 1
        if not is_for:
            self.needs_fuel = True
        name = f"{lname(self.fd.name)}_loop{self.loops}"
        inside = [st] if not is_for else [st.target] + st.body
        stored = self.stores_in(inside)
        used = {n.id for m in inside for n in ast.walk(m) if isinstance(n, ast.Name)} | ({CALLS} if CALLS in stored else set())
        state = [v for v in self.declared if v in stored]
        captured = [v for v in self.declared if v in used and v not in stored]
        inner_has_loop = any(isinstance(n, ast.While) for s in st.body for n in ast.walk(s))
        if self.t01_on() and self.files and any(
                isinstance(n, ast.Call) and isinstance(n.func, ast.Attribute) and n.func.attr == "read" and isinstance(n.func.value, ast.Name)
                and (n.func.value.id in self.files or n.func.value.id in self.t01_scan()[0]) for s in st.body for n in ast.walk(s)):
            inner_has_loop = True      # T01: `read` on a file-like object may run the translated `XorEncodedFile.read`, which takes fuel
        if is_for:
            inner_has_loop = inner_has_loop or any(isinstance(n, ast.Call) and isinstance(n.func, ast.Name) and n.func.id in self.u.sigs
                                                   and self.u.sigs[n.func.id].fuel for s in st.body for n in ast.walk(s))
        # the body, as a definition of its own
        saved = (list(self.declared), self.in_loop, self.tmp)
        self.declared = list(captured) + list(state)
        self.in_loop = state
        lines = [f"  let mut {lname(v)} := {proj(k, len(state))}" for k, v in enumerate(state)]
        if is_for:
            item = self.fresh()
            lines += self.bind_target(st.target, item, 2)
        elif not (isinstance(st.test, ast.Constant) and st.test.value is True):
            p, c = self.cond(st.test, 2)
            lines += p + [f"  if (!{c}) then", self.exit_loop("brk", 4)]
        body, term = self.block(st.body, 2)
        lines += body
        if not term:
            lines.append(self.exit_loop("cont", 2))
        self.declared, self.in_loop, _ = saved
        sigma = tuple_type(len(state))
        binders = (" (fuel : Nat)" if inner_has_loop else "") + "".join(f" ({lname(v)} : V)" for v in captured) \
            + (f" ({item} : V)" if is_for else "") + f" (st : {sigma})"
        what = f"`for {ast.unparse(st.target)} in …`, " if is_for else ""
        self.loop_defs.append(f"/-- body of loop {self.loops} of `{self.fd.name}`; {what}state: ({', '.join(lname(v) for v in state) if is_for else ', '.join(state)}) -/\n"
                              f"def {name}«XB»{binders} : «M» (PyU.Ctl × ({sigma})) := do\n" + "\n".join(lines) + "\n")
        self.loop_names.append(name)
        r = self.fresh()
        args = (" fuel" if inner_has_loop else "") + "".join(f" {lname(v)}" for v in captured)
        if is_for:
            out = pre + [f"{P}let {r} ← PyU.forList {items} ({name}«XA»{args}) {tuple_term([lname(v) for v in state])}"]
        else:
            out = [f"{P}let {r} ← PyU.whileFuel{'S' if self.stops else ''} fuel ({name}«XA»{args}) {tuple_term([lname(v) for v in state])}"]
        for k, v in enumerate(state):
            out.append(f"{P}{lname(v)} := {r if len(state) == 1 else '(' + proj(k, len(state)).replace('st', r, 1) + ')'}")
        return out

    def loop_obj(self, st, ind) -> list:
        """`for x in v: body` for an object variable `v` (see `analyse_objects`) whose class has a translated `__iter__` that returns
        `self` and a translated `__next__`: `v.__iter__()` once, then `v.__next__()` before every run of the body until it raises
        StopIteration (`PyU.catchStop`); the number of runs is not known beforehand, so the loop is run by `PyU.whileFuelS`"""
        P = " " * ind
        var = st.iter.id
        if self.in_loop is not None or not self.obj_sig(var, "__iter__").returns_self:
            raise self.bad("`for` over an object inside another loop / `__iter__` does not return `self`")
        self.obj_sig(var, "__next__")
        out, _ = self.obj_call(var, "__iter__", [], ind)
        self.loops += 1
        self.needs_fuel = True
        name = f"{lname(self.fd.name)}_loop{self.loops}"
        stored = self.stores_in([st])
        used = {n.id for n in ast.walk(st) if isinstance(n, ast.Name)}
        state = [v for v in self.declared if v in stored]
        captured = [v for v in self.declared if v in used and v not in stored]
        if any(isinstance(n, (ast.While, ast.For)) for s in st.body for n in ast.walk(s)) or CALLS in stored or YIELDS in stored:
            raise self.bad("a loop / a stream function / yield inside a `for` over an object")
        if any(isinstance(n, ast.Call) and isinstance(n.func, ast.Name) and n.func.id in self.u.sigs and self.u.sigs[n.func.id].fuel
               for s in st.body for n in ast.walk(s)):
            raise self.bad("a call of a function with loops inside a `for` over an object")
        saved = (list(self.declared), self.in_loop)
        self.declared = list(captured) + list(state)
        self.in_loop = state
        lines = [f"  let mut {lname(v)} := {proj(k, len(state))}" for k, v in enumerate(state)]
        pn, item = self.obj_call(var, "__next__", [], 2, catch=True)
        lines += pn + self.bind_target(st.target, item, 2)
        body, term = self.block(st.body, 2)
        lines += body
        if not term:
            lines.append(self.exit_loop("cont", 2))
        self.declared, self.in_loop = saved
        sigma = tuple_type(len(state))
        binders = "".join(f" ({lname(v)} : V)" for v in captured) + f" (st : {sigma})"
        self.loop_defs.append(f"/-- body of loop {self.loops} of `{self.fd.name}`; `for {ast.unparse(st.target)} in {var}` (one call of `__next__`, "
                              f"then the body), state: ({', '.join(lname(v) for v in state)}) -/\n"
                              f"def {name}«XB»{binders} : «M» (PyU.Ctl × ({sigma})) := do\n" + "\n".join(lines) + "\n")
        self.loop_names.append(name)
        r = self.fresh()
        args = "".join(f" {lname(v)}" for v in captured)
        out.append(f"{P}let {r} ← PyU.whileFuelS fuel ({name}«XA»{args}) {tuple_term([lname(v) for v in state])}")
        for k, v in enumerate(state):
            out.append(f"{P}{lname(v)} := {r if len(state) == 1 else '(' + proj(k, len(state)).replace('st', r, 1) + ')'}")
        return out

    # ==== T02 (iter_settings / settings_map of beacon.py; run-time: lean/CsVerif/Model/PyU_T02.lean) ==============================
    def t02_owned(self):
        """parameters the plug-in declared (`unit.owned_params = {function name: [parameter, …]}`) as possibly holding a mutable
        object of the caller (a BytesIO): the parameter may be the receiver of mutating methods; the in-place change of the caller's
        object is not part of the translated result.  A function with such a parameter cannot be called by a translated function."""
        return getattr(self.u, "owned_params", {}).get(self.fd.name, ())

    def t02_struct_arg(self, n):
        """`Struct(v)` for a registered cstruct structure class and a variable: the Name node of `v`"""
        if (isinstance(n, ast.Call) and not n.keywords and len(n.args) == 1 and isinstance(n.args[0], ast.Name)
                and self.global_kind(n.func) == "struct"):
            return n.args[0]
        return None

    def t02_mutables(self) -> set:
        """more mutable variables: the file object a structure is read from, the receiver of an attribute assignment"""
        out = set()
        for n in ast.walk(self.fd):
            recv, what = self.t02_struct_arg(n), "a structure read from"
            if isinstance(n, ast.Attribute) and isinstance(n.ctx, ast.Store):
                recv, what = n.value, "attribute assignment on"
                if not isinstance(recv, ast.Name):
                    raise self.bad(f"attribute assignment {ast.unparse(n)[:40]} on something that is not a variable")
            if recv is None or (isinstance(recv, ast.Name) and recv.id in self.files):
                continue
            if isinstance(recv, ast.Name) and recv.id == self.t02_self_name():
                continue       # `self.a = …` in a method: handled by the objects analysis
            if isinstance(recv, ast.Name) and recv.id in self.t07_inout():
                continue       # T07: an in-out parameter (checked by `t07_mutables`)
            ok = recv.id in self.assigned and (recv.id not in self.params or recv.id in self.t02_owned())
            if not ok:
                raise self.bad(f"{what} {recv.id}, which is not a local variable bound to a fresh object")
            out.add(recv.id)
        return out

    def t02_self_name(self):
        return self.params[0] if getattr(self, "method_of", None) is not None and self.params else None

    def t02_allowed(self) -> set:
        """positions where a mutable variable may occur without creating a second reference that this function could observe:
        the first argument of `isinstance`, the argument of `io.BytesIO(…)` (the content is copied), the file argument of
        `Struct(f)`, the object of an attribute read `v.a` (assumed: attribute values are immutable or never changed through the
        read reference — a change needs a receiver variable bound to a fresh object) or attribute assignment, and `yield v` under
        the condition of `t02_checks`"""
        fd = self.fd
        ok = set()
        for n in ast.walk(fd):
            if isinstance(n, ast.Call) and self.is_builtin(n.func, "isinstance") and n.args and isinstance(n.args[0], ast.Name):
                ok.add(id(n.args[0]))
            if isinstance(n, ast.Call) and self.global_kind(n.func) == "bytesio":
                ok |= {id(a) for a in n.args if isinstance(a, ast.Name)}
            a = self.t02_struct_arg(n)
            if a is not None:
                ok.add(id(a))
            if isinstance(n, ast.Attribute) and isinstance(n.value, ast.Name) and n.value.id in self.mutable and not n.attr.startswith("_"):
                ok.add(id(n.value))
        ok |= self.t02_checks()
        return ok

    def t02_checks(self) -> set:
        """`try` statements and yields of mutable variables.
        `yield v` for a mutable variable `v`: the consumer gets a reference to the object, so the generator must never change it
        afterwards — required: the statement is the last one of the body of a loop, and every assignment of `v` is inside that body
        (then `v` is local to one iteration: the translator rejects a use before the assignment in the same iteration and after the loop)."""
        fd = self.fd
        ok = set()
        parents = {id(c): n for n in ast.walk(fd) for c in ast.iter_child_nodes(n)}
        for st in ast.walk(fd):
            if isinstance(st, ast.Expr) and isinstance(st.value, ast.Yield) and isinstance(st.value.value, ast.Name) \
                    and st.value.value.id in self.mutable and not self.t17_yield_ok(st, parents):
                v = st.value.value.id
                loop = parents.get(id(st))
                if not isinstance(loop, (ast.While, ast.For)) or loop.body[-1] is not st:
                    raise self.bad(f"`yield {v}` of a mutable variable that is not the last statement of a loop body")
                inside = {id(m) for b in loop.body for m in ast.walk(b)}
                for m in ast.walk(fd):
                    if isinstance(m, ast.Name) and m.id == v and isinstance(m.ctx, ast.Store) and id(m) not in inside:
                        raise self.bad(f"`yield {v}`: the mutable variable is also assigned outside the loop")
                if v in self.params:
                    raise self.bad(f"`yield {v}` of a parameter")
                ok.add(id(st.value.value))
        for st in ast.walk(fd):
            if isinstance(st, ast.Try):
                if id(st) in self.t01_scan()[1]:
                    continue       # T01: `try: H = <detector>(F); … except ValueError: …` (see `t01_stmt`)
                self.t02_check_try(st, parents)
        return ok

    def t02_try_excs(self, st: ast.Try) -> list:
        if st.orelse or st.finalbody or len(st.handlers) != 1 or st.handlers[0].name is not None or st.handlers[0].type is None:
            raise self.bad("try with else / finally / several handlers / `except … as e` / a bare `except`")
        ty = st.handlers[0].type
        names = ty.elts if isinstance(ty, ast.Tuple) else [ty]
        out = []
        for e in names:
            if not (isinstance(e, ast.Name) and e.id in EXC and self.is_builtin(e, e.id)):
                raise self.bad(f"except {ast.unparse(ty)[:40]}")
            # the builtin exception classes of EXC are unrelated, except that PyExc.valueError also stands for UnicodeError
            # and PyExc.osError for its subclasses; `except LookupError` / `except Exception` are not expressible
            out.append(EXC[e.id])
        return out

    def t02_check_try(self, st: ast.Try, parents):
        """`try: <body> except <Builtin>[, …]: <handler>` — every raising operation of the body is guarded on its own
        (`PyU.attempt`), so the assignments made before the exception persist as in Python.  Required for exactness:
          * the body contains no loop, comprehension, `raise`, `return`, `break`, `continue`, `yield`, nested `try`, `assert`
            and no call of a function with an `assert` (the operation that raises is then always one bind of this block);
          * the handler ends in `break` / `raise` / `return` on every path;
          * a MUTABLE variable changed in the body (an operation that raises may leave the real object half-changed, e.g. a file
            position) is dead when the handler runs: not mentioned in the handler; and if the handler leaves a loop by `break`,
            that loop is a top-level statement of the function and the variable does not occur after it; no `continue`."""
        if self.t18_is_eof_try(st):
            return         # T18: `try … except EOFError` around reads from a file parameter (see `t18_try`)
        self.t02_try_excs(st)
        for b in st.body:
            for n in ast.walk(b):
                if isinstance(n, (ast.While, ast.For, ast.DictComp, ast.ListComp, ast.Raise, ast.Return, ast.Break, ast.Continue,
                                  ast.Yield, ast.Try, ast.Assert)):
                    raise self.bad(f"{type(n).__name__} inside the body of a try statement")
                if isinstance(n, ast.Call) and isinstance(n.func, ast.Name) and n.func.id in self.u.sigs and n.func.id not in self.local \
                        and self.u.sigs[n.func.id].asserts:
                    raise self.bad("a call of a function with `assert` inside the body of a try statement")
        if self.asserts or getattr(self, "stops", False):
            raise self.bad("try in a function with `assert` / StopIteration")
        handler = st.handlers[0].body
        hnodes = [n for h in handler for n in ast.walk(h)]
        if any(isinstance(n, (ast.While, ast.For, ast.Try, ast.Yield, ast.Continue)) for n in hnodes):
            raise self.bad("loop / try / yield / continue inside an exception handler")
        dirty = {v for v in self.stores_in(st.body) if v in self.mutable or v in self.files}
        if dirty & {n.id for n in hnodes if isinstance(n, ast.Name)}:
            raise self.bad(f"the exception handler mentions {sorted(dirty)}, which the try body may have left half-changed")
        if dirty and any(isinstance(n, ast.Break) for n in hnodes):
            loop = parents.get(id(st))
            while loop is not None and not isinstance(loop, (ast.While, ast.For)):
                loop = parents.get(id(loop))
            if loop is not None and getattr(self.u, "t17", False) and not (dirty & set(self.files)) \
                    and all(self.t17_confined(v, loop, parents) for v in dirty):
                return         # T17: the half-changed objects are dead when the handler leaves the loop (see `t17_confined`)
            if loop is None or loop not in self.fd.body:
                raise self.bad("`break` in an exception handler: the loop must be a top-level statement of the function")
            after = self.fd.body[self.fd.body.index(loop) + 1:]
            if dirty & {n.id for a in after for n in ast.walk(a) if isinstance(n, ast.Name)} or dirty & set(self.files):
                raise self.bad(f"{sorted(dirty)} is used after the loop that an exception handler leaves")

    def t02_def_assigned(self, stmts) -> list:
        """variables (plain names) that every path through the block assigns (only `x = e` and if / else are followed)"""
        out = []
        for st in stmts:
            if isinstance(st, (ast.Assign, ast.AnnAssign)) and st.value is not None:
                for t in (st.targets if isinstance(st, ast.Assign) else [st.target]):
                    if isinstance(t, ast.Name) and t.id not in out:
                        out.append(t.id)
            elif isinstance(st, ast.If) and st.orelse:
                a, b = self.t02_def_assigned(st.body), self.t02_def_assigned(st.orelse)
                out += [v for v in a if v in b and v not in out]
        return out

    def t02_stmt(self, st, ind):
        """statements of the T02 subset: (lines, terminates) or None"""
        P = " " * ind
        if isinstance(st, ast.Try):
            return self.t02_try(st, ind), False
        if isinstance(st, ast.If) and getattr(self.u, "hoist_if_vars", False):
            new = [v for v in self.t02_def_assigned([st]) if v not in self.declared and v not in self.mutable]
            if new:
                # a variable that both branches assign is declared before the `if` (Lean scoping); the value is never read
                lines = [self.bind(v, "V.none", ind) for v in new]
                body, term = self.block([st], ind)
                return lines + body, term
            return None
        target = None
        if isinstance(st, ast.Assign) and len(st.targets) == 1:
            target = st.targets[0]
        elif isinstance(st, (ast.AugAssign, ast.AnnAssign)) and st.value is not None:
            target = st.target
        if not (isinstance(target, ast.Attribute) and isinstance(target.value, ast.Name) and target.value.id in self.mutable
                and target.value.id != self.t02_self_name()):
            return None
        v = target.value.id
        if target.attr.startswith("_"):
            raise self.bad(f"assignment to the attribute {target.attr}")
        if v not in self.declared:
            raise self.bad(f"variable {v} may be used before it is assigned on this path")
        out = []
        if isinstance(st, ast.AugAssign):
            if type(st.op) not in BINOP:
                raise self.bad(f"operator {type(st.op).__name__}")
            a = self.fresh()
            out.append(f"{P}let {a} ← PyU.getAttr {lname(v)} {lean_string(target.attr)}")
            p, b = self.expr(st.value, ind)
            t = self.fresh()
            op = "iadd" if isinstance(st.op, ast.Add) else BINOP[type(st.op)]
            out += p + [f"{P}let {t} ← PyU.{op} {a} {b}"]
        else:
            p, t = self.expr(st.value, ind)
            out += p
        r = self.fresh()
        out += [f"{P}let {r} ← PyU.instSetAttr {lname(v)} {lean_string(target.attr)} {t}", f"{P}{lname(v)} := {r}"]
        return out, False

    def t02_try(self, st: ast.Try, ind) -> list:
        """see `t02_check_try`; the handler is translated once, with the variables that are declared when the `try` starts, and
        put behind every guarded bind of the body"""
        P = " " * ind
        excs = self.t02_try_excs(st)
        saved = list(self.declared)
        handler, term = self.block(st.handlers[0].body, 0)
        self.declared = list(saved)
        if not term:
            raise self.bad("an exception handler that does not end in break / raise / return on every path")
        body, bterm = self.block(st.body, ind)
        if body and body[-1].strip() == "pure ()":
            body.pop()
        out = []
        for line in body:
            m = re.fullmatch(r"(\s*)let (t\d+) ← (.*)", line)
            if m is None:
                if "←" in line or line.strip().startswith("throw") or line.strip().startswith("return"):
                    raise self.bad("a statement inside `try` that the translator cannot guard")
                out.append(line)
                continue
            sp, t, rhs = m.groups()
            out.append(f"{sp}let some {t} ← PyU.attempt [{', '.join(excs)}] ({rhs})")
            out.append(f"{sp}  | do")
            out += [f"{sp}      {h}" for h in handler]
        if body and re.fullmatch(r"(\s*)let (t\d+) ← (.*)", body[-1]):
            out.append(f"{P}pure ()")      # a Lean `do` block cannot end with a binding
        return out

    def t02_property(self, n: ast.Attribute, ind):
        """`self.<name>` in a method, for a read-only property whose getter the plug-in translated before
        (`unit.t02_properties = {property name: key of the translated getter}`): the call of the getter"""
        props = getattr(self.u, "t02_properties", {})
        if not (isinstance(n.ctx, ast.Load) and n.attr in props and isinstance(n.value, ast.Name) and self.params
                and n.value.id == self.params[0] and n.value.id not in self.assigned and n.value.id not in self.mutable):
            return None
        sg = self.u.sigs[props[n.attr]]
        if len(sg.params) != 1 or sg.asserts and not self.asserts:
            raise self.bad(f"property getter {n.attr}: more than the `self` parameter / `assert`")
        if sg.fuel:
            self.needs_fuel = True
        for e in sg.externs:
            self.use_extern(e)
        t = self.fresh()
        args = list(sg.externs) + (["fuel"] if sg.fuel else []) + [lname(n.value.id)]
        return [f"{' ' * ind}let {t} ← {sg.name} {' '.join(args)}"], t

    def t02_call(self, n: ast.Call, entry, ind):
        """calls of the T02 subset: (prelude, term) or None"""
        P = " " * ind
        f = n.func
        if isinstance(f, ast.Name) and f.id in self.u.sigs and f.id not in self.local and getattr(self.u, "owned_params", {}).get(f.id):
            # the callee may change the object passed for an `owned` parameter in place; the value-threading translation of the
            # caller is exact only when that argument is immutable (e.g. `bytes`) or never looked at again
            if not getattr(self.u, "owned_calls_assume_immutable", False):
                raise self.bad(f"call of {f.id}, which may change its argument {self.u.owned_params[f.id]} in place")
        if entry is not None and entry[0] == "struct":
            a = self.t02_struct_arg(n)
            if a is None or a.id not in self.mutable:
                raise self.bad(f"{ast.unparse(n)[:50]}: a structure is read from a variable that holds a BytesIO")
            if a.id not in self.declared:
                raise self.bad(f"variable {a.id} may be used before it is assigned on this path")
            r = self.fresh()
            return [f"{P}let {r} ← PyU.structRead {entry[1]} {lname(a.id)}", f"{P}{lname(a.id)} := {r}.2"], f"{r}.1"
        if entry is not None and entry[0] == "dictctor":
            if n.args or n.keywords:
                raise self.bad(f"{ast.unparse(n)[:50]}: only the empty constructor call")
            return [], "(V.dict [] [])"
        if isinstance(f, ast.Attribute) and f.attr == "seek" and isinstance(f.value, ast.Name) and f.value.id in self.mutable \
                and f.value.id not in self.files:
            v = f.value.id
            if v not in self.declared:
                raise self.bad(f"variable {v} may be used before it is assigned on this path")
            if n.keywords or not 1 <= len(n.args) <= 2:
                raise self.bad("seek with keyword arguments / other than one or two arguments")
            pre, args = self.exprs(n.args, ind)
            if len(args) == 1:
                args.append("(V.int 0)")
            r = self.fresh()
            return pre + [f"{P}let {r} ← PyU.bioSeek {lname(v)} {args[0]} {args[1]}", f"{P}{lname(v)} := {r}.2"], f"{r}.1"
        if n.keywords:
            return None
        for name, op in (("str", "PyU.strOf"), ("tuple", "PyU.tupleOf"), ("max", "PyU.maxOf")):
            if self.is_builtin(f, name) and len(n.args) == 1 and getattr(self.u, "t02_builtins", False):
                pa, a = self.expr(n.args[0], ind)
                t = self.fresh()
                if name == "str":
                    if getattr(self.u, "enum_names", None) is None:
                        raise self.bad("`str(x)`: the plug-in did not provide the names of the enum classes")
                    op = f"PyU.strOf {self.u.enum_names}"
                return pa + [f"{P}let {t} ← {op} {a}"], t
        if isinstance(f, ast.Name) and f.id in self.local and "%callvalue" in self.u.registry and len(n.args) == 1:
            # a call of a value (a function object held by a local variable): the external function `%callvalue`
            name = self.u.registry["%callvalue"][2][0]
            if f.id not in self.declared:
                raise self.bad(f"variable {f.id} may be used before it is assigned on this path")
            if f.id in self.mutable:
                raise self.bad(f"call of the mutable variable {f.id}")
            pa, a = self.expr(n.args[0], ind)
            self.use_extern(name)
            t = self.fresh()
            return pa + [f"{P}let {t} ← {name} {lname(f.id)} {a}"], t
        return None

    # ==== T17 (guardrails.py; run-time: lean/CsVerif/Model/PyU_T17.lean) =========================================================
    def t17_on(self) -> bool:
        return bool(getattr(self.u, "t17", False))

    def t17_reg_kind(self, f):
        """registry kind of a called name, by its spelling only (usable before `self.local` exists; that the name denotes the
        registered object is checked by `global_entry` when the call is translated, shadowing locals by `analyse`)"""
        try:
            d = ast.unparse(f)
        except Exception:  # noqa: BLE001
            return None
        ent = self.u.registry.get(d)
        return (ent[1], d) if ent is not None else None

    def t17_is_filegen(self, n) -> bool:
        """`g(f)`: an external generator function (`unit.t17_filegens`) called with one file parameter"""
        if not (self.t17_on() and isinstance(n, ast.Call) and not n.keywords and len(n.args) == 1 and isinstance(n.args[0], ast.Name)
                and n.args[0].id in self.files):
            return False
        k = self.t17_reg_kind(n.func)
        return k is not None and k[0] == "extern" and k[1] in getattr(self.u, "t17_filegens", ())

    def t17_genexp_ok(self, g) -> bool:
        """a generator expression is accepted only as the sole argument of the expression statement `<name>.update(<genexp>)`
        (that `<name>` is a counter variable is checked by `t17_stmt`)"""
        if not self.t17_on():
            return False
        for st in ast.walk(self.fd):
            if (isinstance(st, ast.Expr) and isinstance(st.value, ast.Call) and st.value.args == [g] and not st.value.keywords
                    and isinstance(st.value.func, ast.Attribute) and st.value.func.attr == "update" and isinstance(st.value.func.value, ast.Name)):
                return True
        return False

    def t17_file_uses(self) -> set:
        """more places where a file parameter may occur: the argument of an external generator function that is the iterable of
        a `for` statement without `break` (the loop consumes the generator completely; the generator is run to its end BEFORE the
        first run of the body — exact when the body does not touch the file and the generator cannot raise after its first
        `yield`, or the body cannot raise; the file as the generator leaves it is part of the external function's answer), and an
        argument of a call without effect (kind `noop`, e.g. `log.info("%r", fh)`)"""
        ok = set()
        if not self.t17_on():
            return ok
        parents = {id(c): n for n in ast.walk(self.fd) for c in ast.iter_child_nodes(n)}
        for n in ast.walk(self.fd):
            if self.t17_is_filegen(n):
                par = parents.get(id(n))
                if not (isinstance(par, ast.For) and par.iter is n):
                    raise self.bad(f"{ast.unparse(n)[:50]}: an external generator function may only be the iterable of a `for`")
                if any(isinstance(m, ast.Name) and m.id == n.args[0].id for b in par.body + par.orelse for m in ast.walk(b)):
                    raise self.bad(f"the body of the loop over {ast.unparse(n)[:40]} uses the file the generator reads")
                if self.t17_breaks_of(par) or par.orelse:
                    raise self.bad(f"the loop over {ast.unparse(n)[:40]} has a `break` / `else` (the generator must be consumed completely)")
                ok.add(id(n.args[0]))
            elif isinstance(n, ast.Call) and not n.keywords and (self.t17_reg_kind(n.func) or (None,))[0] == "noop":
                ok |= {id(a) for a in n.args if isinstance(a, ast.Name) and a.id in self.files}
        return ok

    def t17_breaks_of(self, loop) -> list:
        """the `break` statements that leave `loop`"""
        out = []

        def visit(stmts):
            for s in stmts:
                if isinstance(s, ast.Break):
                    out.append(s)
                elif isinstance(s, (ast.For, ast.While)):
                    visit(s.orelse)
                elif isinstance(s, ast.If):
                    visit(s.body)
                    visit(s.orelse)
                elif isinstance(s, ast.Try):
                    visit(s.body)
                    visit(s.orelse)
                    visit(s.finalbody)
                    for h in s.handlers:
                        visit(h.body)
        visit(loop.body)
        return out

    def t17_stores(self, n) -> set:
        out = set()
        if not self.t17_on():
            return out
        if self.files and self.t17_is_filegen(n):
            out.add(n.args[0].id)
        if (isinstance(n, ast.Call) and isinstance(n.func, ast.Attribute) and n.func.attr == "update" and isinstance(n.func.value, ast.Name)
                and n.func.value.id in getattr(self, "t17_vars", {})):
            out.add(n.func.value.id)
        return out

    def t17_mutables(self) -> set:
        """COUNTER variables (every assignment is `v = collections.Counter()`) and READER variables (every assignment is
        `v = io.BufferedReader(io.BytesIO(e))`): local variables, not parameters"""
        self.t17_vars = {}
        if not self.t17_on():
            return set()
        for n in ast.walk(self.fd):
            if isinstance(n, (ast.Assign, ast.AnnAssign)) and n.value is not None and isinstance(n.value, ast.Call):
                kind = self.global_kind(n.value.func)
                if kind in T17_FRESH_KINDS:
                    tg = n.targets if isinstance(n, ast.Assign) else [n.target]
                    if len(tg) != 1 or not isinstance(tg[0], ast.Name) or tg[0].id in self.params:
                        raise self.bad(f"{ast.unparse(n.value)[:40]} must be bound to a local variable")
                    if self.t17_vars.setdefault(tg[0].id, kind) != kind:
                        raise self.bad(f"variable {tg[0].id} holds objects of two kinds")
        for n in ast.walk(self.fd):
            if isinstance(n, ast.Call) and self.global_kind(n.func) in T17_FRESH_KINDS:
                pass       # (position checked below: every such call is the value of an assignment counted above)
        parents = {id(c): n for n in ast.walk(self.fd) for c in ast.iter_child_nodes(n)}
        for n in ast.walk(self.fd):
            if isinstance(n, ast.Call) and self.global_kind(n.func) in T17_FRESH_KINDS:
                par = parents.get(id(n))
                if not (isinstance(par, (ast.Assign, ast.AnnAssign)) and par.value is n):
                    raise self.bad(f"{ast.unparse(n)[:40]} must be the whole right-hand side of an assignment")
        for v, kind in self.t17_vars.items():
            for n in ast.walk(self.fd):
                if not (isinstance(n, ast.Name) and n.id == v):
                    continue
                par = parents.get(id(n))
                gp = parents.get(id(par))
                if isinstance(n.ctx, ast.Store):
                    ok = (isinstance(par, (ast.Assign, ast.AnnAssign)) and par.value is not None and isinstance(par.value, ast.Call)
                          and self.global_kind(par.value.func) == kind)
                elif kind == "counterctor":
                    ok = (isinstance(par, ast.Attribute) and par.value is n and isinstance(gp, ast.Call) and gp.func is par and not gp.keywords
                          and (par.attr == "most_common" and len(gp.args) <= 1
                               or par.attr == "update" and len(gp.args) == 1 and isinstance(gp.args[0], ast.GeneratorExp)
                               and isinstance(parents.get(id(gp)), ast.Expr)))
                else:
                    ok = (isinstance(par, ast.Attribute) and par.value is n and par.attr == "peek" and isinstance(gp, ast.Call) and gp.func is par
                          and not gp.keywords and len(gp.args) == 1
                          or isinstance(par, ast.Call) and par.args == [n] and not par.keywords and self.global_kind(par.func) == "struct")
                if not ok:
                    raise self.bad(f"variable {v} ({kind}) is used other than by the methods the translator models for it")
        return set(self.t17_vars)

    def t17_confined(self, v, stmt, parents) -> bool:
        """the mutable variable `v` is DEAD after the statement `stmt`: `v` has exactly one assignment, a statement of the block
        that contains `stmt`, in front of `stmt`; `v` is not mentioned behind `stmt` in that block; and every other mention of `v`
        in the function lies between the two.  A block is always entered at its first statement, so whenever `v` is used again it
        has been bound to a fresh object since."""
        holder = parents.get(id(stmt))
        blocks = [b for b in (getattr(holder, "body", None), getattr(holder, "orelse", None), getattr(holder, "finalbody", None))
                  if isinstance(b, list) and stmt in b]
        if len(blocks) != 1 or v in self.params:
            return False
        blk = blocks[0]
        j = blk.index(stmt)
        stores = [n for n in ast.walk(self.fd) if isinstance(n, ast.Name) and n.id == v and isinstance(n.ctx, ast.Store)]
        idx = [i for i, s in enumerate(blk[:j]) if isinstance(s, (ast.Assign, ast.AnnAssign)) and s.value is not None
               and any(t is stores[0] for t in (s.targets if isinstance(s, ast.Assign) else [s.target]))] if len(stores) == 1 else []
        if len(idx) != 1:
            return False
        inside = {id(m) for s in blk[idx[0]:j + 1] for m in ast.walk(s)}
        return all(id(n) in inside for n in ast.walk(self.fd) if isinstance(n, ast.Name) and n.id == v)

    def t17_fresh_target(self, v):
        """the `for` statement whose target is the mutable variable `v` and whose iterable is an external generator function
        handed a file parameter (assumed of such a function: it yields objects nothing else refers to, pairwise different) — the
        only binding of `v`; or None"""
        stores = [n for n in ast.walk(self.fd) if isinstance(n, ast.Name) and n.id == v and isinstance(n.ctx, ast.Store)]
        loops = [n for n in ast.walk(self.fd) if isinstance(n, ast.For) and n.target in stores]
        if len(stores) == 1 and len(loops) == 1 and self.t17_is_filegen(loops[0].iter) and v not in self.params:
            return loops[0]
        return None

    def t17_yield_ok(self, st, parents) -> bool:
        """`yield v` for a mutable variable `v` bound by `for v in <external generator>(f):` (see `t17_fresh_target`): the consumer
        gets a reference to the object, so `v` must not be mentioned again in the same run of that loop's body.  Followed from the
        `yield` outwards: the rest of each enclosing block must not mention `v`; a `break` directly behind the `yield` leaves the
        nearest loop (its `else` is skipped); the end of a loop's `else` clause goes on behind that loop; any other way of staying
        inside an inner loop is refused."""
        if not self.t17_on():
            return False
        v = st.value.value.id
        top = self.t17_fresh_target(v)
        if top is None:
            return False
        node, leaving = st, False
        while True:
            holder = parents.get(id(node))
            if holder is None or isinstance(holder, (ast.Try, ast.With, ast.FunctionDef)):
                return False
            in_body = node in getattr(holder, "body", [])
            blk = holder.body if in_body else holder.orelse
            rest = blk[blk.index(node) + 1:]
            if not leaving:
                if node is st and rest and isinstance(rest[0], ast.Break):
                    leaving = True
                elif any(isinstance(m, ast.Name) and m.id == v for s in rest for m in ast.walk(s)):
                    return False
            if isinstance(holder, (ast.For, ast.While)):
                if holder is top:
                    return in_body and not leaving
                if in_body and not leaving:
                    return False       # the inner loop may run its body again
                leaving = False        # left by `break`, or the `else` clause ended: go on behind the inner loop
            elif not isinstance(holder, ast.If):
                return False
            node = holder

    def t17_allowed(self) -> set:
        """positions where a mutable variable may occur: the target of `for v in <external generator>(f)` (a fresh object per
        item), the receiver of `.peek` / `.most_common` / `.update`, `yield v` (see `t17_yield_ok`), and an argument of a dataclass
        constructor inside `yield Cls(…)` when the variable is dead afterwards (`t17_confined`: the consumer keeps the only live
        reference).  Also checked here: `range(a, b)` only as the iterable of a `for`; the result of a one-shot iterator function
        (kind `kwfunc` with the flag `oneshot`) is bound to a variable that is used exactly once, as the iterable of a
        comprehension / `for` in a later statement of the same block."""
        ok = set()
        if not self.t17_on():
            return ok
        fd = self.fd
        parents = {id(c): n for n in ast.walk(fd) for c in ast.iter_child_nodes(n)}
        for v in self.mutable:
            loop = self.t17_fresh_target(v)
            if loop is not None:
                ok.add(id(loop.target))
        for n in ast.walk(fd):
            if (isinstance(n, ast.Call) and isinstance(n.func, ast.Attribute) and isinstance(n.func.value, ast.Name)
                    and n.func.value.id in self.t17_vars and n.func.attr in ("peek", "most_common", "update")):
                ok.add(id(n.func.value))
            if isinstance(n, ast.Expr) and isinstance(n.value, ast.Yield) and isinstance(n.value.value, ast.Name) \
                    and n.value.value.id in self.mutable and self.t17_yield_ok(n, parents):
                ok.add(id(n.value.value))
            if isinstance(n, ast.Expr) and isinstance(n.value, ast.Yield) and isinstance(n.value.value, ast.Call) \
                    and self.global_kind(n.value.value.func) == "dcls":
                c = n.value.value
                for a in list(c.args) + [k.value for k in c.keywords]:
                    if isinstance(a, ast.Name) and a.id in self.mutable and self.t17_confined(a.id, n, parents):
                        ok.add(id(a))
            if isinstance(n, ast.Call) and self.is_builtin_name(n.func, "range") and len(n.args) == 2:
                par = parents.get(id(n))
                if not (isinstance(par, ast.For) and par.iter is n) or n.keywords:
                    raise self.bad("range(a, b) other than as the iterable of a `for`")
            if isinstance(n, ast.Call) and self.global_kind(n.func) == "kwfunc" and self.global_entry(n.func)[1][3]:
                par = parents.get(id(n))
                tg = (par.targets if isinstance(par, ast.Assign) else []) if par is not None and getattr(par, "value", None) is n else []
                holder = parents.get(id(par))
                blk = next((b for b in (getattr(holder, "body", None), getattr(holder, "orelse", None)) if isinstance(b, list) and par in b), None)
                if len(tg) != 1 or not isinstance(tg[0], ast.Name) or blk is None:
                    raise self.bad(f"{ast.unparse(n)[:40]}: a one-shot iterator must be bound to a variable by a plain assignment")
                v = tg[0].id
                uses = [m for m in ast.walk(fd) if isinstance(m, ast.Name) and m.id == v]
                loads = [m for m in uses if isinstance(m.ctx, ast.Load)]
                later = {id(m) for s in blk[blk.index(par) + 1:] for m in ast.walk(s)}
                up = parents.get(id(loads[0])) if len(loads) == 1 else None
                if not (len(uses) == 2 and len(loads) == 1 and id(loads[0]) in later and v not in self.params
                        and (isinstance(up, ast.comprehension) and up.iter is loads[0] or isinstance(up, ast.For) and up.iter is loads[0])):
                    raise self.bad(f"the one-shot iterator {v} must be used exactly once, as the iterable of a later comprehension / `for`")
                # the use must not be inside a loop that the assignment is outside of (the iterator would be exhausted the second time)
                q = parents.get(id(loads[0]))
                while q is not None and q is not holder:
                    if isinstance(q, (ast.For, ast.While)) and not (isinstance(q, ast.For) and q.iter is loads[0]):
                        raise self.bad(f"the one-shot iterator {v} is used inside a loop that does not rebind it")
                    q = parents.get(id(q))
        return ok

    def t17_call(self, n: ast.Call, entry, ind):
        """calls of the T17 subset: (prelude, term) or None"""
        if not self.t17_on():
            return None
        P = " " * ind
        f = n.func
        if self.t17_is_filegen(n) and entry is not None and entry[0] == "extern":
            name = entry[1][0]
            fv = n.args[0].id
            self.use_extern(name)
            t, r = self.fresh(), self.fresh()
            return [f"{P}let {t} ← {name} {lname(fv)}", f"{P}let {r} ← PyU.unpack2 {t}", f"{P}{lname(fv)} := {r}.2"], f"{r}.1"
        if entry is not None and entry[0] == "dcls":
            term, fields, defaults = entry[1]
            if len(n.args) > len(fields):
                raise self.bad(f"too many arguments for {ast.unparse(f)}")
            pre, args = self.exprs(n.args, ind)
            vals = dict(zip(fields, args))
            for k in n.keywords:
                if k.arg not in fields or k.arg in vals:
                    raise self.bad(f"{ast.unparse(f)}: unexpected / repeated field {k.arg}")
                p, t = self.expr(k.value, ind)
                pre += p
                vals[k.arg] = t
            for fl in fields:
                if fl not in vals:
                    if fl not in defaults:
                        raise self.bad(f"{ast.unparse(f)}: missing field {fl}")
                    vals[fl] = const_term(defaults[fl])
            return pre, f"(V.inst {term} [{', '.join(vals[fl] for fl in fields)}])"
        if entry is not None and entry[0] == "kwfunc":
            name, params, defaults, _ = entry[1]
            if len(n.args) > len(params):
                raise self.bad(f"too many arguments for {ast.unparse(f)}")
            pre, args = self.exprs(n.args, ind)
            vals = dict(zip(params, args))
            for k in n.keywords:
                if k.arg not in params or k.arg in vals:
                    raise self.bad(f"{ast.unparse(f)}: unexpected / repeated argument {k.arg}")
                p, t = self.expr(k.value, ind)
                pre += p
                vals[k.arg] = t
            for p_ in params:
                if p_ not in vals:
                    if p_ not in defaults:
                        raise self.bad(f"{ast.unparse(f)}: missing argument {p_}")
                    vals[p_] = const_term(defaults[p_])
            t = self.fresh()
            return pre + [f"{P}let {t} ← {name} {' '.join(vals[p_] for p_ in params)}"], t
        if entry is not None and entry[0] == "counterctor":
            if n.args or n.keywords:
                raise self.bad(f"{ast.unparse(n)[:50]}: only the empty constructor call")
            return [], "(V.dict [] [])"
        if entry is not None and entry[0] == "bufreader":
            if n.keywords or len(n.args) != 1 or not (isinstance(n.args[0], ast.Call) and self.global_kind(n.args[0].func) == "bytesio"):
                raise self.bad(f"{ast.unparse(n)[:50]}: only `io.BufferedReader(io.BytesIO(e))`")
            pa, a = self.expr(n.args[0], ind)
            t = self.fresh()
            return pa + [f"{P}let {t} ← PyU.newBufReader {a}"], t
        if isinstance(f, ast.Attribute) and isinstance(f.value, ast.Name) and f.value.id in self.t17_vars and not n.keywords:
            v, kind = f.value.id, self.t17_vars[f.value.id]
            if v not in self.declared:
                raise self.bad(f"variable {v} may be used before it is assigned on this path")
            if kind == "bufreader" and f.attr == "peek" and len(n.args) == 1:
                pa, a = self.expr(n.args[0], ind)
                t = self.fresh()
                return pa + [f"{P}let {t} ← PyU.peek {lname(v)} {a}"], t
            if kind == "counterctor" and f.attr == "most_common" and len(n.args) <= 1:
                pa, args = self.exprs(n.args, ind)
                t = self.fresh()
                return pa + [f"{P}let {t} ← PyU.mostCommon {lname(v)} {args[0] if args else 'V.none'}"], t
            raise self.bad(f"{ast.unparse(n)[:50]}: not a modelled method of a {kind} variable")
        if n.keywords:
            return None
        if self.is_builtin(f, "range") and len(n.args) == 2:
            pa, args = self.exprs(n.args, ind)     # only as the iterable of a `for` (checked by `t17_allowed`)
            t = self.fresh()
            return pa + [f"{P}let {t} ← PyU.range2V {args[0]} {args[1]}"], t
        if self.is_builtin(f, "bytes") and len(n.args) == 1:
            pa, a = self.expr(n.args[0], ind)
            t = self.fresh()
            return pa + [f"{P}let {t} ← PyU.bytesOf17 {a}"], t
        return None

    def t17_stmt(self, st, ind):
        """`c.update(e for x in it if cond)` for a counter variable `c`: the items are counted one by one, as the generator
        expression delivers them — a definition of its own (the targets are local to it) run by `PyU.forList` over the items of
        `it` (evaluated in the enclosing scope), state: the counter"""
        if not (self.t17_on() and isinstance(st, ast.Expr) and isinstance(st.value, ast.Call) and isinstance(st.value.func, ast.Attribute)
                and st.value.func.attr == "update" and isinstance(st.value.func.value, ast.Name)
                and self.t17_vars.get(st.value.func.value.id) == "counterctor"):
            return None
        P = " " * ind
        c = st.value
        v = c.func.value.id
        if len(c.args) != 1 or c.keywords or not isinstance(c.args[0], ast.GeneratorExp):
            raise self.bad("Counter.update with something other than one generator expression")
        if v not in self.declared:
            raise self.bad(f"variable {v} may be used before it is assigned on this path")
        g0 = c.args[0]
        if len(g0.generators) != 1 or g0.generators[0].is_async:
            raise self.bad("generator expression with several `for` clauses")
        g = g0.generators[0]
        pi, it = self.expr(g.iter, ind)
        items = self.fresh()
        self.comps += 1
        name = f"{lname(self.fd.name)}_comp{self.comps}"
        targets = {m.id for m in ast.walk(g.target) if isinstance(m, ast.Name)}
        inner = [g0.elt] + list(g.ifs)
        used = {m.id for e in inner for m in ast.walk(e) if isinstance(m, ast.Name)}
        if self.stores_in(inner) or v in used:
            raise self.bad("a generator expression that changes a variable / mentions the counter it feeds")
        captured = [w for w in self.declared if w in used and w not in targets]
        saved = (list(self.declared), self.in_loop)
        self.declared = list(captured)
        self.in_loop = None
        item = self.fresh()
        lines = self.bind_target(g.target, item, 2)
        for cnd in g.ifs:
            pc, tc = self.cond(cnd, 2)
            lines += pc + [f"  if (!{tc}) then", "    return (PyU.Ctl.cont, st)"]
        pv, tv = self.expr(g0.elt, 2)
        r = self.fresh()
        lines += pv + [f"  let {r} ← PyU.counterIncr st {tv}", f"  return (PyU.Ctl.cont, {r})"]
        self.declared, self.in_loop = saved
        binders = "".join(f" ({lname(w)} : V)" for w in captured) + f" ({item} : V) (st : V)"
        self.loop_defs.append(f"/-- one item of generator expression {self.comps} of `{self.fd.name}` (the argument of `{v}.update`); "
                              f"state: the counter -/\n"
                              f"def {name}«XB»{binders} : «M» (PyU.Ctl × V) := do\n" + "\n".join(lines) + "\n")
        self.loop_names.append(name)
        t = self.fresh()
        args = "".join(f" {lname(w)}" for w in captured)
        return pi + [f"{P}let {items} ← PyU.iterList {it}", f"{P}let {t} ← PyU.forList {items} ({name}«XA»{args}) {lname(v)}",
                     f"{P}{lname(v)} := {t}"]

    def t17_for_else(self, st: ast.For, ind) -> list:
        """`for x in e: body else: tail` — the loop is translated as without `else` but run by `PyU.forListElse`, which also answers
        whether the items were exhausted (no `break`); then `tail` runs in the enclosing scope"""
        P = " " * ind
        bare = ast.For(target=st.target, iter=st.iter, body=st.body, orelse=[], type_comment=None)
        ast.copy_location(bare, st)
        lines = self.loop(bare, ind)
        hits = [i for i, l in enumerate(lines) if re.match(r"\s*let t\d+ ← PyU\.forList ", l)]
        if len(hits) != 1:
            raise self.bad("for … else: cannot find the loop in its translation")
        m = re.match(r"(\s*)let (t\d+) ← PyU\.forList (.*)", lines[hits[0]])
        q = self.fresh()
        lines[hits[0]:hits[0] + 1] = [f"{m.group(1)}let {q} ← PyU.forListElse {m.group(3)}", f"{m.group(1)}let {m.group(2)} := {q}.2"]
        saved = list(self.declared)
        tail, _ = self.block(st.orelse, ind + 2)
        self.declared = list(saved)
        return lines + [f"{P}if {q}.1 then"] + (tail or [f"{P}  pure ()"])

    # ==== T19 (client.py; run-time: lean/CsVerif/Model/PyU_T19.lean) — active for units with `unit.t19 = True` ====================
    def t19_item_store(self, n):
        """`me.a[k] = e` (the Subscript node in Store context) / `me.a[k].append(e)` (the Call node) for the first parameter `me`:
        ("set" | "append", attribute, key expression), else None"""
        if not getattr(self.u, "t19", False) or not self.params:
            return None
        me = self.params[0]

        def item(sub):
            if (isinstance(sub, ast.Subscript) and not isinstance(sub.slice, ast.Slice) and isinstance(sub.value, ast.Attribute)
                    and isinstance(sub.value.value, ast.Name) and sub.value.value.id == me and not sub.value.attr.startswith("_")):
                return sub.value.attr, sub.slice
            return None

        if isinstance(n, ast.Subscript) and isinstance(n.ctx, ast.Store) and item(n) is not None:
            return ("set",) + item(n)
        if (isinstance(n, ast.Call) and isinstance(n.func, ast.Attribute) and n.func.attr == "append" and isinstance(n.func.value, ast.Subscript)
                and isinstance(n.func.value.ctx, ast.Load) and item(n.func.value) is not None):
            return ("append",) + item(n.func.value)
        return None

    def t19_analyse(self):
        """A function with the statements `me.a[k] = e` / `me.a[k].append(e)` (`me` = its first parameter, an instance that OWNS the
        dict `me.a` and the lists in it: nothing else refers to them — assumed of the callers, and checked by the plug-in for the
        class).  The instance is threaded as a value: the statement rebinds `me` to the changed instance.  That is exact when this
        function cannot hold a second reference to the instance, the dict or one of the lists: `me` occurs only as `me.<attr>` and
        in `return me`; `me.a` (for an attribute `a` that is changed) occurs only in these two statements and as the right operand
        of `in` / `not in`; the two forms occur only as whole statements (`t19_stmt`; anywhere else they are rejected by `call` /
        the assignment arm)."""
        self.t19_seen = set()
        if not getattr(self.u, "t19", False) or not self.params:
            return
        fd, me = self.fd, self.params[0]
        stores = [self.t19_item_store(n) for n in ast.walk(fd)]
        attrs = {s[1] for s in stores if s is not None}
        if not attrs:
            return
        if self.is_gen or self.init is not None or self.files or self.fobj is not None or self.method_of is not None or self.asserts or self.stops:
            raise self.bad("item assignment on an attribute of the first parameter in a generator / `__init__` / method_of / assert function")
        parents = {id(c): n for n in ast.walk(fd) for c in ast.iter_child_nodes(n)}
        for n in ast.walk(fd):
            if isinstance(n, ast.Name) and n.id == me:
                par = parents.get(id(n))
                if isinstance(par, ast.Return) and par.value is n:
                    continue
                if not (isinstance(n.ctx, ast.Load) and isinstance(par, ast.Attribute) and par.value is n and isinstance(par.ctx, ast.Load)):
                    raise self.bad(f"`{me}` is used other than as `{me}.<attr>` / `return {me}` in a function that changes `{me}.{sorted(attrs)[0]}[…]`")
                if par.attr in attrs:
                    gp = parents.get(id(par))
                    ggp = parents.get(id(gp))
                    ok = (isinstance(gp, ast.Subscript) and gp.value is par and (self.t19_item_store(gp) is not None or self.t19_item_store(parents.get(id(ggp))) is not None and ggp.value is gp)
                          or isinstance(gp, ast.Compare) and len(gp.ops) == 1 and isinstance(gp.ops[0], (ast.In, ast.NotIn)) and gp.comparators[0] is par)
                    if not ok:
                        raise self.bad(f"`{me}.{par.attr}` is used other than in `{me}.{par.attr}[k] = e`, `{me}.{par.attr}[k].append(e)`, `k in {me}.{par.attr}`")
        if self.in_comprehension({me}):
            raise self.bad(f"`{me}` inside a comprehension")

    def t19_allowed(self) -> set:
        """a truth test (`if v:` / `not v`) reads the object, it cannot create a second reference"""
        ok = set()
        if getattr(self.u, "t19", False):
            for n in ast.walk(self.fd):
                if isinstance(n, (ast.If, ast.While, ast.IfExp)) and isinstance(n.test, ast.Name):
                    ok.add(id(n.test))
                if isinstance(n, ast.UnaryOp) and isinstance(n.op, ast.Not) and isinstance(n.operand, ast.Name):
                    ok.add(id(n.operand))
        return ok

    def t19_def_assigned(self, stmts):
        """(variables that every path through the block that reaches its end assigns by `x = e`, the block never reaches its end)"""
        out, term = [], False
        for st in stmts:
            if isinstance(st, (ast.Raise, ast.Return, ast.Break, ast.Continue)):
                term = True
            elif isinstance(st, (ast.Assign, ast.AnnAssign)) and getattr(st, "value", None) is not None:
                for t in (st.targets if isinstance(st, ast.Assign) else [st.target]):
                    if isinstance(t, ast.Name) and t.id not in out:
                        out.append(t.id)
            elif isinstance(st, ast.If) and st.orelse:
                (a, ta), (b, tb) = self.t19_def_assigned(st.body), self.t19_def_assigned(st.orelse)
                both = b if ta else (a if tb else [v for v in a if v in b])
                out += [v for v in both if v not in out]
                term = term or (ta and tb)
            elif isinstance(st, ast.Try) and len(st.handlers) == 1 and not st.orelse and not st.finalbody:
                (a, _), (b, tb) = self.t19_def_assigned(st.body), self.t19_def_assigned(st.handlers[0].body)
                out += [v for v in (a if tb else [v for v in a if v in b]) if v not in out]
        return out, term

    def t19_stmt(self, st, ind, stmts):
        """(lines, terminates) or None.
        * `me.a[k] = e` / `me.a[k].append(e)` as whole statements (see `t19_analyse`), in CPython's evaluation order;
        * an `if` / `try` statement that assigns, on every path that goes on, a variable which is not bound yet: the variable is
          declared before the statement (Lean scoping; the value `None` is never read);
        * `try: <body> except <Builtin>[, …]: <handler>` whose handler goes on (see `t19_try`)."""
        if not getattr(self.u, "t19", False):
            return None
        P = " " * ind
        node = st.value if isinstance(st, ast.Expr) else (st.targets[0] if isinstance(st, ast.Assign) and len(st.targets) == 1 else None)
        what = self.t19_item_store(node) if node is not None else None
        if what is not None:
            kind, attr, key = what
            me = lname(self.params[0])
            if self.params[0] not in self.declared or self.in_loop is not None and self.params[0] not in self.in_loop:
                raise self.bad(f"{self.params[0]} is not bound here")
            d, r1, r2 = self.fresh(), self.fresh(), self.fresh()
            if kind == "set":
                pv, v = self.expr(st.value, ind)          # CPython: the value first, then the container and the key
                pk, k = self.expr(key, ind)
                return (pv + [f"{P}let {d} ← PyU.getAttr {me} {lean_string(attr)}"] + pk
                        + [f"{P}let {r1} ← PyU.setItem {d} {k} {v}", f"{P}let {r2} ← PyU.setAttr {me} {lean_string(attr)} {r1}", f"{P}{me} := {r2}"]), False
            if len(node.args) != 1 or node.keywords:
                raise self.bad("append with other than one argument")
            pk, k = self.expr(key, ind)
            old, new = self.fresh(), self.fresh()
            pv, v = self.expr(node.args[0], ind)          # the receiver `me.a[k]` is evaluated before the argument
            return ([f"{P}let {d} ← PyU.getAttr {me} {lean_string(attr)}"] + pk + [f"{P}let {old} ← PyU.getItem {d} {k}"] + pv
                    + [f"{P}let {new} ← PyU.append {old} {v}", f"{P}let {r1} ← PyU.setItem {d} {k} {new}",
                       f"{P}let {r2} ← PyU.setAttr {me} {lean_string(attr)} {r1}", f"{P}{me} := {r2}"]), False
        if not isinstance(st, (ast.If, ast.Try)):
            return None
        if id(st) in self.t19_seen:            # second visit (after the hoisting below)
            return (self.t19_try(st, ind), False) if isinstance(st, ast.Try) else None
        self.t19_seen.add(id(st))
        new = [v for v in self.t19_def_assigned([st])[0] if v not in self.declared and v not in self.mutable]
        lines = [self.bind(v, "V.none", ind) for v in new]
        body, term = self.block([st], ind)
        return lines + body, term

    def t19_try(self, st: ast.Try, ind) -> list:
        """`try: <body> except <Builtin>[, …]: <handler>` translated with Lean's `try … catch`: when the body raises, everything it
        assigned before is discarded, whereas in Python it persists.  EXACT under the conditions checked here: body and handler
        contain no loop / comprehension / return / raise / break / continue / yield / nested try / assert; the body changes no
        mutable object (list, BytesIO, the threaded first parameter, a call counter); the handler does not read a variable the body
        assigns; every variable the body assigns that exists before the statement is assigned by the handler on every path (so the
        value discarded with a failed body is never seen), and a variable the body assigns FIRST is not visible afterwards (a use
        is rejected as "may be used before it is assigned").  Any other exception propagates."""
        P = " " * ind
        excs = self.t02_try_excs(st)
        if self.asserts or self.stops or self.is_gen:
            raise self.bad("try in a function with assert / StopIteration / yield")
        h = st.handlers[0]
        for part in (st.body, h.body):
            for b in part:
                for n in ast.walk(b):
                    if isinstance(n, (ast.While, ast.For, ast.DictComp, ast.ListComp, ast.Raise, ast.Return, ast.Break, ast.Continue,
                                      ast.Yield, ast.Try, ast.Assert)):
                        raise self.bad(f"{type(n).__name__} inside a try statement")
        if any(isinstance(n, ast.Name) and n.id == "exc0" for n in ast.walk(self.fd)):
            raise self.bad("variable name exc0 clashes with the translator's own names")
        stored = self.stores_in(st.body)
        dirty = {v for v in stored if v in self.mutable or v in self.files or v in (CALLS, YIELDS) or v in self.objvars}
        if self.t19_item_store_in(st.body) or dirty:
            raise self.bad(f"the body of a try statement changes a mutable object {sorted(dirty)}")
        if stored & {n.id for b in h.body for n in ast.walk(b) if isinstance(n, ast.Name) and isinstance(n.ctx, ast.Load)}:
            raise self.bad("the exception handler reads a variable that the try body assigns")
        before = [v for v in stored if v in self.declared]
        missing = [v for v in before if v not in self.t19_def_assigned(h.body)[0]]
        if missing:
            raise self.bad(f"the try body assigns {missing}, which the exception handler does not assign on every path")
        saved = list(self.declared)
        body, _ = self.block(st.body, ind + 2)
        self.declared = list(saved)
        handler, _ = self.block(h.body, ind + 4)
        self.declared = list(saved)
        test = " || ".join(f"exc0 = {e}" for e in excs)
        return ([f"{P}try"] + (body or [f"{P}  pure ()"]) + [f"{P}catch exc0 =>", f"{P}  if {test} then"]
                + (handler or [f"{P}    pure ()"]) + [f"{P}  else", f"{P}    throw exc0"])

    def t19_item_store_in(self, stmts) -> bool:
        return any(self.t19_item_store(n) is not None for b in stmts for n in ast.walk(b))

    # ==== T07 (c2.py: decrypt_metadata / encrypt_metadata / C2Http; run-time: lean/CsVerif/Model/PyU_T07.lean) ====================
    def t07_inout(self):
        """the IN-OUT parameters of this function (`unit.t07_inout = {function name: [parameter, …]}`)"""
        return getattr(self.u, "t07_inout", {}).get(self.fd.name, ())

    def t07_spec(self, spec) -> bool:
        """the format specs `0<w>x` (zero-filled lower-case hexadecimal of width w) and `#x`, for units with `unit.t07 = True`"""
        return bool(getattr(self.u, "t07", False) and re.fullmatch(r"0[1-9]\d?x|#x", spec))

    def t07_discarded(self, items, ind):
        """the arguments of `raise X(…)` / the message of `assert c, msg`: evaluated for their exceptions only, the values are thrown
        away with the exception object (message texts are never compared).  In a unit with `unit.t07 = True` a field `{v!r}` in such a
        position is `PyU.t07ReprText` (the `repr` of kinds of objects `PyU.repr` does not model is an unspecified text, not an
        exception — assumed: `__repr__` of the objects the function handles does not raise), and `X(args)` for a builtin exception
        class evaluates its arguments only."""
        if not getattr(self.u, "t07", False):
            return self.exprs(items, ind)
        saved = getattr(self, "t07_discard", False)
        self.t07_discard = True
        try:
            return self.exprs(items, ind)
        finally:
            self.t07_discard = saved

    def t07_mutables(self) -> set:
        """EXTERNAL OBJECT variables: a local variable every assignment of which is `v = <ctor>(args)` for a registered constructor of
        kind `t07ctor` (term = (Lean term of a `PyU.Cls` with one field per argument, number of arguments, {method: (extern name,
        number of arguments)})); the object is IMMUTABLE as far as the program can tell (assumed of the registered class), so its
        value is the instance `V.inst cls [args]` and `v.m(a, …)` is the external function `m` applied to `v` and the arguments.
        The variable may occur only as the receiver of a registered method.
        IN-OUT parameters (`unit.t07_inout`): the parameter holds an object OF THE CALLER that this function changes in place by
        `p.a = e`; the object is threaded as a value and the definition answers the tuple `(result, p afterwards)` (when the function
        raises, the state of the caller's object is not part of the answer).  Exact because the function cannot create a second
        reference to the object: `p` occurs only as `p.a` (read / assigned by a whole statement), as `len(p)` or as `p.dumps()`.
        `len(p)` / `p.dumps()` are `PyU.t07Len` / `PyU.t07Dumps` over the structure classes `unit.t07_structs` (a Lean term of type
        `List PyU.T07StructCls`): they can raise `struct.error`, so the function lives in the monad `PyU.T07PyE`."""
        fd = self.fd
        self.t07_inout_params = list(self.t07_inout())
        self.t07_serr = False
        self.t07_extvars = {}
        parents = {id(c): n for n in ast.walk(fd) for c in ast.iter_child_nodes(n)}
        for n in ast.walk(fd):
            # `x.m(args)` for a method `m` of a class translated by another unit (`unit.t07_methods`): it may raise AssertionError
            if (isinstance(n, ast.Call) and isinstance(n.func, ast.Attribute) and n.func.attr in (getattr(self.u, "t07_methods", None) or {})
                    and self.u.t07_methods[n.func.attr][4]):
                self.asserts = True
        for n in ast.walk(fd):
            if isinstance(n, ast.Call) and self.global_kind(n.func) == "t07ctor":
                par = parents.get(id(n))
                tg = (par.targets if isinstance(par, ast.Assign) else [par.target]) if isinstance(par, (ast.Assign, ast.AnnAssign)) and par.value is n else []
                if len(tg) != 1 or not isinstance(tg[0], ast.Name) or tg[0].id in self.params:
                    raise self.bad(f"{ast.unparse(n)[:40]}: an external object must be bound to a local variable by `v = …`")
                term = self.global_entry(n.func)[1]
                if self.t07_extvars.setdefault(tg[0].id, term) is not term:
                    raise self.bad(f"variable {tg[0].id} holds external objects of two kinds")
        for v, term in self.t07_extvars.items():
            for n in ast.walk(fd):
                if not (isinstance(n, ast.Name) and n.id == v):
                    continue
                par = parents.get(id(n))
                gp = parents.get(id(par))
                if isinstance(n.ctx, ast.Store):
                    ok = (isinstance(par, (ast.Assign, ast.AnnAssign)) and par.value is not None and isinstance(par.value, ast.Call)
                          and self.global_kind(par.value.func) == "t07ctor" and self.global_entry(par.value.func)[1] is term)
                else:
                    ok = (isinstance(par, ast.Attribute) and par.value is n and par.attr in term[2] and isinstance(gp, ast.Call)
                          and gp.func is par and not gp.keywords and len(gp.args) == term[2][par.attr][1])
                if not ok:
                    raise self.bad(f"external object variable {v} is used other than as the receiver of a registered method")
            if self.in_comprehension({v}):
                raise self.bad(f"external object variable {v} inside a comprehension")
        inout = self.t07_inout_params
        if not inout:
            return set()
        if self.init is not None or self.files or self.fobj is not None or getattr(self, "method_of", None) is not None:
            raise self.bad("in-out parameters in `__init__` / a method / together with file parameters")
        selfm = getattr(self.u, "t07_self_methods", None) or {}
        for p in inout:
            if p not in self.params:
                raise self.bad(f"in-out parameter {p} is not a parameter")
            for n in ast.walk(fd):
                if not (isinstance(n, ast.Name) and n.id == p):
                    continue
                par = parents.get(id(n))
                gp = parents.get(id(par))
                ok = False
                if isinstance(par, ast.Attribute) and par.value is n and not par.attr.startswith("_") and isinstance(n.ctx, ast.Load):
                    if isinstance(par.ctx, ast.Load):
                        if isinstance(gp, ast.Call) and gp.func is par and par.attr in selfm:
                            # `p.m(args)` for a method translated before that does not change `p` (`unit.t07_self_methods`)
                            sg = self.u.sigs.get(selfm[par.attr])
                            ok = sg is not None and not gp.keywords and not getattr(sg, "t07_inout", None) and not sg.fuel
                            if ok and sg.asserts:
                                self.asserts = True
                        elif isinstance(gp, ast.Call) and gp.func is par:
                            ok = par.attr == "dumps" and not gp.args and not gp.keywords and getattr(self.u, "t07_structs", None) is not None
                            self.t07_serr = self.t07_serr or ok
                        else:
                            ok = True
                    else:
                        tgt = gp.targets if isinstance(gp, ast.Assign) else ([gp.target] if isinstance(gp, (ast.AnnAssign, ast.AugAssign)) else [])
                        ok = len(tgt) == 1 and tgt[0] is par
                elif isinstance(par, ast.Call) and self.is_builtin(par.func, "len") and par.args == [n] and not par.keywords:
                    ok = getattr(self.u, "t07_structs", None) is not None
                    self.t07_serr = self.t07_serr or ok
                if not ok:
                    raise self.bad(f"in-out parameter {p} is used other than as {p}.a, `{p}.a = e`, len({p}), {p}.dumps()")
            if self.in_comprehension({p}):
                raise self.bad(f"in-out parameter {p} inside a comprehension")
        if self.t07_serr and (self.asserts or self.is_gen or any(isinstance(n, (ast.Try, ast.While, ast.For)) for n in ast.walk(fd))):
            raise self.bad("len(p) / p.dumps() of an in-out parameter together with assert / yield / try / a loop")
        for n in ast.walk(fd):
            if self.t07_item_store(n) is not None:
                par = parents.get(id(n))
                if not (isinstance(par, ast.Assign) and par.targets == [n]):
                    raise self.bad("`p.a[k] = e` on an in-out parameter other than as a whole statement")
        if any(isinstance(n, ast.Try) for n in ast.walk(fd)):
            raise self.bad("`try` in a function with in-out parameters")
        self.assigned |= set(inout)
        return set(inout)

    def t07_item_store(self, n):
        """`p.a[k] = e` (the Subscript node in Store context) for an in-out parameter `p`: (p, attribute, key expression), else None"""
        if not getattr(self.u, "t07_inout", None) or not (isinstance(n, ast.Subscript) and isinstance(n.ctx, ast.Store)):
            return None
        v = n.value
        if (not isinstance(n.slice, ast.Slice) and isinstance(v, ast.Attribute) and isinstance(v.value, ast.Name)
                and v.value.id in self.t07_inout() and not v.attr.startswith("_")):
            return v.value.id, v.attr, n.slice
        return None

    def t07_stmt(self, st, ind):
        """`p.a[k] = e` as a whole statement, in CPython's evaluation order (value, container, key): lines, or None"""
        tg = st.targets[0] if isinstance(st, ast.Assign) and len(st.targets) == 1 else None
        what = self.t07_item_store(tg) if tg is not None else None
        if what is None:
            return None
        P = " " * ind
        pn, attr, key = what
        if pn not in self.declared or self.in_loop is not None and pn not in self.in_loop:
            raise self.bad(f"{pn} is not bound here")
        pv, v = self.expr(st.value, ind)
        d, r1, r2 = self.fresh(), self.fresh(), self.fresh()
        pk, k = self.expr(key, ind)
        return (pv + [f"{P}let {d} ← PyU.getAttr {lname(pn)} {lean_string(attr)}"] + pk
                + [f"{P}let {r1} ← PyU.setItem {d} {k} {v}", f"{P}let {r2} ← PyU.instSetAttr {lname(pn)} {lean_string(attr)} {r1}",
                   f"{P}{lname(pn)} := {r2}"])

    def t07_allowed(self) -> set:
        """(the occurrences of an in-out parameter — `p.a`, `p.a = e`, `p.dumps`, `len(p)` — are already accepted by `t02_allowed` /
        `t12_allowed`; `t07_mutables` has checked that there are no others)"""
        return set()

    def t07_call(self, n: ast.Call, entry, ind):
        """calls of the T07 subset: (prelude, term) or None"""
        P = " " * ind
        f = n.func
        if isinstance(f, ast.Name) and f.id in self.u.sigs and f.id not in self.local:
            sg = self.u.sigs[f.id]
            if getattr(sg, "t07_inout", None) or getattr(sg, "t07_serr", False):
                raise self.bad(f"call of {f.id}, which has in-out parameters / can raise struct.error")
            return None
        t07 = bool(getattr(self.u, "t07", False))
        if t07 and isinstance(f, ast.Name) and f.id == "t07_extgen" and f.id not in self.local and getattr(self.u, "t07_genmethods", None):
            # (from `_t07_desugar`) the external generator method `m` of the value `v`, run to its end: `(items, exception or None)`
            m, v = n.args[0].value, n.args[1]
            pa, a = self.expr(v, ind)
            name = self.u.t07_genmethods[m]
            self.use_extern(name)
            t = self.fresh()
            return pa + [f"{P}let {t} ← {name} {a}"], t
        if t07 and isinstance(f, ast.Name) and f.id == "t07_reraise" and f.id not in self.local and getattr(self.u, "t07_genmethods", None):
            pa, a = self.expr(n.args[0], ind)
            t = self.fresh()
            return pa + [f"{P}let {t} ← PyU.t07Reraise {a}"], t
        if entry is not None and entry[0] == "t07starfunc":
            # `f(a, k=b, **v._asdict())` (desugared to the keyword `t07_star=v`): the external function gets the positional arguments,
            # the keyword arguments in the registered order and the object whose fields are the remaining keyword arguments
            name, npos, kwnames = entry[1]
            kws = {k.arg: k.value for k in n.keywords}
            if len(n.args) != npos or sorted(kws) != sorted(kwnames + ["t07_star"]):
                raise self.bad(f"{ast.unparse(f)} is registered with {npos} positional arguments, the keywords {kwnames} and `**v._asdict()`")
            pre, args = self.exprs(n.args, ind)
            for kname in [k.arg for k in n.keywords]:          # evaluation order: as written
                pk, tk = self.expr(kws[kname], ind)
                pre += pk
                kws[kname] = tk
            self.use_extern(name)
            t = self.fresh()
            return pre + [f"{P}let {t} ← {name} {' '.join(args + [kws[x] for x in kwnames] + [kws['t07_star']])}"], t
        selfm = getattr(self.u, "t07_self_methods", None) or {}
        if (isinstance(f, ast.Attribute) and isinstance(f.value, ast.Name) and f.value.id in getattr(self, "t07_inout_params", ())
                and f.attr in selfm and not n.keywords):
            sg = self.u.sigs[selfm[f.attr]]
            rest = sg.params[1:]
            if len(n.args) > len(rest):
                raise self.bad(f"too many arguments for {f.attr}")
            pre, args = self.exprs(n.args, ind)
            for pname, d in rest[len(args):]:
                if d is None:
                    raise self.bad(f"missing argument {pname} of {f.attr}")
                args.append(d)
            for e in sg.externs:
                self.use_extern(e)
            t = self.fresh()
            return pre + [f"{P}let {t} ← {' '.join([sg.name] + list(sg.externs) + [lname(f.value.id)] + args)}"], t
        tm = getattr(self.u, "t07_methods", None) or {}
        if t07 and isinstance(f, ast.Attribute) and f.attr in tm and not n.keywords and self.dotted(f) is None:
            # `x.m(args)` for a method of a class translated by another unit: term = (class descriptor, Lean name, externs, number of
            # arguments, can raise AssertionError); an `x` that is not an instance of the class has no such method (AttributeError)
            cls_term, name, externs, nargs, _ = tm[f.attr]
            if len(n.args) != nargs:
                raise self.bad(f"{f.attr} is registered with {nargs} arguments")
            po, o = self.expr(f.value, ind)
            pre, args = self.exprs(n.args, ind)
            for e in externs:
                self.use_extern(e)
            t = self.fresh()
            return po + pre + [f"{P}if (!(PyU.isInstance {o} [(PyU.Ty.cls {cls_term})])) then", f"{P}  throw «TPyExc.attributeError»",
                               f"{P}let {t} ← {' '.join([name] + list(externs) + [o] + args)}"], t
        if t07 and getattr(self, "t07_discard", False) and isinstance(f, ast.Name) and f.id in EXC and self.is_builtin(f, f.id) and not n.keywords:
            pre, _ = self.exprs(n.args, ind)        # an exception object that is thrown away: its arguments are evaluated
            return pre, "V.none"
        if t07 and isinstance(f, ast.Attribute) and f.attr == "startswith" and len(n.args) == 1 and not n.keywords and self.dotted(f) is None:
            po, o = self.expr(f.value, ind)         # `x.startswith(prefix | tuple of prefixes)`
            pa, a = self.expr(n.args[0], ind)
            t = self.fresh()
            return po + pa + [f"{P}let {t} ← PyU.t07Startswith {o} {a}"], t
        for name, op in (("any", "PyU.t07Any"), ("all", "PyU.t07All")):
            if t07 and self.is_builtin(f, name) and len(n.args) == 1 and not n.keywords:
                pa, a = self.expr(n.args[0], ind)
                t = self.fresh()
                return pa + [f"{P}let {t} ← {op} {a}"], t
        if entry is not None and entry[0] == "t07kwfunc":
            # a function of another unit called with positional / keyword arguments: term = (Lean name, [parameters], {default terms})
            name, params, defaults = entry[1]
            if len(n.args) > len(params):
                raise self.bad(f"too many arguments for {ast.unparse(f)}")
            pre, args = self.exprs(n.args, ind)
            vals = dict(zip(params, args))
            for k in n.keywords:
                if k.arg not in params or k.arg in vals:
                    raise self.bad(f"{ast.unparse(f)}: unexpected / repeated argument {k.arg}")
                pk, tk = self.expr(k.value, ind)
                pre += pk
                vals[k.arg] = tk
            for p_ in params:
                if p_ not in vals:
                    if p_ not in defaults:
                        raise self.bad(f"{ast.unparse(f)}: missing argument {p_}")
                    vals[p_] = defaults[p_]
            t = self.fresh()
            return pre + [f"{P}let {t} ← {name} {' '.join(vals[p_] for p_ in params)}"], t
        if entry is not None and entry[0] == "t07ctor":
            cls_term, nargs, _ = entry[1]
            if n.keywords or len(n.args) != nargs:
                raise self.bad(f"{ast.unparse(f)} is registered with {nargs} positional arguments")
            pre, args = self.exprs(n.args, ind)
            return pre, f"(V.inst {cls_term} [{', '.join(args)}])"
        if entry is not None and entry[0] == "t07struct":
            if n.keywords or len(n.args) != 1:
                raise self.bad(f"{ast.unparse(n)[:50]}: a structure class called with other than one positional argument")
            pa, a = self.expr(n.args[0], ind)
            t = self.fresh()
            return pa + [f"{P}let {t} ← PyU.t07StructParse {entry[1]} {a}"], t
        if isinstance(f, ast.Attribute) and isinstance(f.value, ast.Name) and f.value.id in getattr(self, "t07_extvars", {}):
            v = f.value.id
            name, npos = self.t07_extvars[v][2][f.attr]
            if v not in self.declared:
                raise self.bad(f"variable {v} may be used before it is assigned on this path")
            pre, args = self.exprs(n.args, ind)
            self.use_extern(name)
            t = self.fresh()
            return pre + [f"{P}let {t} ← {name} {' '.join([lname(v)] + args)}"], t
        inout = getattr(self, "t07_inout_params", ())
        structs = getattr(self.u, "t07_structs", None)
        if (self.is_builtin(f, "len") and len(n.args) == 1 and not n.keywords and isinstance(n.args[0], ast.Name) and n.args[0].id in inout
                and structs is not None):
            t = self.fresh()
            return [f"{P}let {t} ← PyU.t07Len {structs} {lname(n.args[0].id)}"], t
        if (isinstance(f, ast.Attribute) and f.attr == "dumps" and isinstance(f.value, ast.Name) and f.value.id in inout and not n.args
                and not n.keywords and structs is not None):
            t = self.fresh()
            return [f"{P}let {t} ← PyU.t07Dumps {structs} {lname(f.value.id)}"], t
        return None

    # ==== T01 (beacon.py: find_beacon_config_bytes / iter_beacon_config_blocks / BeaconConfig.from_file; run-time:
    #      lean/CsVerif/Model/PyU_T01.lean; plug-in gen/py_extractu.py) — active for units with `unit.t01 = True` ======================
    def t01_on(self) -> bool:
        return bool(getattr(self.u, "t01", False))

    def t01_kind(self, f):
        """registry kind / term of a called name, by its spelling (usable before `self.local` exists; that the name denotes the
        registered object is checked by `global_entry` when the call is translated)"""
        try:
            d = ast.unparse(f)
        except Exception:  # noqa: BLE001
            return None
        ent = self.u.registry.get(d)
        return (ent[1], ent[2]) if ent is not None else None

    def t01_try_shape(self, st):
        """`try: H = XFF(F); <rest> except ValueError: <pass | H = F>` for a registered detector `XFF` (kind `t01xff`), a file parameter
        `F` and a plain variable `H`: (H, F, rest, handler aliases F) or None"""
        if not (self.t01_on() and isinstance(st, ast.Try) and st.body and not st.orelse and not st.finalbody and len(st.handlers) == 1):
            return None
        h, first = st.handlers[0], st.body[0]
        if not (h.name is None and isinstance(h.type, ast.Name) and h.type.id == "ValueError"
                and self.globs.get("ValueError", builtins.ValueError) is builtins.ValueError):
            return None
        if not (isinstance(first, ast.Assign) and len(first.targets) == 1 and isinstance(first.targets[0], ast.Name)
                and isinstance(first.value, ast.Call) and (self.t01_kind(first.value.func) or (None,))[0] == "t01xff"
                and not first.value.keywords and len(first.value.args) == 1 and isinstance(first.value.args[0], ast.Name)
                and first.value.args[0].id in self.files):
            return None
        H, F = first.targets[0].id, first.value.args[0].id
        if len(h.body) == 1 and isinstance(h.body[0], ast.Pass):
            alias = False
        elif (len(h.body) == 1 and isinstance(h.body[0], ast.Assign) and len(h.body[0].targets) == 1 and isinstance(h.body[0].targets[0], ast.Name)
              and h.body[0].targets[0].id == H and isinstance(h.body[0].value, ast.Name) and h.body[0].value.id == F):
            alias = True
        else:
            return None
        return H, F, st.body[1:], alias

    def t01_scan(self):
        """HANDLE variables.  A handle `H` of the file parameter `F` is a local variable every assignment of which is `H = XFF(F)` as
        the first statement of a `try` of the shape of `t01_try_shape` (the view the detector returns: an object that refers to the
        very file `F`), or `H = F` (the file itself).  In the translation `F` stays the one threaded file value and `H` holds the
        handle (`PyU.t01Detach`: the view without its file, or `PyU.t01Self`); every use of `H` attaches the current `F`, runs the
        operation and takes `F` and the handle out of the object the operation answers.  EXACT provided (assumed of the registered
        detector) the view it returns refers to the very file object `F` and holds no state outside its own attributes and that file.
        `H` may occur only as the receiver of `.read(n)` / `.seek(off)` / `.tell()` and as the first argument of a translated function
        whose first parameter is a file parameter or of an external function of kind `t01fileext`; `F` in the same places, and as
        the argument of the detector / the right-hand side of `H = F`.
        Result (cached): ({H: F}, {id(try statement)}, {id(Name node of a file parameter in one of the additional places)})"""
        if getattr(self, "_t01_scan", None) is not None:
            return self._t01_scan
        handles, tries, ok = {}, set(), set()
        if self.t01_on() and self.files:
            fd = self.fd
            parents = {id(c): n for n in ast.walk(fd) for c in ast.iter_child_nodes(n)}
            for st in ast.walk(fd):
                sh = self.t01_try_shape(st)
                if sh is not None:
                    H, F, _, _ = sh
                    if handles.setdefault(H, F) != F or H in self.params:
                        raise self.bad(f"handle variable {H}: two files / a parameter")
                    tries.add(id(st))
            for st in ast.walk(fd):
                if (isinstance(st, ast.Assign) and len(st.targets) == 1 and isinstance(st.targets[0], ast.Name) and isinstance(st.value, ast.Name)
                        and st.value.id in self.files and st.targets[0].id not in self.params):
                    H, F = st.targets[0].id, st.value.id
                    if handles.setdefault(H, F) != F:
                        raise self.bad(f"handle variable {H}: two files")
            for n in ast.walk(fd):
                if not (isinstance(n, ast.Name) and (n.id in handles or n.id in self.files)):
                    continue
                par = parents.get(id(n))
                gp = parents.get(id(par))
                good = False
                if isinstance(n.ctx, ast.Store):
                    if n.id in handles and isinstance(par, ast.Assign) and len(par.targets) == 1:
                        v = par.value
                        good = (isinstance(v, ast.Name) and v.id == handles[n.id]
                                or isinstance(gp, ast.Try) and id(gp) in tries and gp.body[0] is par)
                elif isinstance(par, ast.Attribute) and par.value is n and isinstance(gp, ast.Call) and gp.func is par:
                    good = par.attr in ("read", "seek", "tell") and not gp.keywords and len(gp.args) == (0 if par.attr == "tell" else 1)
                    if n.id in self.files and not good:
                        continue       # (judged by `analyse_files_and_yields`)
                elif isinstance(par, ast.Call) and par.args and par.args[0] is n:
                    k = self.t01_kind(par.func)
                    callee = self.u.sigs.get(par.func.id) if isinstance(par.func, ast.Name) else None
                    good = (k is not None and k[0] == "t01fileext"
                            or callee is not None and getattr(callee, "files", None) and callee.params and callee.files == [callee.params[0][0]]
                            or n.id in self.files and k is not None and k[0] == "t01xff" and isinstance(parents.get(id(gp)), ast.Try)
                            and id(parents.get(id(gp))) in tries)
                elif isinstance(par, ast.Assign) and par.value is n and n.id in self.files:
                    good = len(par.targets) == 1 and isinstance(par.targets[0], ast.Name) and handles.get(par.targets[0].id) == n.id
                if n.id in handles and not good:
                    raise self.bad(f"handle variable {n.id} is used other than as the receiver of .read(n) / .seek(off) / .tell() or as the "
                                   f"file argument of a translated / registered function")
                if n.id in self.files and good and isinstance(n.ctx, ast.Load):
                    ok.add(id(n))
            if handles and (self.is_gen or self.init is not None or self.fobj is not None or self.asserts):
                raise self.bad("handle variables in a generator / `__init__` / a method of a file-owning object / with `assert`")
            if self.in_comprehension(set(handles)):
                raise self.bad("a handle variable inside a comprehension")
        self._t01_scan = (handles, tries, ok)
        return self._t01_scan

    def t01_file_uses(self) -> set:
        return self.t01_scan()[2]

    def t01_stores(self, n) -> set:
        """the file parameter that an operation on a handle / a call that is handed a file-like object changes"""
        out = set()
        if not (self.t01_on() and self.files):
            return out
        handles, tries, _ = self.t01_scan()
        if isinstance(n, ast.Try) and id(n) in tries:
            out.add(n.body[0].value.args[0].id)
        if isinstance(n, ast.Call):
            x = None
            if isinstance(n.func, ast.Attribute) and isinstance(n.func.value, ast.Name) and n.func.attr in ("read", "seek", "tell"):
                x = n.func.value.id
            elif n.args and isinstance(n.args[0], ast.Name):
                k = self.t01_kind(n.func)
                callee = self.u.sigs.get(n.func.id) if isinstance(n.func, ast.Name) else None
                if k is not None and k[0] == "t01fileext" or callee is not None and getattr(callee, "files", None):
                    x = n.args[0].id
            if x is not None and (x in handles or x in self.files):
                out.add(handles.get(x, x))
                out.add(x)         # (the handle is taken again from the object the operation answers)
        return out

    def t01_attach(self, x, ind):
        """(prelude, term of the file-like object the variable `x` stands for, the file parameter, x is a handle)"""
        P = " " * ind
        handles = self.t01_scan()[0]
        F = handles.get(x, x)
        for v in {x, F}:
            if v not in self.declared or self.in_loop is not None and v not in self.in_loop and v in self.assigned:
                raise self.bad(f"variable {v} may be used before it is assigned on this path / is not part of the loop state")
        if x in handles:
            a = self.fresh()
            return [f"{P}let {a} ← PyU.t01Attach {lname(x)} {lname(F)}"], a, F, True
        return [], lname(F), F, False

    def t01_call(self, n: ast.Call, entry, ind):
        """calls of the T01 subset: (prelude, term) or None — `X.read(n)` / `X.seek(off)` / `X.tell()` for a file parameter or a
        handle `X` (dispatching on the class of the object: `PyU.t01Read / t01Seek / t01Tell`), and `g(X, …)` for a translated
        function `g` whose first parameter is a file parameter (keyword arguments by the parameter names, defaults filled in) or an
        external function of kind `t01fileext` (term = (Lean name, number of arguments)); both answer `(result, file-like afterwards)`"""
        if not (self.t01_on() and self.files):
            return None
        P = " " * ind
        f = n.func
        handles = self.t01_scan()[0]
        if (isinstance(f, ast.Attribute) and isinstance(f.value, ast.Name) and (f.value.id in handles or f.value.id in self.files)
                and f.attr in ("read", "seek", "tell")):
            if n.keywords or len(n.args) != (0 if f.attr == "tell" else 1):
                raise self.bad(f"{f.attr} with keyword arguments / {len(n.args)} arguments (T01: read(n), seek(off), tell())")
            pa, c, F, is_h = self.t01_attach(f.value.id, ind)
            pre, args = self.exprs(n.args, ind)
            r = self.fresh()
            if f.attr == "read":
                self.needs_fuel = True
            op = {"read": "PyU.t01Read fuel", "seek": "PyU.t01Seek", "tell": "PyU.t01Tell"}[f.attr]
            out = pa + pre + [f"{P}let {r} ← " + " ".join([op, c] + args)]
            if is_h:
                out.append(f"{P}{lname(f.value.id)} := PyU.t01Detach {r}.2")
            out.append(f"{P}{lname(F)} := " + (f"PyU.t01Store {r}.2" if is_h else f"{r}.2"))
            return out, f"{r}.1"
        if entry is not None and entry[0] == "t01ctor":
            # an EXTERNAL constructor `Cls(args)` (term = (Lean name, number of arguments)): a parameter of the definitions that
            # answers the new instance; the arguments must not be mutable objects of this function (checked by `analyse`)
            name, arity = entry[1]
            if n.keywords or len(n.args) != arity:
                raise self.bad(f"{ast.unparse(f)} is registered with {arity} positional arguments")
            pre, args = self.exprs(n.args, ind)
            self.use_extern(name)
            t = self.fresh()
            return pre + [f"{P}let {t} ← {name} {' '.join(args)}"], t
        if not (n.args and isinstance(n.args[0], ast.Name) and (n.args[0].id in handles or n.args[0].id in self.files)):
            return None
        callee = self.u.sigs.get(f.id) if isinstance(f, ast.Name) and f.id not in self.local else None
        if entry is not None and entry[0] == "t01fileext":
            name, arity = entry[1]
            if n.keywords or len(n.args) != arity:
                raise self.bad(f"{ast.unparse(f)} is registered with {arity} positional arguments")
            pa, c, F, is_h = self.t01_attach(n.args[0].id, ind)
            pre, args = self.exprs(n.args[1:], ind)
            self.use_extern(name)
            call = " ".join([name, c] + args)
        elif callee is not None and getattr(callee, "files", None):
            if callee.files != [callee.params[0][0]] or callee.asserts or getattr(callee, "stops", False):
                raise self.bad(f"{f.id}: only its first parameter may be a file parameter (and no assert / StopIteration)")
            pa, c, F, is_h = self.t01_attach(n.args[0].id, ind)
            rest = callee.params[1:]
            if len(n.args) - 1 > len(rest):
                raise self.bad(f"too many arguments for {f.id}")
            pre, args = self.exprs(n.args[1:], ind)
            vals = dict(zip([p for p, _ in rest], args))
            for k in n.keywords:
                if k.arg not in [p for p, _ in rest] or k.arg in vals:
                    raise self.bad(f"{f.id}: unexpected / repeated argument {k.arg}")
                pk, tk = self.expr(k.value, ind)
                pre += pk
                vals[k.arg] = tk
            for p_, d in rest:
                if p_ not in vals:
                    if d is None:
                        raise self.bad(f"missing argument {p_} of {f.id}")
                    vals[p_] = d
            if callee.fuel:
                self.needs_fuel = True
            for e in callee.externs:
                self.use_extern(e)
            call = " ".join([callee.name] + list(callee.externs) + (["fuel"] if callee.fuel else []) + [c] + [vals[p_] for p_, _ in rest])
        else:
            return None
        r, q = self.fresh(), self.fresh()
        out = pa + pre + [f"{P}let {r} ← {call}", f"{P}let {q} ← PyU.unpack2 {r}"]
        if is_h:
            out.append(f"{P}{lname(n.args[0].id)} := PyU.t01Detach {q}.2")
        out.append(f"{P}{lname(F)} := " + (f"PyU.t01Store {q}.2" if is_h else f"{q}.2"))
        return out, f"{q}.1"

    def t01_stmt(self, st, ind):
        """(lines, terminates) or None.
        * `H = F` for a handle `H` of the file parameter `F`: `H` is the handle "the file itself" (`PyU.t01Self`);
        * `try: H = XFF(F); <rest> except ValueError: <pass | H = F>` (see `t01_try_shape`).  The detector is an EXTERNAL function
          (registry kind `t01xff`, term = its Lean name) that answers the pair `(handle or None, F afterwards)`: `None` when the real
          function raises ValueError (the file is then as that run left it), else the handle of the view it returns; any other
          exception propagates.  The handler runs exactly when the detector raised ValueError — with the file as it is then.
          A ValueError raised by `<rest>` would reach the same handler with a state of the file that this translation does not
          keep: `<rest>` runs under a guard that turns it into `Timeout` — there the translated definition has NO answer (as when
          the fuel runs out), never a wrong one; the equivalence theorems are stated where `<rest>` raises no ValueError."""
        if not (self.t01_on() and self.files):
            return None
        P = " " * ind
        handles, tries, _ = self.t01_scan()
        if (isinstance(st, ast.Assign) and len(st.targets) == 1 and isinstance(st.targets[0], ast.Name) and st.targets[0].id in handles
                and isinstance(st.value, ast.Name) and st.value.id == handles[st.targets[0].id]):
            return [self.bind(st.targets[0].id, "PyU.t01Self", ind)], False
        if not (isinstance(st, ast.Try) and id(st) in tries):
            return None
        H, F, rest, alias = self.t01_try_shape(st)
        entry = self.global_entry(st.body[0].value.func)
        if entry is None or entry[0] != "t01xff":
            raise self.bad("the detector of a T01 `try` is not the registered object")
        if any(isinstance(m, ast.Name) and m.id == "exc0" for m in ast.walk(self.fd)):
            raise self.bad("variable name exc0 clashes with the translator's own names")
        if F not in self.declared or self.in_loop is not None and F not in self.in_loop:
            raise self.bad(f"{F} is not bound here / not part of the loop state")
        name = entry[1]
        self.use_extern(name)
        r, q = self.fresh(), self.fresh()
        out = []
        if H not in self.declared:
            out.append(self.bind(H, "V.none", ind))
        out += [f"{P}let {r} ← {name} {lname(F)}", f"{P}let {q} ← PyU.unpack2 {r}", f"{P}{lname(F)} := {q}.2",
                f"{P}if (PyU.isNone {q}.1) then"]
        out.append(f"{P}  {lname(H)} := PyU.t01Self" if alias else f"{P}  pure ()")
        out += [f"{P}else", f"{P}  {lname(H)} := {q}.1"]
        if rest:
            for b in rest:
                for m in ast.walk(b):
                    if isinstance(m, (ast.Return, ast.Raise, ast.Yield, ast.Try, ast.Assert, ast.Continue)):
                        raise self.bad(f"{type(m).__name__} inside the body of a T01 try statement")
                    if isinstance(m, ast.Break) and not any(isinstance(l, (ast.For, ast.While)) and any(m is x for x in ast.walk(l)) for l in rest):
                        raise self.bad("a `break` that leaves the body of a T01 try statement")
            saved = list(self.declared)
            body, _ = self.block(rest, ind + 4)
            new = [v for v in self.declared if v not in saved]
            if new:
                raise self.bad(f"the body of a T01 try statement binds {new} first (declare them before the statement)")
            out += [f"{P}  try"] + body + [f"{P}  catch exc0 =>", f"{P}    if exc0 = PyExc.valueError then",
                                          f"{P}      throw PyExc.timeoutDiverge", f"{P}    else", f"{P}      throw exc0"]
        return out, False

    # ==== T18 (pe.py, version.py, BeaconConfig.version; run-time: lean/CsVerif/Model/PyU_T18.lean) — active for units with `unit.t18 = True`
    # * cstruct types read from a FILE PARAMETER: `Type(fh)` (registry kind `t18type`, term : PyU.T18Ty) and `[Type(fh) for _ in range(e)]`;
    # * `try: <body> except EOFError: <handler>`: the only operations that raise EOFError are these reads, and a failed read moves the file;
    #   inside the body a read is `PyU.t18ReadE` (answers `none` + the file afterwards) followed by the handler, so everything the body did
    #   before — assignments and file position — persists as in Python; the handler may end in continue / return / raise, or go on (then
    #   the statements that follow the `try` in its block are translated behind the handler as well);
    # * `return e` inside a `for` / `while`: the hidden variable `ret0` (RET) carries the value out of the loops;
    # * calls of translated functions that take a file parameter (positional / keyword arguments), chained comparisons `a < b < c`,
    #   `range(n)` as the iterable of a `for`, `n.to_bytes(l, o)`, variables that every going-on path of an `if` assigns (declared before it).
    def t18_on(self) -> bool:
        return bool(getattr(self.u, "t18", False))

    def t18_kind(self, f):
        """registry kind of a called name, by its spelling (that the name denotes the registered object is checked by `global_entry` when
        the call is translated; local names that shadow a registered global are rejected by `analyse`)"""
        try:
            ent = self.u.registry.get(ast.unparse(f))
        except Exception:  # noqa: BLE001
            return None
        return ent[1] if ent is not None else None

    def t18_is_read(self, n) -> bool:
        """`Type(fh)` for a registered cstruct type and a file parameter"""
        return (self.t18_on() and isinstance(n, ast.Call) and not n.keywords and len(n.args) == 1 and isinstance(n.args[0], ast.Name)
                and n.args[0].id in self.files and self.t18_kind(n.func) == "t18type")

    def t18_readmany(self, n):
        """`[Type(fh) for _ in range(e)]` (the target is not used by the element): (the read call, e) or None"""
        if not (self.t18_on() and isinstance(n, ast.ListComp) and any(self.t18_is_read(m) for m in ast.walk(n))):
            return None
        g = n.generators[0]
        ok = (len(n.generators) == 1 and not g.is_async and not g.ifs and isinstance(g.target, ast.Name) and self.t18_is_read(n.elt)
              and isinstance(g.iter, ast.Call) and self.is_builtin_name(g.iter.func, "range") and len(g.iter.args) == 1 and not g.iter.keywords
              and g.target.id != n.elt.args[0].id and g.target.id not in self.files
              and not any(isinstance(m, ast.Name) and m.id in (g.target.id, n.elt.args[0].id) for m in ast.walk(g.iter)))
        if not ok:
            raise self.bad(f"{ast.unparse(n)[:60]}: a structure read inside a comprehension other than `[Type(fh) for _ in range(e)]`")
        return n.elt, g.iter.args[0]

    def t18_filecall(self, n):
        """a call of a translated function of this unit that takes a file parameter: (its Sig, {parameter: argument node} in source order)"""
        if not (self.t18_on() and isinstance(n, ast.Call) and isinstance(n.func, ast.Name) and n.func.id in self.u.sigs
                and n.func.id not in getattr(self, "local", ())):
            return None
        sg = self.u.sigs[n.func.id]
        if not getattr(sg, "files", None):
            return None
        names = [p for p, _ in sg.params]
        if len(n.args) > len(names) or len(sg.files) != 1:
            raise self.bad(f"{n.func.id}: too many arguments / more than one file parameter")
        bound = dict(zip(names, n.args))
        for k in n.keywords:
            if k.arg is None or k.arg not in names or k.arg in bound:
                raise self.bad(f"{n.func.id}: unknown / repeated keyword argument {k.arg}")
            bound[k.arg] = k.value
        a = bound.get(sg.files[0])
        if not (isinstance(a, ast.Name) and a.id in self.files):
            raise self.bad(f"{n.func.id}: the file parameter {sg.files[0]} must be given a file parameter of the caller")
        obj = getattr(sg, "t18_obj", None)
        if obj is not None and self.globs.get(n.func.id) is not obj:
            raise self.bad(f"the name {n.func.id} does not denote the translated function")
        return sg, bound

    def t18_file_uses(self) -> set:
        """more places where a file parameter may occur: the argument of `Type(fh)`, the file argument of a translated function, an
        argument of a call without effect (kind `noop`)"""
        ok = set()
        if not self.t18_on():
            return ok
        for n in ast.walk(self.fd):
            if self.t18_is_read(n):
                ok.add(id(n.args[0]))
                continue
            fc = self.t18_filecall(n)
            if fc is not None:
                ok.add(id(fc[1][fc[0].files[0]]))
            elif isinstance(n, ast.Call) and not n.keywords and self.t18_kind(n.func) == "noop":
                ok |= {id(a) for a in n.args if isinstance(a, ast.Name) and a.id in self.files}
        return ok

    def t18_ret_in_loop(self) -> bool:
        return self.t18_on() and any(isinstance(m, ast.Return) for n in ast.walk(self.fd) if isinstance(n, (ast.For, ast.While))
                                     for b in n.body + n.orelse for m in ast.walk(b))

    def t18_stores(self, n) -> set:
        out = set()
        if not self.t18_on():
            return out
        if self.t18_is_read(n):
            out.add(n.args[0].id)          # `Type(fh)` moves the file
        elif isinstance(n, ast.Return):
            if self.t18_ret_in_loop():
                out.add(RET)               # `return e` inside a loop assigns the hidden variable
        else:
            fc = self.t18_filecall(n)
            if fc is not None:
                out.add(fc[1][fc[0].files[0]].id)
        return out

    def t18_is_eof_try(self, st) -> bool:
        if not (self.t18_on() and isinstance(st, ast.Try) and len(st.handlers) == 1 and not st.orelse and not st.finalbody):
            return False
        h = st.handlers[0]
        return h.name is None and isinstance(h.type, ast.Name) and h.type.id == "EOFError" and self.is_builtin_name(h.type, "EOFError") \
            and "EOFError" not in getattr(self, "local", ())

    def t18_expr(self, n, ind):
        """expressions of the T18 subset: (prelude, term) or None"""
        if not self.t18_on():
            return None
        props = getattr(self.u, "t18_extern_props", {})
        if (isinstance(n, ast.Attribute) and isinstance(n.ctx, ast.Load) and n.attr in props and isinstance(n.value, ast.Name) and self.params
                and n.value.id == self.params[0] and n.value.id not in self.assigned and n.value.id not in self.mutable):
            # `self.<property>` for a property whose getter is an EXTERNAL function of `self` (`unit.t18_extern_props = {name: extern}`)
            self.use_extern(props[n.attr])
            t = self.fresh()
            return [f"{' ' * ind}let {t} ← {props[n.attr]} {lname(n.value.id)}"], t
        rm = self.t18_readmany(n) if isinstance(n, ast.ListComp) else None
        if rm is None:
            return None
        P = " " * ind
        read, count = rm
        pc, c = self.expr(count, ind)          # `range(e)` is evaluated before the first read
        fv = read.args[0].id
        ty = self.global_entry(read.func)[1]
        if fv not in self.declared:
            raise self.bad(f"{fv} is not bound here")
        a = self.fresh()
        if getattr(self, "t18_eof_ctx", None) is None:
            return pc + [f"{P}let {a} ← PyU.t18ReadMany {ty} {lname(fv)} {c}", f"{P}{lname(fv)} := {a}.2"], f"{a}.1"
        lines, b = self.t18_guard(f"PyU.t18ReadManyE {ty} {lname(fv)} {c}", fv, a, ind)
        return pc + lines, b

    def t18_guard(self, rhs, fv, a, ind):
        """a read inside `try: … except EOFError:` — the file is rebound first (the failed read has moved it), then the handler runs when
        the read answered `none`; ([lines], term)"""
        P = " " * ind
        ctx = self.t18_eof_ctx
        if ctx["in_loop"] is not self.in_loop:
            raise self.bad("a structure read inside a loop inside `try: … except EOFError:` (the handler belongs to the enclosing block)")
        b = self.fresh()
        ctx["guards"] += 1
        return [f"{P}let {a} ← {rhs}", f"{P}{lname(fv)} := {a}.2", f"{P}let some {b} := {a}.1", f"{P}  | do", f"{P}      «H»"], b

    def t18_call(self, n: ast.Call, entry, ind):
        """calls of the T18 subset: (prelude, term) or None"""
        if not self.t18_on():
            return None
        P = " " * ind
        f = n.func
        if entry is not None and entry[0] == "t18type":
            if not self.t18_is_read(n):
                raise self.bad(f"{ast.unparse(n)[:50]}: a cstruct type is called with something other than one file parameter")
            fv = n.args[0].id
            if fv not in self.declared:
                raise self.bad(f"{fv} is not bound here")
            a = self.fresh()
            if getattr(self, "t18_eof_ctx", None) is None:
                return [f"{P}let {a} ← PyU.t18Read {entry[1]} {lname(fv)}", f"{P}{lname(fv)} := {a}.2"], f"{a}.1"
            return self.t18_guard(f"PyU.t18ReadE {entry[1]} {lname(fv)}", fv, a, ind)
        if entry is not None and entry[0] == "t18cm":
            # `Cls.method(args)` for a classmethod translated in this unit (term = (key in unit.sigs, Lean term passed for `cls`))
            key, cls_term = entry[1]
            sg = self.u.sigs.get(key)
            if sg is None or n.keywords or sg.fuel or sg.asserts or getattr(sg, "files", None) or len(n.args) != len(sg.params) - 1:
                raise self.bad(f"{ast.unparse(f)}: not a translated classmethod called with all its positional arguments")
            pre, args = self.exprs(n.args, ind)
            for e in sg.externs:
                self.use_extern(e)
            t = self.fresh()
            return pre + [f"{P}let {t} ← {sg.name} {' '.join(list(sg.externs) + [cls_term] + args)}"], t
        fc = self.t18_filecall(n)
        if fc is not None:
            sg, bound = fc
            if getattr(self, "t18_eof_ctx", None) is not None:
                raise self.bad(f"call of {f.id} inside `try: … except EOFError:` (it may raise EOFError after moving the file)")
            if sg.asserts or getattr(sg, "stops", False) or getattr(sg, "fobj", None) is not None:
                raise self.bad(f"{f.id}: assert / StopIteration / a file-owning object in a function that is handed a file parameter")
            pre, vals = [], {}
            for pname, node in bound.items():          # source order: positional arguments, then the keywords as written
                p, t = self.expr(node, ind)
                pre += p
                vals[pname] = t
            args = []
            for pname, d in sg.params:
                if pname not in vals and d is None:
                    raise self.bad(f"missing argument {pname} of {f.id}")
                args.append(vals.get(pname, d))
            if sg.fuel:
                self.needs_fuel = True
                args.insert(0, "fuel")
            for e in sg.externs:
                self.use_extern(e)
            fv = bound[sg.files[0]].id
            if fv not in self.declared:
                raise self.bad(f"{fv} is not bound here")
            r, q = self.fresh(), self.fresh()
            return pre + [f"{P}let {r} ← {sg.name} {' '.join(list(sg.externs) + args)}", f"{P}let {q} ← PyU.unpack2 {r}",
                          f"{P}{lname(fv)} := {q}.2"], f"{q}.1"
        if n.keywords:
            return None
        if self.is_builtin(f, "range") and len(n.args) == 1:
            pa, a = self.expr(n.args[0], ind)      # only as the iterable of a `for` (checked by `t18_stmt_checks`)
            t = self.fresh()
            return pa + [f"{P}let {t} ← PyU.rangeV {a}"], t
        if isinstance(f, ast.Attribute) and f.attr == "to_bytes" and len(n.args) == 2 and self.dotted(f) is None:
            po, o = self.expr(f.value, ind)
            pre, args = self.exprs(n.args, ind)
            t = self.fresh()
            return po + pre + [f"{P}let {t} ← PyU.t18ToBytes {o} {args[0]} {args[1]}"], t
        return None

    def t18_chain(self, n: ast.Compare, ind):
        """`a <op1> b <op2> c` for two ordering operators: `b` is evaluated once; `c` only when the first comparison holds"""
        P = " " * ind
        if len(n.ops) != 2 or any(type(o) not in ORDER for o in n.ops):
            raise self.bad("chained comparison (other than two ordering operators)")
        pa, a = self.expr(n.left, ind)
        pb, b = self.expr(n.comparators[0], ind)
        t1, r = self.fresh(), self.fresh()
        pc, c = self.expr(n.comparators[1], ind + 2)
        t2 = self.fresh()
        return (pa + pb + [f"{P}let {t1} ← PyU.{ORDER[type(n.ops[0])]} {a} {b}", f"{P}let mut {r} := {t1}", f"{P}if {r} then"] + pc
                + [f"{P}  let {t2} ← PyU.{ORDER[type(n.ops[1])]} {b} {c}", f"{P}  {r} := {t2}"]), r

    def t18_checks(self):
        """`range(n)` only as the iterable of a `for` / of the comprehension `[Type(fh) for _ in range(n)]`"""
        if not self.t18_on():
            return
        parents = {id(c): m for m in ast.walk(self.fd) for c in ast.iter_child_nodes(m)}
        for n in ast.walk(self.fd):
            if isinstance(n, ast.Call) and self.is_builtin_name(n.func, "range"):
                par = parents.get(id(n))
                if not (isinstance(par, ast.For) and par.iter is n or isinstance(par, ast.comprehension) and par.iter is n) or n.keywords:
                    raise self.bad("range(…) other than as the iterable of a `for`")
        if self.t18_ret_in_loop() and (self.is_gen or self.init is not None or any(isinstance(n, ast.Name) and n.id == "ret0" for n in ast.walk(self.fd))):
            raise self.bad("`return` inside a loop in a generator / `__init__` / next to a variable called ret0")

    def t18_stmt(self, st, ind, stmts):
        """statements of the T18 subset: (lines, terminates) or None"""
        if not self.t18_on():
            return None
        P = " " * ind
        busy = self.__dict__.setdefault("t18_busy", set())
        if isinstance(st, ast.Return) and self.in_loop is not None:
            if st.value is None or RET not in self.in_loop:
                raise self.bad("bare return inside a loop / the loop state does not carry ret0")
            p, t = self.expr(st.value, ind)
            return p + [f"{P}ret0 := PyU.t18Ret {t}", self.exit_loop("brk", ind)], True
        if isinstance(st, (ast.For, ast.While)) and id(st) not in busy and any(isinstance(m, ast.Return) for b in st.body + st.orelse for m in ast.walk(b)):
            if st.orelse:
                raise self.bad("loop … else with a `return` inside")
            busy.add(id(st))
            lines, term = self.block([st], ind)
            busy.discard(id(st))
            if lines and lines[-1].strip() == "pure ()":
                lines.pop()
            if self.in_loop is None:
                leave = f"{P}  return {self.result_term('(PyU.t18RetVal ret0)')}"
            else:
                leave = self.exit_loop("brk", ind + 2)
            return lines + [f"{P}if PyU.t18Returned ret0 then", leave], False
        if isinstance(st, ast.If) and id(st) not in busy:
            later = stmts[stmts.index(st) + 1:]
            read_later = {m.id for s in later for m in ast.walk(s) if isinstance(m, ast.Name) and isinstance(m.ctx, ast.Load)}
            new = [v for v in self.t15_def_assigned([st])[0] if v not in self.declared and v in read_later and v not in self.mutable]
            if not new:
                return None
            lines = [self.bind(v, "V.none", ind) for v in new]     # declared before the `if` (Lean scoping); the value `None` is never read
            busy.add(id(st))
            body, term = self.block([st], ind)
            busy.discard(id(st))
            return lines + body, term
        if isinstance(st, ast.Try) and self.t18_is_eof_try(st):
            return self.t18_try(st, ind, stmts)
        return None

    def t18_try(self, st: ast.Try, ind, stmts):
        """`try: <body> except EOFError: <handler>` (see the head of this section).  Checked: the body contains no `raise`, no nested `try`,
        no `yield` / `assert`, no call of a translated function (only `Type(fh)` reads can raise EOFError there, each one guarded on
        its own); no read inside a loop of the body; the handler (with the continuation, when it goes on) contains no loop / `try` and
        ends in return / raise / break / continue on every path; it is translated ONCE, with the variables that are bound when the
        `try` starts (a variable first assigned in the body is not visible to it)."""
        P = " " * ind
        h = st.handlers[0]
        if getattr(self, "t18_eof_ctx", None) is not None or self.asserts or self.stops or self.is_gen:
            raise self.bad("nested `try: … except EOFError:` / in a function with assert / StopIteration / yield")
        for b in st.body:
            for n in ast.walk(b):
                if isinstance(n, (ast.Raise, ast.Try, ast.Yield, ast.Assert)):
                    raise self.bad(f"{type(n).__name__} inside the body of `try: … except EOFError:`")
                if isinstance(n, ast.Call) and isinstance(n.func, ast.Name) and n.func.id in self.u.sigs and n.func.id not in self.local:
                    raise self.bad(f"call of {n.func.id} inside the body of `try: … except EOFError:`")
                if isinstance(n, ast.Call) and self.t18_kind(n.func) not in (None, "t18type", "noop", "const"):
                    # a registered function / class of another kind may raise EOFError itself (e.g. `Enum(bytes)`, T02's `Struct(fobj)`)
                    raise self.bad(f"call of {ast.unparse(n.func)[:40]} (registry kind {self.t18_kind(n.func)}) inside the body of `try: … except EOFError:`")
        later = stmts[stmts.index(st) + 1:]
        saved = list(self.declared)
        hl, hterm = self.block(h.body, 0)
        if not hterm:
            # the handler goes on: what follows the `try` in its block runs behind it
            self.declared = list(saved)
            cont = list(h.body) + later
            if any(isinstance(n, (ast.For, ast.While, ast.Try, ast.ListComp, ast.DictComp)) for s in cont for n in ast.walk(s)):
                raise self.bad("an EOFError handler that goes on, followed by a loop / try / comprehension")
            hl, hterm = self.block(cont, 0)
            if not hterm:
                raise self.bad("an EOFError handler that goes on, in a block that does not end in return / raise / break / continue")
        elif any(isinstance(n, (ast.For, ast.While, ast.Try, ast.ListComp, ast.DictComp)) for s in h.body for n in ast.walk(s)):
            raise self.bad("loop / try / comprehension inside an EOFError handler")
        self.declared = list(saved)
        self.t18_eof_ctx = {"in_loop": self.in_loop, "guards": 0}
        try:
            body, bterm = self.block(st.body, ind)
        finally:
            self.t18_eof_ctx = None
        out = []
        for i, line in enumerate(body):
            if line.strip() != "«H»":
                out.append(line)
                continue
            sp = line[:len(line) - len(line.lstrip())]
            out += [sp + x for x in hl]
            nxt = body[i + 1] if i + 1 < len(body) else None
            gi = len(sp) - 6           # the indentation of the guarded statement
            if nxt is None or len(nxt) - len(nxt.lstrip()) < gi:
                out.append(" " * gi + "pure ()")      # a Lean `do` block cannot end with a binding
        return out, bterm

    # ==== T13 (c2profile.py `C2Profile.from_beacon_config`; run-time: lean/CsVerif/Model/PyU_T13.lean) — active for units with `unit.t13 = True`
    def t13_on(self) -> bool:
        return bool(getattr(self.u, "t13", False))

    def t13_genexp_ok(self, g) -> bool:
        """a generator expression is accepted as the sole argument of `<expr>.join(<generator expression>)`: `str.join` / `bytes.join`
        build the complete sequence of the items first (`PySequence_Fast`) and look at them afterwards, exactly as for the list
        comprehension with the same clauses, which is what is translated (`listcomp`)"""
        if not self.t13_on():
            return False
        return any(isinstance(c, ast.Call) and c.args == [g] and not c.keywords and isinstance(c.func, ast.Attribute) and c.func.attr == "join"
                   for c in ast.walk(self.fd))

    def t13_is_ddctor(self, v) -> bool:
        return isinstance(v, ast.Call) and self.global_kind(v.func) == "t13ddlist"

    def t13_ddvars(self) -> set:
        """DEFAULTDICT variables: local variables assigned by `v = collections.defaultdict(list)` (registry kind `t13ddlist`); that
        every assignment has this form and every use is one the translator models is checked by `t13_analyse`"""
        if not self.t13_on():
            return set()
        if getattr(self, "_t13_dd", None) is None:
            self._t13_dd = {n.targets[0].id for n in ast.walk(self.fd)
                            if isinstance(n, ast.Assign) and len(n.targets) == 1 and isinstance(n.targets[0], ast.Name) and self.t13_is_ddctor(n.value)}
        return self._t13_dd

    def t13_dd_append(self, n):
        """`v[k].append(e)` (the Call node) for a defaultdict variable `v`: (v, key expression, argument expression), else None"""
        if not self.t13_on():
            return None
        if (isinstance(n, ast.Call) and isinstance(n.func, ast.Attribute) and n.func.attr == "append" and isinstance(n.func.value, ast.Subscript)
                and isinstance(n.func.value.ctx, ast.Load) and not isinstance(n.func.value.slice, ast.Slice)
                and isinstance(n.func.value.value, ast.Name) and n.func.value.value.id in self.t13_ddvars()):
            if len(n.args) != 1 or n.keywords:
                raise self.bad("append with other than one argument")
            return n.func.value.value.id, n.func.value.slice, n.args[0]
        return None

    def t13_stores(self, n) -> set:
        """`v[k].append(e)` changes the variable `v` (by its spelling only: usable before the analysis has run)"""
        if (self.t13_on() and isinstance(n, ast.Call) and isinstance(n.func, ast.Attribute) and n.func.attr == "append"
                and isinstance(n.func.value, ast.Subscript) and not isinstance(n.func.value.slice, ast.Slice) and isinstance(n.func.value.value, ast.Name)):
            return {n.func.value.value.id}
        return set()

    def t13_analyse(self):
        """A DEFAULTDICT variable `v` holds a `collections.defaultdict(list)` that this function created; the dict and the lists in it
        are threaded as ONE value (`V.dict keys [V.list …]`).  That is exact when no second reference to the dict or to one of its lists
        can be used to change or observe it: `v` occurs only as the target of `v = collections.defaultdict(list)`, in the whole
        statement `v[k].append(e)`, and as `v.items()` being the iterable of a `for` statement whose target and body do not mention
        `v` (the lists handed to the loop body are the ones in the dict: every `v[k].append(e)` of the function stands textually before
        that `for`, and the `for` is not inside a loop that contains one); no `try` (an exception between the lookup `v[k]`, which may
        insert a key, and the `append` always leaves the function)."""
        dd = self.t13_ddvars()
        if not dd:
            return
        fd = self.fd
        if any(isinstance(n, ast.Try) for n in ast.walk(fd)) or self.is_gen or self.init is not None or self.method_of is not None or self.fobj is not None:
            raise self.bad("a defaultdict variable in a function with try / yield, in `__init__`, in a method")
        if self.in_comprehension(dd):
            raise self.bad("a defaultdict variable inside a comprehension")
        parents = {id(c): n for n in ast.walk(fd) for c in ast.iter_child_nodes(n)}
        appends = [n for n in ast.walk(fd) if self.t13_dd_append(n) is not None]
        for n in ast.walk(fd):
            if self.t13_is_ddctor(n):
                par = parents.get(id(n))
                if not (isinstance(par, ast.Assign) and par.value is n and len(par.targets) == 1 and isinstance(par.targets[0], ast.Name)):
                    raise self.bad(f"{ast.unparse(n)[:40]} must be the whole right-hand side of `v = …`")
                if n.keywords or len(n.args) != 1 or not self.is_builtin(n.args[0], "list"):
                    raise self.bad(f"{ast.unparse(n)[:40]}: only `collections.defaultdict(list)`")
            if not (isinstance(n, ast.Name) and n.id in dd):
                continue
            v = n.id
            if v in self.params or v in self.mutable:
                raise self.bad(f"defaultdict variable {v} is a parameter / the receiver of a mutating method")
            par = parents.get(id(n))
            gp = parents.get(id(par))
            ggp = parents.get(id(gp))
            if isinstance(n.ctx, ast.Store):
                ok = isinstance(par, ast.Assign) and len(par.targets) == 1 and par.targets[0] is n and self.t13_is_ddctor(par.value)
            else:
                ok = (isinstance(par, ast.Subscript) and par.value is n and isinstance(gp, ast.Attribute) and gp.value is par
                      and isinstance(ggp, ast.Call) and ggp.func is gp and self.t13_dd_append(ggp) is not None
                      and isinstance(parents.get(id(ggp)), ast.Expr))
                if (not ok and isinstance(par, ast.Attribute) and par.value is n and par.attr == "items" and isinstance(gp, ast.Call) and gp.func is par
                        and not gp.args and not gp.keywords and isinstance(ggp, ast.For) and ggp.iter is gp):
                    inside = [ggp.target] + ggp.body + ggp.orelse
                    ok = not any(isinstance(m, ast.Name) and m.id == v for s in inside for m in ast.walk(s))
                    for a in appends:
                        if self.t13_dd_append(a)[0] != v:
                            continue
                        if (a.lineno, a.col_offset) >= (ggp.lineno, ggp.col_offset):
                            ok = False
                        q = parents.get(id(ggp))
                        while q is not None:
                            if isinstance(q, (ast.For, ast.While)) and any(m is a for m in ast.walk(q)):
                                ok = False
                            q = parents.get(id(q))
            if not ok:
                raise self.bad(f"defaultdict variable {v} is used other than by `{v} = collections.defaultdict(list)`, `{v}[k].append(e)`, "
                               f"`for … in {v}.items():` (after the last append)")

    def t13_allowed(self) -> set:
        """positions where a mutable variable (a list this function builds) may occur without creating a second reference that this
        function could observe: an argument of an EXTERNAL function (assumed of every registered external function of a `t13` unit: it
        neither keeps nor changes its arguments), and a truth test (`if v:`, `not v`, an operand of `and` / `or` in the test of an `if`)"""
        ok = set()
        if not self.t13_on():
            return ok
        for n in ast.walk(self.fd):
            if isinstance(n, ast.Call) and self.global_kind(n.func) == "extern":
                ok |= {id(a) for a in list(n.args) + [k.value for k in n.keywords] if isinstance(a, ast.Name)}
            if isinstance(n, (ast.If, ast.While, ast.IfExp)):
                tests = [n.test] + (list(n.test.values) if isinstance(n.test, ast.BoolOp) else [])
                ok |= {id(t) for t in tests if isinstance(t, ast.Name)}
            if isinstance(n, ast.UnaryOp) and isinstance(n.op, ast.Not) and isinstance(n.operand, ast.Name):
                ok.add(id(n.operand))
        return ok

    def t13_call(self, n: ast.Call, entry, ind):
        """calls of the T13 subset: (prelude, term) or None"""
        if not self.t13_on():
            return None
        P = " " * ind
        f = n.func
        if entry is not None and entry[0] == "t13ddlist":
            return [], "(V.dict [] [])"        # `collections.defaultdict(list)` (position and argument checked by `t13_analyse`)
        if isinstance(f, ast.Attribute) and f.attr == "items" and not n.args and not n.keywords and self.dotted(f) is None:
            po, o = self.expr(f.value, ind)
            t = self.fresh()
            return po + [f"{P}let {t} ← PyU.t13Items {o}"], t
        return None

    def t13_stmt(self, st, ind):
        """`v[k].append(e)` for a defaultdict variable `v`, in CPython's evaluation order: the key, the lookup `v[k]` (a missing key is
        inserted with an empty list; an unhashable key is a TypeError), the argument, the append — lines, or None"""
        what = self.t13_dd_append(st.value) if isinstance(st, ast.Expr) else None
        if what is None:
            return None
        P = " " * ind
        v, key, arg = what
        if v not in self.declared:
            raise self.bad(f"variable {v} may be used before it is assigned on this path")
        pk, k = self.expr(key, ind)
        d1, d2 = self.fresh(), self.fresh()
        pa, a = self.expr(arg, ind)
        return (pk + [f"{P}let {d1} ← PyU.t13DdItem {lname(v)} {k}"] + pa
                + [f"{P}let {d2} ← PyU.t13DdAppend {d1} {k} {a}", f"{P}{lname(v)} := {d2}"])

    # ==== T11 (c2profile.py: C2Profile.as_dict, ConfigBlock and the block builders; run-time: lean/CsVerif/Model/PyU_T11.lean) — active
    # for units with `unit.t11 = <Lean term of the class descriptor of lark.Token>` ===================================================
    def t11_tok(self):
        return getattr(self.u, "t11", None)

    def t11_self(self):
        """T11 SELF-MODE: `unit.t11_self = (name, [attributes], {method: key in unit.sigs})` and the first parameter of this function
        has that name: the parameter is an instance (`V.inst cls [attributes]`) that OWNS the objects its attributes hold (assumed of
        the callers: nothing else refers to them while the function runs).  The instance is threaded as a value and the translated
        definition ALWAYS answers the tuple `(result, self afterwards)`; a function body that ends without `return` answers `None`.
        `self` may occur only as (checked by `t11_mutables`)
          * `self.a` read as a value (any listed attribute, a leading underscore is fine: the descriptor lists the fields),
          * `self.a = e` / `self.a op= e` as a statement,
          * `self.a.append(e)` / `self.a.b.append(e)` as a statement (the list is a part of the instance / of the object `self.a`),
          * `self.m(args)` for a listed method that was translated before in the same mode (statement or expression).
        Reads hand out copies: exact as long as nothing is changed through what was read (a change needs one of the forms above)."""
        cfg = getattr(self.u, "t11_self", None)
        if not self.t11_tok() or cfg is None or not self.params or self.params[0] != cfg[0] or self.init is not None:
            return None
        return cfg

    def t11_ddvars(self) -> set:
        """the DEFAULTDICT variables: local variables (not parameters) every assignment of which is `d = collections.defaultdict(list)`
        (registry kind `t11ddlist`; found by spelling, the object is checked when the call is translated)"""
        if not self.t11_tok():
            return set()
        if getattr(self, "_t11_dd", None) is None:
            cand, targets = set(), set()
            for n in ast.walk(self.fd):
                if isinstance(n, ast.Assign) and len(n.targets) == 1 and isinstance(n.targets[0], ast.Name) and isinstance(n.value, ast.Call) \
                        and (self.t17_reg_kind(n.value.func) or (None,))[0] == "t11ddlist":
                    cand.add(n.targets[0].id)
                    targets.add(id(n.targets[0]))
            for n in ast.walk(self.fd):
                if isinstance(n, ast.Name) and n.id in cand and not isinstance(n.ctx, ast.Load) and id(n) not in targets:
                    cand.discard(n.id)
            self._t11_dd = cand - set(self.params)
        return self._t11_dd

    def t11_special_store(self, n):
        """the Call node of `d[k].append(e)` for a defaultdict variable `d`: ("dd", d, key expression, e); of `self.a.append(e)` /
        `self.a.b.append(e)` in self-mode: ("selfapp", [a] or [a, b], e); else None"""
        if not self.t11_tok() or not (isinstance(n, ast.Call) and isinstance(n.func, ast.Attribute) and n.func.attr == "append"):
            return None
        recv = n.func.value
        arg = n.args[0] if len(n.args) == 1 and not n.keywords else None
        if (isinstance(recv, ast.Subscript) and isinstance(recv.ctx, ast.Load) and not isinstance(recv.slice, ast.Slice)
                and isinstance(recv.value, ast.Name) and recv.value.id in self.t11_ddvars()):
            return ("dd", recv.value.id, recv.slice, arg)
        cfg = self.t11_self()
        if cfg is not None:
            chain, e = [], recv
            while isinstance(e, ast.Attribute):
                chain.append(e.attr)
                e = e.value
            if isinstance(e, ast.Name) and e.id == cfg[0] and 1 <= len(chain) <= 2 and chain[-1] in cfg[1]:
                return ("selfapp", chain[::-1], arg)
        return None

    def t11_self_store(self, n):
        """self-mode: a node that changes `self`: an attribute store `self.a`, one of the append forms, a call `self.m(…)`"""
        cfg = self.t11_self()
        if cfg is None:
            return False
        me = cfg[0]
        if isinstance(n, ast.Attribute) and not isinstance(n.ctx, ast.Load) and isinstance(n.value, ast.Name) and n.value.id == me:
            return True
        if isinstance(n, ast.Call) and isinstance(n.func, ast.Attribute) and isinstance(n.func.value, ast.Name) and n.func.value.id == me \
                and n.func.attr in cfg[2]:
            return True
        what = self.t11_special_store(n)
        return what is not None and what[0] == "selfapp"

    def t11_stores(self, n) -> set:
        out = set()
        if not self.t11_tok():
            return out
        what = self.t11_special_store(n)
        if what is not None and what[0] == "dd":
            out.add(what[1])
        if self.t11_self_store(n):
            out.add(self.params[0])
        return out

    def t11_genexp_ok(self, g) -> bool:
        """a generator expression is accepted as the sole argument of `tuple(…)` (it is consumed completely, at once)"""
        if not self.t11_tok():
            return False
        return any(isinstance(c, ast.Call) and c.args == [g] and not c.keywords and isinstance(c.func, ast.Name) and c.func.id == "tuple"
                   for c in ast.walk(self.fd))

    def t11_mutables(self) -> set:
        """the defaultdict variables are mutable variables (always bound to a fresh object); they may occur only in `d[k].append(e)`,
        as the argument of `dict(d)`, and in `return d`.  Self-mode: the occurrences of `self` are checked (see `t11_self`)."""
        if not self.t11_tok():
            return set()
        fd = self.fd
        parents = {id(c): n for n in ast.walk(fd) for c in ast.iter_child_nodes(n)}
        self.t11_ok_names = set()
        dd = self.t11_ddvars()
        for n in ast.walk(fd):
            if not (isinstance(n, ast.Name) and n.id in dd):
                continue
            par, gp = parents.get(id(n)), None
            gp = parents.get(id(par))
            ggp = parents.get(id(gp))
            if isinstance(n.ctx, ast.Store):
                ok = True          # (by `t11_ddvars`: the target of `d = collections.defaultdict(list)`)
            else:
                ok = (isinstance(par, ast.Subscript) and par.value is n and isinstance(ggp, ast.Call) and (self.t11_special_store(ggp) or (None,))[0] == "dd"
                      and isinstance(parents.get(id(ggp)), ast.Expr)
                      or isinstance(par, ast.Call) and par.args == [n] and not par.keywords and self.is_builtin(par.func, "dict")
                      or isinstance(par, ast.Return))
            if not ok:
                raise self.bad(f"defaultdict variable {n.id} is used other than in `{n.id}[k].append(e)`, `dict({n.id})`, `return {n.id}`")
            self.t11_ok_names.add(id(n))
        if dd and self.in_comprehension(dd):
            raise self.bad("a defaultdict variable inside a comprehension")
        cfg = self.t11_self()
        if cfg is not None:
            me, attrs, meths = cfg
            if self.is_gen or self.files or self.fobj is not None or self.method_of is not None or self.asserts:
                raise self.bad("self-mode in a generator / with file parameters / method_of / assert")
            for n in ast.walk(fd):
                if not (isinstance(n, ast.Name) and n.id == me):
                    continue
                par = parents.get(id(n))
                gp = parents.get(id(par))
                ok = False
                if isinstance(n.ctx, ast.Load) and isinstance(par, ast.Attribute) and par.value is n:
                    if isinstance(gp, ast.Call) and gp.func is par:
                        ok = par.attr in meths and meths[par.attr] in self.u.sigs and not gp.keywords
                    elif not isinstance(par.ctx, ast.Load):
                        tgt = gp.targets if isinstance(gp, ast.Assign) else ([gp.target] if isinstance(gp, (ast.AnnAssign, ast.AugAssign)) else [])
                        ok = par.attr in attrs and len(tgt) == 1 and tgt[0] is par
                    else:
                        ok = par.attr in attrs
                        # `self.a.append(…)` / `self.a.b.append(…)` only as whole statements; no other method call on a part of `self`
                        top, up = par, gp
                        while isinstance(up, ast.Attribute) and up.value is top:
                            top, up = up, parents.get(id(up))
                        if isinstance(up, ast.Call) and up.func is top and top is not par:
                            ok = ok and self.t11_special_store(up) is not None and isinstance(parents.get(id(up)), ast.Expr)
                if not ok:
                    raise self.bad(f"`{me}` is used other than as {me}.<attribute>, `{me}.a = e`, `{me}.a[.b].append(e)`, {me}.<translated method>(…)")
                self.t11_ok_names.add(id(n))
            if self.in_comprehension({me}):
                raise self.bad(f"`{me}` inside a comprehension")
            if any(self.t11_self_store(n) for n in ast.walk(fd)):
                self.assigned.add(me)
        return set(dd)

    def t11_allowed(self) -> set:
        """positions where a mutable variable may occur without creating a second reference to the object: the argument of
        `xs.extend(v)` / `repr(v)` / `tuple(v)` / `dict(v)` / `str(v)` / `sep.join(v)` (the items are copied / only read), the object
        of a slice read `v[a:b]` (a copy), an operand of `+` (a new list), the iterable of a comprehension / generator expression (a
        snapshot; the comprehension cannot change a variable); the checked occurrences of defaultdict variables and of `self`"""
        ok = set()
        if not self.t11_tok():
            return ok
        ok |= getattr(self, "t11_ok_names", set())
        for n in ast.walk(self.fd):
            if isinstance(n, ast.Call) and not n.keywords and len(n.args) == 1 and isinstance(n.args[0], ast.Name):
                f = n.func
                if isinstance(f, ast.Attribute) and f.attr in ("extend", "join"):
                    ok.add(id(n.args[0]))
                if isinstance(f, ast.Name) and f.id in ("repr", "tuple", "dict", "str") and self.is_builtin(f, f.id):
                    ok.add(id(n.args[0]))
            if isinstance(n, ast.Subscript) and isinstance(n.ctx, ast.Load) and isinstance(n.slice, ast.Slice) and isinstance(n.value, ast.Name):
                ok.add(id(n.value))
            if isinstance(n, ast.BinOp) and isinstance(n.op, ast.Add):
                ok |= {id(x) for x in (n.left, n.right) if isinstance(x, ast.Name)}
            if isinstance(n, ast.comprehension) and isinstance(n.iter, ast.Name):
                ok.add(id(n.iter))
        # the function ends with its last top-level statement: a reference that statement stores somewhere cannot be observed by
        # this function any more (as for `return`)
        last = self.fd.body[-1] if self.fd.body else None
        if last is not None and not isinstance(last, (ast.For, ast.While, ast.If, ast.Try, ast.With)):
            ok |= {id(m) for m in ast.walk(last) if isinstance(m, ast.Name)}
        return ok

    def t11_compare(self, op, pre, a, b, ind):
        """`a == b` / `a != b` / `a in b` / `a not in b` where a `lark.Token` counts as the `str` it is"""
        tok = self.t11_tok()
        if isinstance(op, (ast.Eq, ast.NotEq)):
            return pre, (f"(PyU.t11Eq {tok} {a} {b})" if isinstance(op, ast.Eq) else f"(!(PyU.t11Eq {tok} {a} {b}))")
        t = self.fresh()
        return pre + [f"{' ' * ind}let {t} ← PyU.t11Contains {tok} {b} {a}"], (t if isinstance(op, ast.In) else f"(!{t})")

    def t11_attr(self, n: ast.Attribute, ind):
        """self-mode: `self.a` read as a value (any listed attribute)"""
        cfg = self.t11_self()
        if cfg is None or not (isinstance(n.ctx, ast.Load) and isinstance(n.value, ast.Name) and n.value.id == cfg[0] and n.attr in cfg[1]):
            return None
        if cfg[0] not in self.declared:
            raise self.bad(f"{cfg[0]} is not bound here")
        t = self.fresh()
        return [f"{' ' * ind}let {t} ← PyU.getAttr {lname(cfg[0])} {lean_string(n.attr)}"], t

    def t11_call(self, n: ast.Call, entry, ind):
        """calls of the T11 subset: (prelude, term) or None"""
        tok = self.t11_tok()
        if not tok:
            return None
        P = " " * ind
        f = n.func
        if entry is not None and entry[0] == "t11ddlist":
            if n.keywords or len(n.args) != 1 or not self.is_builtin(n.args[0], "list"):
                raise self.bad(f"{ast.unparse(n)[:50]}: only `collections.defaultdict(list)`")
            return [], "PyU.t11DdNew"
        if entry is not None and entry[0] == "cls" and self.dotted(f) in getattr(self.u, "t11_ctors", {}):
            entry = ("t11cls", (entry[1], self.u.t11_ctors[self.dotted(f)]))      # a class that is also named in `isinstance`
        if entry is not None and entry[0] == "t11cls":
            term, fields = entry[1]
            if n.keywords or len(n.args) != len(fields):
                raise self.bad(f"{ast.unparse(f)} is registered with the positional arguments {fields}")
            pre, args = self.exprs(n.args, ind)
            return pre, f"(V.inst {term} [{', '.join(args)}])"
        if n.keywords:
            return None
        cfg = self.t11_self()
        if cfg is not None and isinstance(f, ast.Attribute) and isinstance(f.value, ast.Name) and f.value.id == cfg[0] and f.attr in cfg[2]:
            # `self.m(args)`: the translated method, `self` threaded
            me = cfg[0]
            sg = self.u.sigs[cfg[2][f.attr]]
            if getattr(sg, "t11_selfmode", None) is None or sg.asserts or getattr(sg, "stops", False):
                raise self.bad(f"{f.attr} was not translated as a self-mode method")
            if me not in self.declared or self.in_loop is not None and me not in self.in_loop:
                raise self.bad(f"{me} is not bound here")
            rest = sg.params[1:]
            if len(n.args) > len(rest):
                raise self.bad(f"too many arguments for {f.attr}")
            pre, args = self.exprs(n.args, ind)
            for pname, d in rest[len(args):]:
                if d is None:
                    raise self.bad(f"missing argument {pname} of {f.attr}")
                args.append(d)
            if sg.fuel:
                self.needs_fuel = True
            for e in sg.externs:
                self.use_extern(e)
            r, q = self.fresh(), self.fresh()
            callt = " ".join([sg.name] + list(sg.externs) + (["fuel"] if sg.fuel else []) + [lname(me)] + args)
            return pre + [f"{P}let {r} ← {callt}", f"{P}let {q} ← PyU.unpack2 {r}", f"{P}{lname(me)} := {q}.2"], f"{q}.1"
        if isinstance(f, ast.Attribute) and f.attr == "pop" and isinstance(f.value, ast.Name) and f.value.id in self.mutable and not n.args:
            v = f.value.id
            if v not in self.declared:
                raise self.bad(f"variable {v} may be used before it is assigned on this path")
            r = self.fresh()
            return [f"{P}let {r} ← PyU.t11Pop {lname(v)}", f"{P}{lname(v)} := {r}.2"], f"{r}.1"
        if isinstance(f, ast.Attribute) and f.attr == "join" and len(n.args) == 1 and self.dotted(f) is None:
            po, o = self.expr(f.value, ind)
            pa, a = self.expr(n.args[0], ind)
            t = self.fresh()
            return po + pa + [f"{P}let {t} ← PyU.t11Join {tok} {o} {a}"], t
        if self.is_builtin(f, "tuple") and len(n.args) == 1 and isinstance(n.args[0], ast.GeneratorExp):
            g = n.args[0]
            lc = ast.copy_location(ast.ListComp(elt=g.elt, generators=g.generators), g)
            pa, a = self.listcomp(lc, ind)
            t = self.fresh()
            return pa + [f"{P}let {t} ← PyU.t11TupleOf {tok} {a}"], t
        for name, op in (("tuple", f"PyU.t11TupleOf {tok}"), ("str", f"PyU.t11StrOf {tok}"), ("repr", f"PyU.t11ReprV {tok}"),
                         ("dict", "PyU.t11DictOf")):
            if self.is_builtin(f, name) and len(n.args) == 1:
                pa, a = self.expr(n.args[0], ind)
                t = self.fresh()
                return pa + [f"{P}let {t} ← {op} {a}"], t
        if self.is_builtin(f, "hash") and len(n.args) == 1 and "%hash" in self.u.registry:
            name = self.u.registry["%hash"][2][0]      # `hash(x)`: an external function of the value
            pa, a = self.expr(n.args[0], ind)
            self.use_extern(name)
            t = self.fresh()
            return pa + [f"{P}let {t} ← {name} {a}"], t
        return None

    def t11_stmt(self, st, ind):
        """statements of the T11 subset: lines or None"""
        tok = self.t11_tok()
        if not tok:
            return None
        P = " " * ind
        cfg = self.t11_self()
        if isinstance(st, ast.Expr) and isinstance(st.value, ast.Call):
            c = st.value
            what = self.t11_special_store(c)
            if what is not None:
                if what[-1] is None:
                    raise self.bad("append with other than one argument")
                if what[0] == "dd":
                    _, d, key, arg = what
                    if d not in self.declared:
                        raise self.bad(f"variable {d} may be used before it is assigned on this path")
                    pk, k = self.expr(key, ind)
                    pv, v = self.expr(arg, ind)
                    if pk or pv:
                        # `d[k]` inserts the default before `e` is evaluated: one run-time operation is exact only when neither can raise
                        raise self.bad(f"`{d}[k].append(e)` with a key / value that is not a plain variable or constant")
                    r = self.fresh()
                    return [f"{P}let {r} ← PyU.t11DdAppend {lname(d)} {k} {v}", f"{P}{lname(d)} := {r}"]
                _, chain, arg = what
                me = lname(cfg[0])
                if cfg[0] not in self.declared or self.in_loop is not None and cfg[0] not in self.in_loop:
                    raise self.bad(f"{cfg[0]} is not bound here")
                out, cur, objs = [], me, []
                for a in chain:            # the receiver `self.a[.b]` is evaluated before the argument
                    t = self.fresh()
                    out.append(f"{P}let {t} ← PyU.getAttr {cur} {lean_string(a)}")
                    objs.append((cur, a))
                    cur = t
                pv, v = self.expr(arg, ind)
                new = self.fresh()
                out += pv + [f"{P}let {new} ← PyU.append {cur} {v}"]
                for owner, a in reversed(objs):
                    t = self.fresh()
                    out.append(f"{P}let {t} ← PyU.setAttrObj {owner} {lean_string(a)} {new}")
                    new = t
                return out + [f"{P}{me} := {new}"]
            f = c.func
            if isinstance(f, ast.Attribute) and f.attr == "extend" and isinstance(f.value, ast.Name) and f.value.id in self.mutable:
                if len(c.args) != 1 or c.keywords:
                    raise self.bad("extend with other than one argument")
                v = f.value.id
                if v not in self.declared:
                    raise self.bad(f"variable {v} may be used before it is assigned on this path")
                p, t = self.expr(c.args[0], ind)
                r = self.fresh()
                return p + [f"{P}let {r} ← PyU.t11Extend {tok} {lname(v)} {t}", f"{P}{lname(v)} := {r}"]
            return None
        if cfg is None:
            return None
        tg = value = op = None
        if isinstance(st, ast.Assign) and len(st.targets) == 1:
            tg, value = st.targets[0], st.value
        elif isinstance(st, ast.AnnAssign) and st.value is not None:
            tg, value = st.target, st.value
        elif isinstance(st, ast.AugAssign):
            tg, value, op = st.target, st.value, st.op
        if not (isinstance(tg, ast.Attribute) and isinstance(tg.value, ast.Name) and tg.value.id == cfg[0]):
            return None
        me = lname(cfg[0])
        if tg.attr not in cfg[1]:
            raise self.bad(f"assignment to {cfg[0]}.{tg.attr}, which is not a listed attribute")
        if cfg[0] not in self.declared or self.in_loop is not None and cfg[0] not in self.in_loop:
            raise self.bad(f"{cfg[0]} is not bound here")
        out = []
        if op is not None:
            if type(op) not in BINOP:
                raise self.bad(f"operator {type(op).__name__}")
            old = self.fresh()
            out.append(f"{P}let {old} ← PyU.getAttr {me} {lean_string(tg.attr)}")
        p, t = self.expr(value, ind)
        out += p
        if op is not None:
            new = self.fresh()
            out.append(f"{P}let {new} ← PyU.{'iadd' if isinstance(op, ast.Add) else BINOP[type(op)]} {old} {t}")
            t = new
        r = self.fresh()
        return out + [f"{P}let {r} ← PyU.setAttrObj {me} {lean_string(tg.attr)} {t}", f"{P}{me} := {r}"]

    def run(self):
        self.analyse()
        head = [f"  let mut {lname(p)} := {lname(p)}" for p in self.params if p in self.assigned]
        if self.uses_calls:
            head.append("  let mut t0 := (V.int 0)")
            self.declared.append(CALLS)
        if self.is_gen:
            head.append("  let mut ys0 := (V.list [])")
            self.declared.append(YIELDS)
        if self.t18_ret_in_loop():
            head.append("  let mut ret0 := PyU.t18NoRet")
            self.declared.append(RET)
        body, term = self.block(self.fd.body, 2)
        if self.init is not None:
            cls_term, attrs = self.init
            if term:
                raise self.bad("`__init__` always raises")
            missing = [a for a in attrs if f"self__{a}" not in self.declared and a not in self.t15_init_files]
            if missing:
                raise self.bad(f"attributes {missing} are not assigned on every path (at the top level of `__init__`)")
            body.append(f"  return (V.inst {cls_term} [{', '.join(lname(self.t15_init_files.get(a, 'self__' + a)) for a in attrs)}])")
        elif self.is_gen:
            if not term:
                body.append(f"  return {self.result_term()}")
        elif not term and self.t11_self() is not None:
            body.append(f"  return {self.result_term('V.none')}")      # T11 self-mode: the end of the body is `return None`
        elif not term:
            raise self.bad("a path reaches the end of the function without return")
        return head + body

"""py2leanu — UNTYPED translator from (a subset of) Python function *source* to Lean 4 definitions.

Sibling of `tools/py2lean.py` for dynamically typed code: every Python value is one Lean value of the universal type
`PyU.V` (lean/CsVerif/Model/PyU.lean), every Python operation is a call of one total function of that file, every
raising operation is bound in evaluation order (A-normal form) in the `Py = Except PyExc` monad.  Used by the plug-in
`tools/gen/py_beacon.py`; the property files prove `Gen.<f> = <hand-written model of f>` for all arguments.
A construct outside the subset raises `Unsupported` (→ proof obligation broken, never silently skipped).

Subset
  functions   module-level `def` with positional parameters (constant defaults), no decorators, no nested functions
  statements  `x = e`, `x: T = e`, `a, b = e` / `a, b, c = e`, `x += e` (and the other augmented operators), `if/elif/else`,
              `while <test>:` with `break` / `continue` (no `else`, no `return` inside), `return e`, `raise <Builtin>(args)`,
              `pass`, docstrings, expression statements that are calls, `name.append(e)`
  expressions names, `None True False`, int / bytes / str literals, tuple / list / dict displays, `+ - * // % & | ^ << >>`,
              unary `-`, `== != < <= > >=`, `is None` / `is not None`, `in` / `not in`, `not`, `and` / `or` in condition
              position (short-circuit), conditional expressions without raising branches, `x[i]`, `x[a:b]`, `x.name` / `x.value`,
              f-strings and `"literal".format(...)` with the fields `{}` and `{:x}`, calls of `len`, of other functions of the
              unit (defaults filled in), of the objects the plug-in registered (enum classes `Cls(e)` / `Cls.MEMBER`,
              `io.BytesIO(e)`, typed translations such as `u32be`, effect-free calls such as `logger.error`), and the
              methods `p.read(n)`, `b.rstrip(c)`, `b.partition(s)`, `b.decode()` / `.decode("latin-1", …)`, `d.get(k, default)`
  mutable objects   a name that is the receiver of `.append` / `.read` must be bound to a fresh object (`[...]`, `io.BytesIO(e)`)
              at every assignment and may otherwise only occur in `return <name>`: no second reference to a mutable object
              can exist, so threading the object as a value (`p.read(4)` ↦ data and new cursor) is exact
  loops       the body becomes a separate definition `<f>_loop<k>` over the tuple of the variables that are live before the
              loop and assigned in it; variables first assigned inside the body are local to one iteration (a use before the
              assignment in the same iteration, or after the loop, is rejected); the function gets a `fuel : Nat` parameter
              (`PyU.whileFuel`)
Evaluation order is left to right; every name of the source that is not a local variable must resolve (in the function's
globals, at translation time) to the very object the plug-in registered, or to an unshadowed builtin.
"""
from __future__ import annotations

import ast
import builtins
import inspect
import re
import string
import textwrap


class Unsupported(Exception):
    pass


LEAN_RESERVED = {"from", "at", "end", "open", "in", "do", "then", "else", "if", "let", "fun", "match", "with", "where", "have", "show",
                 "by", "def", "theorem", "namespace", "section", "variable", "universe", "instance", "class", "structure", "inductive",
                 "import", "export", "private", "protected", "mutual", "deriving", "return", "for", "unless", "mut", "try", "catch",
                 "finally", "throw", "type", "Type", "Prop", "Sort", "fuel", "st", "V", "Py", "PyU", "PyExc", "pure", "true", "false",
                 "break", "continue", "macro", "syntax", "notation", "example", "abbrev", "axiom", "opaque", "set_option", "using",
                 "calc", "suffices", "obtain", "nomatch", "nofun", "Nat", "Int", "Unit", "Bool", "String", "List", "Type"}

EXC = {"ValueError": "PyExc.valueError", "EOFError": "PyExc.eofError", "OSError": "PyExc.osError", "IndexError": "PyExc.indexError",
       "KeyError": "PyExc.keyError", "AttributeError": "PyExc.attributeError", "OverflowError": "PyExc.overflowError",
       "TypeError": "PyExc.typeError", "ZeroDivisionError": "PyExc.zeroDivisionError"}

BINOP = {ast.Add: "add", ast.Sub: "sub", ast.Mult: "mul", ast.FloorDiv: "floordiv", ast.Mod: "mod", ast.BitAnd: "band",
         ast.BitOr: "bor", ast.BitXor: "bxor", ast.LShift: "shl", ast.RShift: "shr"}
ORDER = {ast.Lt: "lt", ast.LtE: "le", ast.Gt: "gt", ast.GtE: "ge"}

# methods without side effect: name -> (runtime function, minimal / maximal number of arguments, defaults for the missing ones)
METHODS = {"rstrip": ("PyU.rstrip", 0, 1, ["V.none"]), "partition": ("PyU.partition", 1, 1, []),
           "get": ("PyU.dictGet", 1, 2, [None, "V.none"])}
MUTATORS = {"append": 1, "read": (0, 1)}


def lname(n: str) -> str:
    if n == "_":
        return "u_"
    if re.fullmatch(r"t\d+", n) or n.endswith("_") and n[:-1] in LEAN_RESERVED:
        raise Unsupported(f"variable name {n} clashes with the translator's own names")
    return n + "_" if n in LEAN_RESERVED else n


def lean_string(v: str) -> str:
    out = ['"']
    for ch in v:
        if ch in '"\\':
            out.append("\\" + ch)
        elif 32 <= ord(ch) < 127:
            out.append(ch)
        elif ord(ch) < 0x10000:
            out.append("\\u%04x" % ord(ch))
        else:
            raise Unsupported("string literal with a code point above U+FFFF")
    return "".join(out) + '"'


def const_term(v) -> str:
    if v is None:
        return "V.none"
    if isinstance(v, bool):
        return f"(V.bool {'true' if v else 'false'})"
    if isinstance(v, int):
        return f"(V.int {v})" if v >= 0 else f"(V.int ({v}))"
    if isinstance(v, bytes):
        return "(V.bytes [" + ", ".join(str(b) for b in v) + "])"
    if isinstance(v, str):
        return f"(PyU.lit {lean_string(v)})"
    raise Unsupported(f"constant {v!r}")


def tuple_type(n: int) -> str:
    return "Unit" if n == 0 else " × ".join(["V"] * n)


def tuple_term(names) -> str:
    return "()" if not names else (names[0] if len(names) == 1 else "(" + ", ".join(names) + ")")


def proj(k: int, n: int) -> str:
    """k-th component of a right-nested n-tuple `st`"""
    if n == 1:
        return "st"
    return "st" + ".2" * k + (".1" if k < n - 1 else "")


class Sig:
    def __init__(self, name, params, fuel):
        self.name = name        # Lean name
        self.params = params    # [(python name, default term or None)]
        self.fuel = fuel        # takes a leading `fuel : Nat` parameter


def _resolve(globs: dict, dotted: str):
    parts = dotted.split(".")
    if parts[0] not in globs:
        return None
    obj = globs[parts[0]]
    for p in parts[1:]:
        obj = getattr(obj, p, None)
    return obj


class Unit:
    """a set of functions translated together.  `registry`: dotted source name -> (python object, kind, lean term) with kind in
    `bytesio` (constructor of io.BytesIO), `enum` (a cstruct enum class; lean term : PyU.EnumCls), `func` (an effect-free
    function of positional `V` arguments into `Py V`), `noop` (a call that is evaluated for its arguments only)."""

    def __init__(self, namespace: str, imports: list, registry: dict):
        self.namespace = namespace
        self.imports = imports
        self.registry = registry
        self.prelude: list[str] = []
        self.sigs: dict[str, Sig] = {}
        self.defs: list[str] = []
        self.names: list[str] = []

    def translate(self, fn):
        src = textwrap.dedent(inspect.getsource(fn))
        mod = ast.parse(src)
        if len(mod.body) != 1 or not isinstance(mod.body[0], ast.FunctionDef):
            raise Unsupported(f"cannot isolate the definition of {fn!r}")
        fd = mod.body[0]
        if fd.decorator_list:
            raise Unsupported(f"{fd.name}: decorators")
        a = fd.args
        if a.vararg or a.kwarg or a.posonlyargs or a.kwonlyargs:
            raise Unsupported(f"{fd.name}: *args / **kwargs / positional-only / keyword-only parameters")
        defaults = [None] * (len(a.args) - len(a.defaults)) + list(a.defaults)
        params = []
        for p, d in zip(a.args, defaults):
            if d is not None and not isinstance(d, ast.Constant):
                raise Unsupported(f"{fd.name}: non-literal default of {p.arg}")
            params.append((p.arg, None if d is None else const_term(d.value)))
        tr = _Fn(self, fd, fn.__globals__, [p for p, _ in params])
        body = tr.run()
        sig = Sig(lname(fd.name), params, tr.needs_fuel)
        self.sigs[fd.name] = sig
        binders = (" (fuel : Nat)" if sig.fuel else "") + "".join(f" ({lname(p)} : V)" for p, _ in params)
        doc = f"/-- translated from `{fn.__module__}.{fn.__qualname__}`"
        dflt = [f"{p}={d}" for p, d in params if d is not None]
        if dflt:
            doc += "; defaults: " + ", ".join(dflt)
        doc += " -/"
        self.defs += tr.loop_defs
        self.defs.append(f"{doc}\ndef {sig.name}{binders} : Py V := do\n" + "\n".join(body) + "\n")
        self.names += tr.loop_names + [sig.name]
        # the calls with 1, 2, … trailing arguments left to their defaults
        nd = len([1 for _, d in params if d is not None])
        for k in range(1, nd + 1):
            given, omitted = params[:len(params) - k], params[len(params) - k:]
            b2 = (" (fuel : Nat)" if sig.fuel else "") + "".join(f" ({lname(p)} : V)" for p, _ in given)
            args = ("fuel " if sig.fuel else "") + " ".join([lname(p) for p, _ in given] + [d for _, d in omitted])
            shown = ", ".join(f"{p}={d}" for p, d in omitted)
            self.defs.append(f"/-- `{fd.name}` called with the default{'s' if k > 1 else ''} {shown} -/\n"
                             f"def {sig.name}_default{k}{b2} : Py V := {sig.name} {args}\n")
            self.names.append(f"{sig.name}_default{k}")
        return sig

    def render(self, header: str) -> str:
        imps = "".join(f"import {m}\n" for m in ["CsVerif.Model.PyU"] + self.imports)
        out = [f"{imps}/-! {header}\nGENERATED by tools/py2leanu.py from the working tree of /repo — do not edit. -/",
               f"namespace {self.namespace}", "open PyU (V)", "set_option linter.unusedVariables false", ""]
        out += self.prelude + self.defs
        out.append(f"end {self.namespace}")
        return "\n".join(out) + "\n"


class _Fn:
    def __init__(self, unit: Unit, fd: ast.FunctionDef, globs: dict, params: list):
        self.u = unit
        self.fd = fd
        self.globs = globs
        self.params = params
        self.tmp = 0
        self.declared: list[str] = list(params)      # python names that are bound at this point, in order of first binding
        self.loop_defs: list[str] = []
        self.loop_names: list[str] = []
        self.loops = 0
        self.in_loop: list | None = None             # names of the state tuple of the innermost enclosing loop
        self.needs_fuel = False

    def bad(self, msg):
        return Unsupported(f"{self.fd.name}: {msg}")

    def fresh(self):
        self.tmp += 1
        return f"t{self.tmp}"

    # ---- analysis ---------------------------------------------------------------------------------------------------
    def analyse(self):
        fd = self.fd
        for n in ast.walk(fd):
            if n is not fd and isinstance(n, (ast.FunctionDef, ast.AsyncFunctionDef, ast.Lambda, ast.ClassDef, ast.ListComp, ast.SetComp,
                                              ast.DictComp, ast.GeneratorExp, ast.Global, ast.Nonlocal, ast.NamedExpr, ast.Yield,
                                              ast.YieldFrom, ast.Await, ast.Try, ast.With, ast.Delete, ast.Starred)):
                raise self.bad(f"construct {type(n).__name__}")
        self.assigned = {n.id for n in ast.walk(fd) if isinstance(n, ast.Name) and isinstance(n.ctx, ast.Store)}
        self.local = self.assigned | set(self.params)
        for v in self.local:
            if v in self.u.sigs or v in self.u.registry or any(k.split(".")[0] == v for k in self.u.registry):
                raise self.bad(f"local name {v} shadows a translated / registered global")
        # mutable names: receivers of the mutating methods
        self.mutable = set()
        for n in ast.walk(fd):
            if isinstance(n, ast.Call) and isinstance(n.func, ast.Attribute) and n.func.attr in MUTATORS:
                if not isinstance(n.func.value, ast.Name) or n.func.value.id not in self.assigned or n.func.value.id in self.params:
                    raise self.bad(f"`.{n.func.attr}` on something that is not a local variable bound to a fresh object")
                self.mutable.add(n.func.value.id)
        allowed = set()
        for n in ast.walk(fd):
            if isinstance(n, ast.Call) and isinstance(n.func, ast.Attribute) and n.func.attr in MUTATORS:
                allowed.add(id(n.func.value))
            if isinstance(n, ast.Return) and isinstance(n.value, ast.Name):
                allowed.add(id(n.value))
            if isinstance(n, (ast.Assign, ast.AnnAssign)):
                targets = n.targets if isinstance(n, ast.Assign) else [n.target]
                for t in targets:
                    if isinstance(t, ast.Name) and t.id in self.mutable:
                        if n.value is None or not self.is_fresh(n.value):
                            raise self.bad(f"mutable variable {t.id} is bound to something that is not a fresh object")
                        allowed.add(id(t))
        for n in ast.walk(fd):
            if isinstance(n, ast.Name) and n.id in self.mutable and id(n) not in allowed:
                raise self.bad(f"mutable variable {n.id} is used where a second reference to the object could be created")

    def is_fresh(self, v) -> bool:
        if isinstance(v, ast.List):
            return True
        return isinstance(v, ast.Call) and self.global_kind(v.func) == "bytesio"

    def dotted(self, n):
        parts = []
        while isinstance(n, ast.Attribute):
            parts.append(n.attr)
            n = n.value
        if not isinstance(n, ast.Name) or n.id in self.local:
            return None
        return ".".join([n.id] + parts[::-1])

    def global_entry(self, n):
        d = self.dotted(n)
        if d is None or d not in self.u.registry:
            return None
        obj, kind, term = self.u.registry[d]
        got = _resolve(self.globs, d)
        if got is not obj and not (inspect.ismethod(obj) and got == obj):
            raise self.bad(f"the name {d} does not denote the registered object")
        return kind, term

    def global_kind(self, n):
        e = self.global_entry(n)
        return e[0] if e else None

    def is_builtin(self, n, name) -> bool:
        return isinstance(n, ast.Name) and n.id == name and name not in self.local and self.globs.get(name, getattr(builtins, name)) is getattr(builtins, name)

    # ---- expressions: (prelude lines, term of type V) ------------------------------------------------------------------
    def expr(self, n, ind) -> tuple[list, str]:
        P = " " * ind
        if isinstance(n, ast.Constant):
            return [], const_term(n.value)
        if isinstance(n, ast.Name):
            if n.id in self.local:
                if n.id not in self.declared:
                    raise self.bad(f"variable {n.id} may be used before it is assigned on this path")
                return [], lname(n.id)
            raise self.bad(f"free name {n.id}")
        if isinstance(n, (ast.Compare, ast.BoolOp)) or isinstance(n, ast.UnaryOp) and isinstance(n.op, ast.Not):
            if isinstance(n, ast.BoolOp):
                raise self.bad("`and` / `or` outside a condition (the value is an operand, not a bool)")
            p, c = self.cond(n, ind)
            return p, f"(V.bool {c})"
        if isinstance(n, ast.BinOp):
            if type(n.op) not in BINOP:
                raise self.bad(f"operator {type(n.op).__name__}")
            pa, a = self.expr(n.left, ind)
            pb, b = self.expr(n.right, ind)
            t = self.fresh()
            return pa + pb + [f"{P}let {t} ← PyU.{BINOP[type(n.op)]} {a} {b}"], t
        if isinstance(n, ast.UnaryOp) and isinstance(n.op, ast.USub):
            if isinstance(n.operand, ast.Constant) and isinstance(n.operand.value, int) and not isinstance(n.operand.value, bool):
                return [], const_term(-n.operand.value)
            pa, a = self.expr(n.operand, ind)
            t = self.fresh()
            return pa + [f"{P}let {t} ← PyU.neg {a}"], t
        if isinstance(n, ast.IfExp):
            pc, c = self.cond(n.test, ind)
            pa, a = self.expr(n.body, ind)
            pb, b = self.expr(n.orelse, ind)
            if pa or pb:
                raise self.bad("conditional expression with raising branches")
            return pc, f"(if {c} then {a} else {b})"
        if isinstance(n, (ast.Tuple, ast.List)):
            pre, terms = self.exprs(n.elts, ind)
            return pre, f"(V.{'tuple' if isinstance(n, ast.Tuple) else 'list'} [{', '.join(terms)}])"
        if isinstance(n, ast.Dict):
            if any(k is None for k in n.keys):
                raise self.bad("dict display with ** unpacking")
            pre, items = [], []
            for k, v in zip(n.keys, n.values):
                pk, tk = self.expr(k, ind)
                pv, tv = self.expr(v, ind)
                pre += pk + pv
                items.append(f"({tk}, {tv})")
            t = self.fresh()
            return pre + [f"{P}let {t} ← PyU.mkDict [{', '.join(items)}]"], t
        if isinstance(n, ast.Subscript):
            pa, a = self.expr(n.value, ind)
            t = self.fresh()
            if isinstance(n.slice, ast.Slice):
                if n.slice.step is not None:
                    raise self.bad("slice with a step")
                pl, lo = self.expr(n.slice.lower, ind) if n.slice.lower is not None else ([], "V.none")
                ph, hi = self.expr(n.slice.upper, ind) if n.slice.upper is not None else ([], "V.none")
                return pa + pl + ph + [f"{P}let {t} ← PyU.slice {a} {lo} {hi}"], t
            pi, i = self.expr(n.slice, ind)
            return pa + pi + [f"{P}let {t} ← PyU.getItem {a} {i}"], t
        if isinstance(n, ast.JoinedStr):
            return self.fstring(n, ind)
        if isinstance(n, ast.Attribute):
            if self.global_kind(n.value) == "enum":
                if n.attr not in getattr(self.u.registry[self.dotted(n.value)][0], "__members__", {}):
                    raise self.bad(f"{ast.unparse(n)} is not a member of the enum")
                t = self.fresh()
                return [f"{P}let {t} ← PyU.enumMember {self.global_entry(n.value)[1]} {lean_string(n.attr)}"], t
            if n.attr in ("name", "value") and self.dotted(n) is None:
                po, o = self.expr(n.value, ind)
                t = self.fresh()
                return po + [f"{P}let {t} ← PyU.getAttr {o} {lean_string(n.attr)}"], t
            raise self.bad(f"attribute {ast.unparse(n)[:60]}")
        if isinstance(n, ast.Call):
            return self.call(n, ind)
        raise self.bad(f"expression {type(n).__name__}: {ast.unparse(n)[:60]}")

    def exprs(self, items, ind):
        pre, terms = [], []
        for it in items:
            p, t = self.expr(it, ind)
            pre += p
            terms.append(t)
        return pre, terms

    def pieces(self, parts, ind, args_first):
        """parts: str literals and (expression node, spec) fields -> a `V.str` term.  `str.format` evaluates all arguments
        before it formats the first one (`args_first`); an f-string evaluates and formats field by field."""
        P = " " * ind
        pre, fmts, terms = [], [], []
        for part in parts:
            if isinstance(part, str):
                if part:
                    terms.append(f"PyU.cps {lean_string(part)}")
            else:
                node, spec = part
                if spec not in ("", "x"):
                    raise self.bad(f"format spec {spec!r}")
                p, v = self.expr(node, ind)
                t = self.fresh()
                pre += p
                (fmts if args_first else pre).append(f"{P}let {t} ← PyU.fmt {v} {lean_string(spec)}")
                terms.append(t)
        return pre + fmts, "(V.str (" + (" ++ ".join(terms) if terms else "[]") + "))"

    def fstring(self, n: ast.JoinedStr, ind):
        parts = []
        for v in n.values:
            if isinstance(v, ast.Constant) and isinstance(v.value, str):
                parts.append(v.value)
            elif isinstance(v, ast.FormattedValue) and v.conversion == -1:
                spec = ""
                if v.format_spec is not None:
                    fs = v.format_spec.values
                    if not all(isinstance(x, ast.Constant) and isinstance(x.value, str) for x in fs):
                        raise self.bad("computed format spec")
                    spec = "".join(x.value for x in fs)
                parts.append((v.value, spec))
            else:
                raise self.bad("f-string conversion (!r / !s / !a)")
        return self.pieces(parts, ind, False)

    def call(self, n: ast.Call, ind):
        P = " " * ind
        f = n.func
        if n.keywords:
            raise self.bad(f"keyword arguments in {ast.unparse(n)[:60]}")
        if isinstance(f, ast.Attribute) and f.attr == "read" and isinstance(f.value, ast.Name) and f.value.id in self.mutable:
            return self.expr_read(n, ind)
        entry = self.global_entry(f)
        if entry is not None:
            kind, term = entry
            pre, args = self.exprs(n.args, ind)
            if kind == "noop":
                return pre, "V.none"
            t = self.fresh()
            if kind == "bytesio":
                if len(args) > 1:
                    raise self.bad("io.BytesIO with more than one argument")
                return pre + [f"{P}let {t} ← PyU.newBytesIO {args[0] if args else 'V.none'}"], t
            if kind == "enum":
                if len(args) > 1:
                    raise self.bad("enum class called with more than one argument")
                return pre + [f"{P}let {t} ← PyU.enumCall {term} {args[0] if args else 'V.none'}"], t
            if kind == "func":
                name, arity = term
                if len(args) != arity:
                    raise self.bad(f"{ast.unparse(f)} called with {len(args)} arguments (registered with {arity})")
                return pre + [f"{P}let {t} ← {name} {' '.join(args)}"], t
            raise self.bad(f"registry kind {kind}")
        if self.is_builtin(f, "len") and len(n.args) == 1:
            pa, a = self.expr(n.args[0], ind)
            t = self.fresh()
            return pa + [f"{P}let {t} ← PyU.len {a}"], t
        if isinstance(f, ast.Name) and f.id in self.u.sigs and f.id not in self.local:
            sg = self.u.sigs[f.id]
            if len(n.args) > len(sg.params):
                raise self.bad(f"too many arguments for {f.id}")
            pre, args = self.exprs(n.args, ind)
            for p, d in sg.params[len(args):]:
                if d is None:
                    raise self.bad(f"missing argument {p} of {f.id}")
                args.append(d)
            if sg.fuel:
                self.needs_fuel = True
                args.insert(0, "fuel")
            t = self.fresh()
            return pre + [f"{P}let {t} ← {sg.name} {' '.join(args)}"], t
        if isinstance(f, ast.Attribute):
            m = f.attr
            if m in MUTATORS:
                raise self.bad(f"`.{m}(…)` in a position where the changed object cannot be rebound")
            if m == "format" and isinstance(f.value, ast.Constant) and isinstance(f.value.value, str):
                parts, k = [], 0
                for literal, field, spec, conv in string.Formatter().parse(f.value.value):
                    parts.append(literal)
                    if field is None:
                        continue
                    if field != "" or conv is not None or k >= len(n.args):
                        raise self.bad(f"format field {{{field}!{conv}}} / too few arguments")
                    parts.append((n.args[k], spec or ""))
                    k += 1
                if k != len(n.args):
                    raise self.bad("str.format with unused arguments")
                return self.pieces(parts, ind, True)
            if m == "decode":
                lits = [a.value if isinstance(a, ast.Constant) and isinstance(a.value, str) else None for a in n.args]
                if None in lits or len(lits) > 2:
                    raise self.bad("decode with non-literal arguments")
                enc = (lits[0] if lits else "utf-8").lower().replace("_", "-")
                errors = lits[1] if len(lits) > 1 else "strict"
                po, o = self.expr(f.value, ind)
                t = self.fresh()
                if enc in ("utf-8", "utf8") and errors == "strict":
                    return po + [f"{P}let {t} ← PyU.decodeUtf8 {o}"], t
                if enc in ("latin-1", "latin1", "iso-8859-1") and errors in ("strict", "ignore", "replace"):
                    return po + [f"{P}let {t} ← PyU.decodeLatin1 {o}"], t
                raise self.bad(f"decode({', '.join(map(repr, lits))})")
            if m in METHODS:
                fn_, lo, hi, dflt = METHODS[m]
                if not lo <= len(n.args) <= hi:
                    raise self.bad(f"{m} with {len(n.args)} arguments")
                po, o = self.expr(f.value, ind)
                pre, args = self.exprs(n.args, ind)
                args += dflt[len(args):]
                t = self.fresh()
                return po + pre + [f"{P}let {t} ← {fn_} {o} {' '.join(args)}"], t
        raise self.bad(f"call {ast.unparse(n)[:70]}")

    # ---- conditions: (prelude lines, term of type Bool) ----------------------------------------------------------------
    def cond(self, n, ind) -> tuple[list, str]:
        P = " " * ind
        if isinstance(n, ast.UnaryOp) and isinstance(n.op, ast.Not):
            p, c = self.cond(n.operand, ind)
            return p, f"(!{c})"
        if isinstance(n, ast.Compare):
            if len(n.ops) != 1:
                raise self.bad("chained comparison")
            op, rhs = n.ops[0], n.comparators[0]
            pa, a = self.expr(n.left, ind)
            if isinstance(op, (ast.Is, ast.IsNot)):
                if not (isinstance(rhs, ast.Constant) and rhs.value is None):
                    raise self.bad("`is` with something other than None")
                return pa, (f"(PyU.isNone {a})" if isinstance(op, ast.Is) else f"(!(PyU.isNone {a}))")
            pb, b = self.expr(rhs, ind)
            if isinstance(op, (ast.Eq, ast.NotEq)):
                return pa + pb, (f"(PyU.eq {a} {b})" if isinstance(op, ast.Eq) else f"(!(PyU.eq {a} {b}))")
            t = self.fresh()
            if isinstance(op, (ast.In, ast.NotIn)):
                return pa + pb + [f"{P}let {t} ← PyU.contains {b} {a}"], (t if isinstance(op, ast.In) else f"(!{t})")
            if type(op) in ORDER:
                return pa + pb + [f"{P}let {t} ← PyU.{ORDER[type(op)]} {a} {b}"], t
            raise self.bad(f"comparison {type(op).__name__}")
        if isinstance(n, ast.BoolOp):
            is_and = isinstance(n.op, ast.And)
            pre, cur = self.cond(n.values[0], ind)
            pre = list(pre)
            for v in n.values[1:]:
                pv, tv = self.cond(v, ind + 2)
                if not pv:
                    cur = f"({cur} {'&&' if is_and else '||'} {tv})"
                else:
                    r = self.fresh()
                    pre.append(f"{P}let mut {r} := {cur}")
                    pre.append(f"{P}if {r if is_and else f'(!{r})'} then")
                    pre += pv
                    pre.append(f"{P}  {r} := {tv}")
                    cur = r
            return pre, cur
        if isinstance(n, ast.Constant) and isinstance(n.value, bool):
            return [], "true" if n.value else "false"
        p, t = self.expr(n, ind)
        return p, f"(PyU.truthy {t})"

    # ---- statements -----------------------------------------------------------------------------------------------------
    def bind(self, name, term, ind) -> str:
        P = " " * ind
        if name in self.declared:
            return f"{P}{lname(name)} := {term}"
        self.declared.append(name)
        return f"{P}let mut {lname(name)} := {term}"

    def exit_loop(self, ctl, ind) -> str:
        return f"{' ' * ind}return (PyU.Ctl.{ctl}, {tuple_term([lname(v) for v in self.in_loop])})"

    def block(self, stmts, ind) -> tuple[list, bool]:
        """lines of a block; second component: every path through the block ends in return / raise / break / continue"""
        P = " " * ind
        out = []
        term = False
        for st in stmts:
            if term:
                raise self.bad("unreachable statement after return / raise / break / continue")
            if isinstance(st, ast.Expr) and isinstance(st.value, ast.Constant) and isinstance(st.value.value, str):
                continue  # docstring
            if isinstance(st, ast.Pass):
                continue
            if isinstance(st, ast.Return):
                if self.in_loop is not None:
                    raise self.bad("return inside a loop")
                if st.value is None:
                    raise self.bad("bare return")
                p, t = self.expr(st.value, ind)
                out += p + [f"{P}return {t}"]
                term = True
            elif isinstance(st, ast.Raise):
                exc = st.exc
                name = exc.func.id if isinstance(exc, ast.Call) and isinstance(exc.func, ast.Name) else (exc.id if isinstance(exc, ast.Name) else None)
                if name not in EXC or st.cause is not None or not self.is_builtin(exc.func if isinstance(exc, ast.Call) else exc, name):
                    raise self.bad(f"raise {ast.unparse(st)[:60]}")
                if isinstance(exc, ast.Call):
                    if exc.keywords:
                        raise self.bad("keyword arguments of an exception")
                    p, _ = self.exprs(exc.args, ind)
                    out += p
                out.append(f"{P}throw {EXC[name]}")
                term = True
            elif isinstance(st, ast.Break) or isinstance(st, ast.Continue):
                if self.in_loop is None:
                    raise self.bad("break / continue outside a loop")
                out.append(self.exit_loop("brk" if isinstance(st, ast.Break) else "cont", ind))
                term = True
            elif isinstance(st, (ast.Assign, ast.AnnAssign)):
                if isinstance(st, ast.AnnAssign):
                    if st.value is None:
                        continue
                    target = st.target
                else:
                    if len(st.targets) != 1:
                        raise self.bad("chained assignment")
                    target = st.targets[0]
                if isinstance(target, ast.Name):
                    p, t = self.expr(st.value, ind)
                    out += p + [self.bind(target.id, t, ind)]
                elif isinstance(target, ast.Tuple) and len(target.elts) in (2, 3) and all(isinstance(e, ast.Name) for e in target.elts):
                    p, t = self.expr(st.value, ind)
                    r = self.fresh()
                    k = len(target.elts)
                    out += p + [f"{P}let {r} ← PyU.unpack{k} {t}"]
                    for i, e in enumerate(target.elts):
                        out.append(self.bind(e.id, r + ".2" * i + (".1" if i < k - 1 else ""), ind))
                else:
                    raise self.bad(f"assignment target {ast.unparse(target)[:40]}")
            elif isinstance(st, ast.AugAssign):
                if not isinstance(st.target, ast.Name) or st.target.id not in self.declared or st.target.id in self.mutable:
                    raise self.bad(f"augmented assignment to {ast.unparse(st.target)[:40]}")
                if type(st.op) not in BINOP:
                    raise self.bad(f"operator {type(st.op).__name__}")
                p, b = self.expr(st.value, ind)
                t = self.fresh()
                op = "iadd" if isinstance(st.op, ast.Add) else BINOP[type(st.op)]
                out += p + [f"{P}let {t} ← PyU.{op} {lname(st.target.id)} {b}", f"{P}{lname(st.target.id)} := {t}"]
            elif isinstance(st, ast.Expr) and isinstance(st.value, ast.Call):
                out += self.call_stmt(st.value, ind)
            elif isinstance(st, ast.If):
                p, c = self.cond(st.test, ind)
                out += p
                saved = list(self.declared)
                body, tb = self.block(st.body, ind + 2)
                self.declared = list(saved)
                out.append(f"{P}if {c} then")
                out += body or [f"{P}  pure ()"]
                te = False
                if st.orelse:
                    orelse, te = self.block(st.orelse, ind + 2)
                    self.declared = list(saved)
                    out.append(f"{P}else")
                    out += orelse or [f"{P}  pure ()"]
                term = tb and te
            elif isinstance(st, ast.While):
                out += self.loop(st, ind)
            else:
                raise self.bad(f"statement {type(st).__name__}: {ast.unparse(st)[:60]}")
        if out and out[-1].lstrip().startswith("let "):
            out.append(f"{P}pure ()")      # a Lean `do` block cannot end with a binding
        return out, term

    def call_stmt(self, c: ast.Call, ind) -> list:
        """an expression statement; `.append` / `.read` on a mutable variable rebind the variable"""
        P = " " * ind
        f = c.func
        if isinstance(f, ast.Attribute) and f.attr == "append" and isinstance(f.value, ast.Name) and f.value.id in self.mutable:
            if len(c.args) != 1 or c.keywords:
                raise self.bad("append with other than one argument")
            v = f.value.id
            if v not in self.declared:
                raise self.bad(f"variable {v} may be used before it is assigned on this path")
            p, t = self.expr(c.args[0], ind)
            r = self.fresh()
            return p + [f"{P}let {r} ← PyU.append {lname(v)} {t}", f"{P}{lname(v)} := {r}"]
        p, t = self.expr(c, ind)
        return p       # the call is bound in the prelude; its value is discarded

    def expr_read(self, n, ind):
        """`p.read(k)` for a mutable variable p: (prelude incl. the rebinding of p, term)"""
        P = " " * ind
        v = n.func.value.id
        if v not in self.declared:
            raise self.bad(f"variable {v} may be used before it is assigned on this path")
        if len(n.args) > 1:
            raise self.bad("read with several arguments")
        pre, args = self.exprs(n.args, ind)
        r = self.fresh()
        return pre + [f"{P}let {r} ← PyU.read {lname(v)} {args[0] if args else 'V.none'}", f"{P}{lname(v)} := {r}.2"], f"{r}.1"

    def loop(self, st: ast.While, ind) -> list:
        P = " " * ind
        if st.orelse:
            raise self.bad("while … else")
        self.loops += 1
        self.needs_fuel = True
        name = f"{lname(self.fd.name)}_loop{self.loops}"
        stored = set()
        for n in ast.walk(st):
            if isinstance(n, ast.Name) and isinstance(n.ctx, ast.Store):
                stored.add(n.id)
            if isinstance(n, ast.Call) and isinstance(n.func, ast.Attribute) and n.func.attr in MUTATORS and isinstance(n.func.value, ast.Name):
                stored.add(n.func.value.id)
        used = {n.id for n in ast.walk(st) if isinstance(n, ast.Name)}
        state = [v for v in self.declared if v in stored]
        captured = [v for v in self.declared if v in used and v not in stored]
        inner_has_loop = any(isinstance(n, ast.While) for s in st.body for n in ast.walk(s))
        # the body, as a definition of its own
        saved = (list(self.declared), self.in_loop, self.tmp)
        self.declared = list(captured) + list(state)
        self.in_loop = state
        lines = [f"  let mut {lname(v)} := {proj(k, len(state))}" for k, v in enumerate(state)]
        if not (isinstance(st.test, ast.Constant) and st.test.value is True):
            p, c = self.cond(st.test, 2)
            lines += p + [f"  if (!{c}) then", self.exit_loop("brk", 4)]
        body, term = self.block(st.body, 2)
        lines += body
        if not term:
            lines.append(self.exit_loop("cont", 2))
        self.declared, self.in_loop, _ = saved
        sigma = tuple_type(len(state))
        binders = (" (fuel : Nat)" if inner_has_loop else "") + "".join(f" ({lname(v)} : V)" for v in captured) + f" (st : {sigma})"
        self.loop_defs.append(f"/-- body of loop {self.loops} of `{self.fd.name}`; state: ({', '.join(state)}) -/\n"
                              f"def {name}{binders} : Py (PyU.Ctl × ({sigma})) := do\n" + "\n".join(lines) + "\n")
        self.loop_names.append(name)
        r = self.fresh()
        args = (" fuel" if inner_has_loop else "") + "".join(f" {lname(v)}" for v in captured)
        out = [f"{P}let {r} ← PyU.whileFuel fuel ({name}{args}) {tuple_term([lname(v) for v in state])}"]
        for k, v in enumerate(state):
            out.append(f"{P}{lname(v)} := {r if len(state) == 1 else '(' + proj(k, len(state)).replace('st', r, 1) + ')'}")
        return out

    def run(self):
        self.analyse()
        head = [f"  let mut {lname(p)} := {lname(p)}" for p in self.params if p in self.assigned]
        body, term = self.block(self.fd.body, 2)
        if not term:
            raise self.bad("a path reaches the end of the function without return")
        return head + body

#!/usr/bin/env python3
"""Development tool (not a registered check): systematic small mutations of the code a property is anchored in, to measure
what the property's check detects.

  tools/mutsweep.py C15 [--n 20] [--seed 1] [--tier quick] [--kinds cmp,arith,...] [--out /tmp/mut/C15.jsonl]

For every chosen mutant (one AST-level edit inside the anchored line ranges of /verif/properties.jsonl, mapped from the pinned
snapshot commit to /repo's HEAD) it builds a scratch checkout under /tmp/mut/, runs the check with VERIF_REPO pointing at it and,
when the check stays quiet, the pinned test-suite.  Output: one JSON line per mutant with
  verdict = caught:<kind> | tests-only (the suite fails, the check is quiet: not a change of the kind we are asked to catch)
          | SURVIVOR (suite passes and the check is quiet: either an equivalent / property-preserving edit or a gap - triage by hand)
Nothing is ever written to /repo.  Scratch directories are removed after each mutant.
"""
from __future__ import annotations

import argparse
import ast
import copy
import difflib
import json
import os
import random
import re
import shutil
import subprocess
import sys
from pathlib import Path

VERIF = Path(__file__).resolve().parent.parent
REPO = Path("/repo")
BASE = "d440616"
SCR = Path("/tmp/mut")


def anchor_ranges(pid: str):
    """{file: [(lo, hi)]} in line numbers of the pinned snapshot"""
    out = {}
    for line in (VERIF / "properties.jsonl").read_text().splitlines():
        p = json.loads(line)
        if p["id"] != pid:
            continue
        items = list(p["anchors"].get("mechanism", [])) + list(p["anchors"].get("state", []))
        for it in items:
            w = it.get("where", "")
            for m in re.finditer(r"(dissect/cobaltstrike/[\w.]+):([\d,\-]+)", w):
                f = m.group(1)
                if not f.endswith(".py"):
                    continue
                for r in m.group(2).split(","):
                    if not r:
                        continue
                    lo, _, hi = r.partition("-")
                    out.setdefault(f, []).append((int(lo), int(hi or lo)))
    return out


def map_ranges(f: str, ranges):
    """line ranges of the snapshot version -> line ranges of HEAD's working tree version"""
    old = subprocess.run(["git", "-C", str(REPO), "show", f"{BASE}:{f}"], capture_output=True, text=True).stdout.splitlines()
    new = (REPO / f).read_text().splitlines()
    sm = difflib.SequenceMatcher(a=old, b=new, autojunk=False)
    o2n = {}
    for a, b, n in sm.get_matching_blocks():
        for k in range(n):
            o2n[a + k + 1] = b + k + 1
    res = []
    for lo, hi in ranges:
        ms = [o2n[x] for x in range(lo, hi + 1) if x in o2n]
        if ms:
            res.append((min(ms), max(ms)))
    return res


CMP = {ast.Lt: ast.LtE, ast.LtE: ast.Lt, ast.Gt: ast.GtE, ast.GtE: ast.Gt, ast.Eq: ast.NotEq, ast.NotEq: ast.Eq,
       ast.In: ast.NotIn, ast.NotIn: ast.In, ast.Is: ast.IsNot, ast.IsNot: ast.Is}
CMP2 = {ast.Lt: ast.Gt, ast.Gt: ast.Lt, ast.LtE: ast.GtE, ast.GtE: ast.LtE}
ARITH = {ast.Add: ast.Sub, ast.Sub: ast.Add, ast.Mult: ast.FloorDiv, ast.FloorDiv: ast.Mult, ast.BitAnd: ast.BitOr,
         ast.BitOr: ast.BitAnd, ast.LShift: ast.RShift, ast.RShift: ast.LShift, ast.Mod: ast.FloorDiv, ast.BitXor: ast.BitOr}


def in_ranges(node, ranges):
    return any(lo <= node.lineno <= hi for lo, hi in ranges)


def is_docstring(node, parents):
    p = parents.get(id(node))
    return isinstance(p, ast.Expr)


def enumerate_mutants(src: str, ranges):
    """yield (kind, node_span, replacement_text, description)"""
    tree = ast.parse(src)
    parents = {}
    for n in ast.walk(tree):
        for c in ast.iter_child_nodes(n):
            parents[id(c)] = n
    def in_logging(n):
        while n is not None:
            if isinstance(n, ast.Call) and ast.unparse(n.func).startswith(("logger.", "log.", "logging.", "warnings.")):
                return True
            n = parents.get(id(n))
        return False

    for node in ast.walk(tree):
        if not hasattr(node, "lineno") or not in_ranges(node, ranges) or in_logging(node):
            continue
        span = (node.lineno, node.col_offset, node.end_lineno, node.end_col_offset)

        def emit(kind, new, desc):
            txt = ast.unparse(new)
            if isinstance(new, ast.expr):
                txt = "(" + txt + ")"
            return kind, span, txt, desc

        if isinstance(node, ast.Compare) and len(node.ops) == 1:
            for table, k in ((CMP, "cmp"), (CMP2, "cmpflip")):
                t = table.get(type(node.ops[0]))
                if t:
                    new = copy.deepcopy(node)
                    new.ops = [t()]
                    yield emit(k, new, f"{type(node.ops[0]).__name__}->{t.__name__}")
        elif isinstance(node, ast.BinOp) and type(node.op) in ARITH:
            if isinstance(node.op, ast.Mod) and isinstance(node.left, ast.Constant) and isinstance(node.left.value, (str, bytes)):
                continue
            new = copy.deepcopy(node)
            new.op = ARITH[type(node.op)]()
            yield emit("arith", new, f"{type(node.op).__name__}->{type(new.op).__name__}")
        elif isinstance(node, ast.BoolOp):
            new = copy.deepcopy(node)
            new.op = ast.Or() if isinstance(node.op, ast.And) else ast.And()
            yield emit("boolop", new, "and<->or")
            if len(node.values) >= 2:
                new = copy.deepcopy(node)
                new.values = new.values[:-1]
                yield emit("boolop", new if len(new.values) > 1 else new.values[0], "drop last operand")
        elif isinstance(node, ast.UnaryOp) and isinstance(node.op, ast.Not):
            yield emit("not", copy.deepcopy(node.operand), "drop not")
        elif isinstance(node, ast.Constant) and not is_docstring(node, parents):
            v = node.value
            if isinstance(v, bool) or v is None:
                if isinstance(v, bool):
                    yield emit("const", ast.Constant(not v), f"{v}->{not v}")
            elif isinstance(v, int):
                for d in (1, -1):
                    yield emit("const", ast.Constant(v + d), f"{v}->{v + d}")
            elif isinstance(v, bytes) and 0 < len(v) <= 8:
                yield emit("bconst", ast.Constant(v[:-1]), f"{v!r}->{v[:-1]!r}")
                yield emit("bconst", ast.Constant(bytes([v[0] ^ 1]) + v[1:]), f"{v!r} first byte ^1")
        elif isinstance(node, ast.Subscript) and isinstance(node.slice, ast.Slice):
            sl = node.slice
            for part in ("lower", "upper"):
                cur = getattr(sl, part)
                if cur is not None:
                    new = copy.deepcopy(node)
                    setattr(new.slice, part, ast.BinOp(copy.deepcopy(cur), ast.Add(), ast.Constant(1)))
                    yield emit("slice", new, f"{part}+1")
                    new = copy.deepcopy(node)
                    setattr(new.slice, part, None)
                    yield emit("slice", new, f"drop {part}")
        elif isinstance(node, ast.If) or isinstance(node, ast.While):
            tspan = (node.test.lineno, node.test.col_offset, node.test.end_lineno, node.test.end_col_offset)
            yield "negate", tspan, "(not (" + ast.unparse(node.test) + "))", "negate condition"
        elif isinstance(node, (ast.Assign, ast.AugAssign, ast.Break, ast.Continue)) or (
                isinstance(node, ast.Expr) and isinstance(node.value, ast.Call)):
            if isinstance(node, ast.Expr) and ast.unparse(node.value).startswith(("logger.", "log.", "logging.")):
                continue
            yield "delete", span, "pass", "delete statement: " + ast.unparse(node)[:60]
        if isinstance(node, ast.AugAssign):
            t = {ast.Add: ast.Sub, ast.Sub: ast.Add}.get(type(node.op))
            if t:
                new = copy.deepcopy(node)
                new.op = t()
                yield "arith", span, ast.unparse(new), "augassign flip"
        if isinstance(node, ast.Call) and len(node.args) >= 2 and isinstance(node.func, (ast.Name, ast.Attribute)):
            new = copy.deepcopy(node)
            new.args[0], new.args[1] = new.args[1], new.args[0]
            if ast.unparse(new) != ast.unparse(node):
                yield emit("argswap", new, "swap first two arguments")


def splice(src: str, span, text: str) -> str:
    l1, c1, l2, c2 = span
    lines = src.split("\n")
    bl = [ln.encode() for ln in lines]
    head = bl[l1 - 1][:c1]
    tail = bl[l2 - 1][c2:]
    new = head + text.encode() + tail
    return "\n".join(lines[:l1 - 1] + [new.decode()] + lines[l2:])


def make_scratch(name: str, f: str, newsrc: str) -> Path:
    d = SCR / name
    if d.exists():
        shutil.rmtree(d)
    d.mkdir(parents=True)
    shutil.copytree(REPO / "dissect", d / "dissect")
    for extra in ("tests", "pyproject.toml", "tox.ini", "README.rst", "LICENSE", "scripts", "docs"):
        if (REPO / extra).exists():
            os.symlink(REPO / extra, d / extra)
    (d / f).write_text(newsrc)
    return d


def run_check(pid, d: Path, tier: str):
    env = dict(os.environ, VERIF_REPO=str(d))
    p = subprocess.run([str(VERIF / "tools/check.py"), pid, "--tier", tier], cwd=VERIF, env=env, capture_output=True, text=True)
    kinds = []
    for l in p.stdout.splitlines():
        if l.startswith("VIOLATION"):
            rp = VERIF / l.split("replay=")[1].split()[0]
            try:
                r = json.loads(rp.read_text())
                kinds.append(f"{r.get('kind')}:{r.get('stream')}" + (" no-failing-input-found" if l.rstrip().endswith("no-failing-input-found") else ""))
                rp.unlink()
            except Exception:  # noqa: BLE001
                kinds.append("violation")
    return p.returncode, kinds, p.stdout[-600:] + p.stderr[-600:]


def run_tests(d: Path):
    env = dict(os.environ, PYTHONPATH=str(d))
    p = subprocess.run(["/venv/bin/python", "-m", "pytest", "-x", "-q", "-p", "no:cacheprovider", "--timeout=900", "tests"],
                       cwd=d, env=env, capture_output=True, text=True)
    return p.returncode == 0, p.stdout[-300:]


def main():
    ap = argparse.ArgumentParser()
    ap.add_argument("pid")
    ap.add_argument("--n", type=int, default=20)
    ap.add_argument("--seed", type=int, default=1)
    ap.add_argument("--tier", default="quick")
    ap.add_argument("--kinds", default="")
    ap.add_argument("--out", default="")
    ap.add_argument("--list", action="store_true")
    args = ap.parse_args()
    pid = args.pid.upper()
    rng = random.Random(args.seed)
    allm = []
    for f, rs in anchor_ranges(pid).items():
        rs2 = map_ranges(f, rs)
        src = (REPO / f).read_text()
        seen = set()
        for kind, span, txt, desc in enumerate_mutants(src, rs2):
            try:
                new = splice(src, span, txt)
                ast.parse(new)
            except Exception:  # noqa: BLE001
                continue
            if new == src or hash(new) in seen:
                continue
            seen.add(hash(new))
            allm.append((f, kind, span, txt, desc, new))
    if args.kinds:
        ks = set(args.kinds.split(","))
        allm = [m for m in allm if m[1] in ks]
    bykind = {}
    for m in allm:
        bykind.setdefault(m[1], []).append(m)
    print(f"{pid}: {len(allm)} candidate mutants: " + ", ".join(f"{k}={len(v)}" for k, v in sorted(bykind.items())), flush=True)
    if args.list:
        return
    # stratified choice
    for v in bykind.values():
        rng.shuffle(v)
    chosen = []
    while len(chosen) < args.n and any(bykind.values()):
        for k in sorted(bykind):
            if bykind[k] and len(chosen) < args.n:
                chosen.append(bykind[k].pop())
    SCR.mkdir(exist_ok=True)
    out = open(args.out or (SCR / f"{pid}.jsonl"), "a")
    for i, (f, kind, span, txt, desc, new) in enumerate(chosen):
        name = f"{pid}_{os.getpid()}_{i}"
        d = make_scratch(name, f, new)
        try:
            diff = subprocess.run(["diff", "-u", str(REPO / f), str(d / f)], capture_output=True, text=True).stdout
            rc, kinds, tail = run_check(pid, d, args.tier)
            if rc == 1:
                verdict = "caught:" + ";".join(kinds)
            elif rc == 0:
                ok, ttail = run_tests(d)
                verdict = "SURVIVOR" if ok else "tests-only"
            else:
                verdict = f"machinery-exit-{rc}"
            rec = {"pid": pid, "file": f, "line": span[0], "kind": kind, "desc": desc, "verdict": verdict, "diff": diff,
                   "tail": tail if rc not in (0, 1) else ""}
            out.write(json.dumps(rec) + "\n")
            out.flush()
            print(f"[{i + 1}/{len(chosen)}] {f.split('/')[-1]}:{span[0]} {kind} ({desc}) -> {verdict}", flush=True)
        finally:
            shutil.rmtree(d, ignore_errors=True)


if __name__ == "__main__":
    main()

#!/usr/bin/env python3
"""Coordinator helper: run a property's check against seeded changes.

  tools/try_seeded.py C02 /tmp/wt/c02_out          # candidates m1..m4 from a seeding agent (scratch copy + VERIF_REPO)
  tools/try_seeded.py C02 --stored [--in-repo]     # the stored seeded/C02-m*/ (optionally applied to /repo itself and undone)
  tools/try_seeded.py C02 /tmp/wt/c02_out --store "m1=caught: ..." "m2=MISSED ..."   # copy into /verif/seeded with meta
"""
import json, os, shutil, subprocess, sys, tempfile
from pathlib import Path

VERIF = Path(__file__).resolve().parent.parent


def run_check(pid, repo=None, tier="quick"):
    env = dict(os.environ)
    if repo:
        env["VERIF_REPO"] = str(repo)
    p = subprocess.run([str(VERIF / "tools/check.py"), pid, "--tier", tier], cwd=VERIF, env=env, capture_output=True, text=True)
    lines = [l for l in p.stdout.splitlines() if l.startswith(("VIOLATION", "KNOWN-FINDING")) or f"{pid} {tier}:" in l]
    # remove only the replays this run created
    for l in lines:
        if l.startswith("VIOLATION"):
            rp = VERIF / l.split("replay=")[1].split()[0]
            info = ""
            try:
                r = json.loads(rp.read_text())
                info = f"  [{r.get('kind')} stream={r.get('stream')} input={str(r.get('input'))[:100]}]"
                rp.unlink()
            except Exception:
                pass
            lines[lines.index(l)] = l + info
    return p.returncode, [l[:260] for l in lines]


def main():
    pid = sys.argv[1].upper()
    args = sys.argv[2:]
    if "--stored" in args:
        dirs = sorted((VERIF / "seeded").glob(f"{pid}-m*"))
    else:
        out = Path(args[0])
        dirs = sorted(d for d in out.glob("m*") if (d / "patch.diff").exists())
    if "--store" in args:
        notes = dict(a.split("=", 1) for a in args[args.index("--store") + 1:])
        for d in dirs:
            dst = VERIF / "seeded" / f"{pid}-{d.name}"
            dst.mkdir(parents=True, exist_ok=True)
            shutil.copy(d / "patch.diff", dst)
            shutil.copy(d / "demo.py", dst)
            meta = json.loads((d / "meta.json").read_text())
            meta["property"] = pid
            meta["confirmed"] = ("patch applies to /repo HEAD; pinned test suite passes with it (run by the seeding agent in its own worktree); "
                                 "demo.py exits non-zero with it and 0 without (re-run by the coordinator)")
            meta["ran"] = f"scratch copy of /repo + patch: VERIF_REPO=<copy> tools/check.py {pid} --tier quick"
            meta["detected_by"] = notes.get(d.name, "")
            (dst / "meta.json").write_text(json.dumps(meta, indent=1))
        print("stored", [d.name for d in dirs])
        return
    in_repo = "--in-repo" in args
    if "--only" in args:
        only = set(args[args.index("--only") + 1].split(","))
        dirs = [d for d in dirs if d.name.split("-")[-1] in only]
    for d in dirs:
        patch = d / "patch.diff"
        if in_repo:
            subprocess.run(["git", "-C", "/repo", "apply", str(patch)], check=True)
            try:
                rc, lines = run_check(pid)
            finally:
                subprocess.run(["git", "-C", "/repo", "checkout", "--", "."], check=True)
        else:
            tmp = Path(tempfile.mkdtemp(prefix="seed_", dir="/tmp"))
            try:
                subprocess.run(["git", "-C", "/repo", "worktree", "add", "-q", "--detach", str(tmp / "repo"), "HEAD"], check=True)
                subprocess.run(["git", "-C", str(tmp / "repo"), "apply", str(patch)], check=True)
                # demo must fail with the change
                dm = subprocess.run(["/venv/bin/python", str(d / "demo.py")], env=dict(os.environ, PYTHONPATH=str(tmp / "repo")), capture_output=True, text=True, cwd=str(tmp / "repo"))
                d0 = subprocess.run(["/venv/bin/python", str(d / "demo.py")], env=dict(os.environ, PYTHONPATH="/repo"), capture_output=True, text=True, cwd="/repo")
                rc, lines = run_check(pid, tmp / "repo")
                lines.insert(0, f"demo: with-change rc={dm.returncode} unchanged rc={d0.returncode}")
            finally:
                subprocess.run(["git", "-C", "/repo", "worktree", "remove", "--force", str(tmp / "repo")])
                shutil.rmtree(tmp, ignore_errors=True)
        print(f"== {pid} {d.name}: exit={rc}")
        for l in lines:
            print("   ", l)


if __name__ == "__main__":
    main()

"""py2lean — translator from (a pure subset of) Python function *source* to Lean 4 definitions.

Used by the translator plug-ins `tools/gen/py_*.py`: on every run the functions named there are read from /repo's
working tree (`inspect.getsource` of the imported object → `ast`), translated statement by statement into a `do` block
of the `Py = Except PyExc` monad over the operations of `lean/CsVerif/Model/PyRt.lean`, and written to
`lean/CsVerif/Gen/Py*.lean`.  The property files then prove `Gen.<f> = <hand-written model of f>` for all arguments,
so every theorem about the model is a theorem about what the source says *now*; a construct outside the subset raises
`Unsupported` (→ proof obligation broken, never silently skipped).

Subset: positional/keyword parameters with annotations `bytes | int | str | bool` (a `None` default makes the type
`Option _`), assignments to names, augmented assignments, `if/elif/else`, `for x in <bytes | list | range(...)>`, `return`,
`raise <Exception>(...)`, `list.append`, the idiom `if p is None: p = e` for a `None`-defaulted parameter; expressions:
names, int/bytes/str/bool/None literals, `+ - * // % & | ^ << >>`, comparisons, `and/or/not` in boolean position,
conditional expressions, indexing and slicing (no step), calls of `len sum bytes bytearray bool range map(ord, ·)`,
`int.from_bytes`, `int.to_bytes` / `n.to_bytes`, `n.bit_length`, `s.replace(c, "")`, `re.match(<literal>, s)`, other
functions of the same unit, and registered external functions (passed to the definition as parameters).
Semantics notes: evaluation order is left to right and every raising operation is bound in sequence (A-normal form), `and` /
`or` evaluate their right operand only when needed.
"""
from __future__ import annotations

import ast
import functools
import inspect
import textwrap


class Unsupported(Exception):
    pass


LEAN_KEYWORDS = {"from", "at", "end", "open", "in", "do", "then", "else", "if", "let", "fun", "match", "with", "where", "have", "show",
                 "by", "def", "theorem", "namespace", "section", "variable", "universe", "instance", "class", "structure", "inductive",
                 "import", "export", "private", "protected", "mutual", "deriving", "return", "for", "unless", "mut", "try", "catch",
                 "finally", "throw", "type", "Type", "Prop", "Sort", "s", "len", "sum", "add", "mul", "iter", "truthy", "getItem", "slice"}

EXC = {"ValueError": "PyExc.valueError", "EOFError": "PyExc.eofError", "OSError": "PyExc.osError", "IndexError": "PyExc.indexError",
       "KeyError": "PyExc.keyError", "AttributeError": "PyExc.attributeError", "OverflowError": "PyExc.overflowError",
       "TypeError": "PyExc.typeError", "ZeroDivisionError": "PyExc.zeroDivisionError"}

ANN = {"bytes": "Bytes", "int": "Int", "str": "Str", "bool": "Bool"}


def lname(n: str) -> str:
    return n + "_" if n in LEAN_KEYWORDS else n


def str_lit(v: str) -> str:
    if all(32 <= ord(c) < 127 and c not in '"\\' for c in v):
        return f'(s "{v}")'
    return "([" + ", ".join(str(ord(c)) for c in v) + "] : Str)"


def bytes_lit(v: bytes) -> str:
    return "([" + ", ".join(str(b) for b in v) + "] : Bytes)"


class Sig:
    def __init__(self, name, params, ret, externs):
        self.name = name          # Lean name
        self.params = params      # [(python name, lean type, default term or None)]
        self.ret = ret            # lean type inside Py
        self.externs = externs    # [(lean param name, lean type)] prepended parameters


class Unit:
    """a set of functions translated together (they may call one another)"""

    def __init__(self, namespace: str, externs: dict | None = None):
        self.namespace = namespace
        # externs: python template with `_` holes -> (lean head term, monadic?, [(lean parameter name, lean type)]);
        # e.g. "hashlib.sha256(_).digest()": ("sha256", False, [("sha256", "Bytes → Bytes")])
        self.externs = externs or {}
        self.sigs: dict[str, Sig] = {}
        self.defs: list[str] = []
        self.sources: dict[str, str] = {}
        self.records: dict[str, list] = {}     # python class name -> [(field, lean type)]
        self.methods: dict[str, str] = {}      # method name -> key in self.sigs
        self.imports: list[str] = []

    def use(self, other: "Unit", module: str):
        """make the functions of another translated unit callable (qualified Lean names)"""
        self.imports.append(module)
        for k, sg in other.sigs.items():
            q = Sig(f"{other.namespace}.{sg.name}", sg.params, sg.ret, list(sg.externs))
            self.sigs.setdefault(k, q)

    def declare_record(self, cls):
        """a typing.NamedTuple class -> a Lean structure with the same field order"""
        fields = []
        anns = getattr(cls, "__annotations__", {})
        for f in cls._fields:
            a = anns.get(f)
            a = getattr(a, "__forward_arg__", a)
            node = ast.parse(a, mode="eval").body if isinstance(a, str) else None
            if node is None:
                node = ast.Name(id=getattr(a, "__name__", str(a)), ctx=ast.Load())
            fields.append((f, self._ann(node)))
        self.records[cls.__name__] = fields
        body = "\n".join(f"  {lname(f)} : {t}" for f, t in fields)
        self.defs.append(f"/-- `class {cls.__name__}(NamedTuple)` -/\nstructure {cls.__name__} where\n{body}\n  deriving DecidableEq, Repr\n")

    # ---- types ---------------------------------------------------------------------------------------------------
    def _ann(self, node, default_none=False):
        if node is None:
            raise Unsupported("parameter without annotation")
        t = None
        if isinstance(node, ast.Constant) and isinstance(node.value, str):
            node = ast.parse(node.value, mode="eval").body
        if isinstance(node, ast.Name) and node.id in self.records:
            t = node.id
        elif isinstance(node, ast.Name) and node.id in ANN:
            t = ANN[node.id]
        elif isinstance(node, ast.Subscript) and ast.unparse(node.value) in ("Optional", "typing.Optional"):
            return f"Option {self._ann(node.slice)}"
        elif isinstance(node, ast.Subscript) and ast.unparse(node.value) in ("Tuple", "typing.Tuple", "tuple"):
            elts = node.slice.elts if isinstance(node.slice, ast.Tuple) else [node.slice]
            return "(" + " × ".join(self._ann(e) for e in elts) + ")"
        elif isinstance(node, ast.Subscript) and ast.unparse(node.value) in ("List", "typing.List", "list"):
            return f"(List {self._ann(node.slice)})"
        if t is None:
            raise Unsupported(f"annotation {ast.unparse(node)}")
        return f"Option {t}" if default_none else t

    def _const_type(self, v):
        if isinstance(v, bool):
            return "Bool"
        if isinstance(v, int):
            return "Int"
        if isinstance(v, bytes):
            return "Bytes"
        if isinstance(v, str):
            return "Str"
        raise Unsupported(f"default value {v!r}")

    def const_term(self, v, typ=None):
        if v is None:
            return "none"
        if isinstance(v, bool):
            t = "true" if v else "false"
        elif isinstance(v, int):
            t = f"({v} : Int)" if v >= 0 else f"(-{-v} : Int)"
        elif isinstance(v, bytes):
            t = bytes_lit(v)
        elif isinstance(v, str):
            t = str_lit(v)
        else:
            raise Unsupported(f"constant {v!r}")
        if typ is not None and typ.startswith("Option "):
            return f"(some {t})"
        return t

    # ---- declaration ------------------------------------------------------------------------------------------------
    def declare(self, fn, lean_name=None, self_type=None, ret=None):
        """register the signature of `fn` (so that other functions can call it) and keep its AST"""
        src = textwrap.dedent(inspect.getsource(fn))
        mod = ast.parse(src)
        if len(mod.body) != 1 or not isinstance(mod.body[0], ast.FunctionDef):
            raise Unsupported(f"cannot isolate the definition of {fn!r}")
        fd = mod.body[0]
        if fd.decorator_list:
            raise Unsupported(f"{fd.name}: decorators")
        a = fd.args
        if a.vararg or a.kwarg or a.posonlyargs:
            raise Unsupported(f"{fd.name}: *args / **kwargs / positional-only parameters")
        params = []
        pos = a.args
        defaults = [None] * (len(pos) - len(a.defaults)) + list(a.defaults)
        none_tested = {n.left.id for n in ast.walk(fd) if isinstance(n, ast.Compare) and isinstance(n.left, ast.Name) and len(n.ops) == 1
                       and isinstance(n.ops[0], (ast.Is, ast.IsNot)) and isinstance(n.comparators[0], ast.Constant)
                       and n.comparators[0].value is None}
        for k, (p, d) in enumerate(list(zip(pos, defaults)) + list(zip(a.kwonlyargs, a.kw_defaults))):
            dterm = None
            if k == 0 and self_type is not None:
                if p.arg != "self" or d is not None:
                    raise Unsupported(f"{fd.name}: first parameter of a method is not `self`")
                params.append((p.arg, self_type, None))
                continue
            if d is not None:
                if not isinstance(d, ast.Constant):
                    # a module-level constant: evaluate it in the function's globals
                    try:
                        dv = eval(compile(ast.Expression(d), "<default>", "eval"), fn.__globals__)  # noqa: S307
                    except Exception as e:  # noqa: BLE001
                        raise Unsupported(f"{fd.name}: default of {p.arg}: {e}") from e
                else:
                    dv = d.value
                if dv is None:
                    typ = self._ann(p.annotation, default_none=True)
                else:
                    typ = self._ann(p.annotation) if p.annotation is not None else self._const_type(dv)
                dterm = self.const_term(dv, typ)
            else:
                typ = self._ann(p.annotation)
            if p.arg not in none_tested and not typ.startswith("Option ") and self._only_passed_to_option(fd, p.arg):
                none_tested.add(p.arg)
            if p.arg in none_tested and not typ.startswith("Option "):
                typ = f"Option {typ}"      # the body compares the parameter with None: callers may pass None
                if dterm is not None and dterm != "none":
                    dterm = f"(some {dterm})"
            params.append((p.arg, typ, dterm))
        if ret is not None and fd.returns is None:
            pass        # result type supplied by the plug-in for a function without return annotation
        elif fd.returns is None:
            if any(isinstance(n, ast.Return) and n.value is not None for n in ast.walk(fd)):
                raise Unsupported(f"{fd.name}: returns a value but has no return annotation")
            ret = "Unit"
        else:
            ret = self._ann(fd.returns)
        name = lean_name or fd.name
        key = fd.name if self_type is None else f"{self_type}.{fd.name}"
        self.sigs[key] = Sig(name, params, ret, [])
        if self_type is not None:
            if fd.name in self.methods:
                raise Unsupported(f"method name {fd.name} is not unique in the unit")
            self.methods[fd.name] = key
        self.sources[key] = src
        fd._key = key
        return fd

    def _only_passed_to_option(self, fd, pname) -> bool:
        """every use of the parameter is as a direct argument of a translated function whose parameter accepts None"""
        uses = [n for n in ast.walk(fd) if isinstance(n, ast.Name) and n.id == pname and isinstance(n.ctx, ast.Load)]
        if not uses or any(isinstance(n, ast.Name) and n.id == pname and isinstance(n.ctx, ast.Store) for n in ast.walk(fd)):
            return False
        ok = set()
        for c in ast.walk(fd):
            if isinstance(c, ast.Call) and isinstance(c.func, ast.Name) and c.func.id in self.sigs:
                sg = self.sigs[c.func.id]
                for k, a in enumerate(c.args):
                    if a in uses and k < len(sg.params) and sg.params[k][1].startswith("Option "):
                        ok.add(id(a))
                for kw_ in c.keywords:
                    t = next((t for n, t, _ in sg.params if n == kw_.arg), "")
                    if kw_.value in uses and t.startswith("Option "):
                        ok.add(id(kw_.value))
        return all(id(u) in ok for u in uses)

    def declare_partial(self, pyname, part: functools.partial):
        """`name = partial(f, **kw)` of a declared function"""
        base = part.func.__name__
        if base not in self.sigs or part.args:
            raise Unsupported(f"partial {pyname}: base function {base} not translated / positional arguments")
        bs = self.sigs[base]
        fixed = {}
        for k, v in part.keywords.items():
            typ = next((t for n, t, _ in bs.params if n == k), None)
            if typ is None:
                raise Unsupported(f"partial {pyname}: no parameter {k}")
            fixed[k] = self.const_term(v, typ)
        params = [(n, t, d) for n, t, d in bs.params if n not in fixed]
        self.sigs[pyname] = Sig(pyname, params, bs.ret, [])
        args = " ".join(fixed.get(n, lname(n)) for n, _, _ in bs.params)
        ext = "".join(f" {e}" for e, _ in bs.externs)
        binders = "".join(f" ({e} : {t})" for e, t in bs.externs) + "".join(f" ({lname(n)} : {t})" for n, t, _ in params)
        self.sigs[pyname].externs = list(bs.externs)
        self.defs.append(f"/-- `{pyname} = partial({base}, {', '.join(f'{k}={v!r}' for k, v in part.keywords.items())})` -/\n"
                         f"def {lname(pyname)}{binders} : Py {bs.ret} := {bs.name}{ext} {args}\n")

    # ---- translation ------------------------------------------------------------------------------------------------
    def translate(self, fn, lean_name=None, self_type=None, ret=None):
        fd = self.declare(fn, lean_name, self_type, ret)
        sig = self.sigs[fd._key]
        tr = _Fn(self, fd, sig)
        body = tr.run()
        sig.externs = tr.used_externs
        binders = "".join(f" ({e} : {t})" for e, t in sig.externs) + "".join(f" ({lname(n)} : {t})" for n, t, _ in sig.params)
        doc = f"/-- translated from `{fn.__module__}.{fn.__qualname__}`"
        dflt = [f"{n}={d}" for n, _, d in sig.params if d is not None]
        if dflt:
            doc += "; defaults: " + ", ".join(dflt)
        doc += " -/"
        self.defs.append(f"{doc}\ndef {sig.name}{binders} : Py {sig.ret} := do\n" + "\n".join(body) + "\n")
        return sig

    def render(self, header: str) -> str:
        imps = "".join(f"import {m}\n" for m in self.imports)
        out = [f"import CsVerif.Model.PyRt\n{imps}/-! {header}\nGENERATED by tools/py2lean.py from the working tree of /repo — do not edit. -/",
               f"namespace {self.namespace}", "open PyRt", ""]
        out += self.defs
        out.append(f"end {self.namespace}")
        return "\n".join(out) + "\n"


class _Fn:
    def __init__(self, unit: Unit, fd: ast.FunctionDef, sig: Sig):
        self.u = unit
        self.fd = fd
        self.sig = sig
        self.tmp = 0
        self.used_externs: list = []
        self.declared: set[str] = {p for p, _, _ in sig.params}
        self.ptypes = {p: t for p, t, _ in sig.params}

    def fresh(self):
        self.tmp += 1
        return f"t{self.tmp}"

    # ---- expressions: return (prelude lines, term, is_bool) ----------------------------------------------------------
    def expr(self, n, ind) -> tuple[list, str, bool]:
        P = " " * ind
        if isinstance(n, ast.Constant):
            if n.value is None:
                return [], "none", False
            if isinstance(n.value, bool):
                return [], "true" if n.value else "false", True
            return [], self.u.const_term(n.value), False
        if isinstance(n, ast.Name):
            if n.id not in self.declared:
                raise Unsupported(f"{self.fd.name}: free name {n.id}")
            return [], lname(n.id), self.ptypes.get(n.id) == "Bool"
        if isinstance(n, ast.BinOp):
            pa, a, _ = self.expr(n.left, ind)
            pb, b, _ = self.expr(n.right, ind)
            pre = pa + pb
            lit = n.right.value if isinstance(n.right, ast.Constant) and isinstance(n.right.value, int) and not isinstance(n.right.value, bool) else None
            op = type(n.op)
            if op is ast.Add:
                return pre, f"(add {a} {b})", False
            if op is ast.Sub:
                return pre, f"({a} - {b})", False
            if op is ast.Mult:
                return pre, f"(mul {a} {b})", False
            if op in (ast.FloorDiv, ast.Mod):
                if lit is not None and lit > 0:
                    return pre, f"({a} {'/' if op is ast.FloorDiv else '%'} ({lit} : Int))", False
                t = self.fresh()
                return pre + [f"{P}let {t} ← {'floordiv' if op is ast.FloorDiv else 'mod'} {a} {b}"], t, False
            if op is ast.BitAnd:
                return pre, f"(band {a} {b})", False
            if op is ast.BitOr:
                return pre, f"(bor {a} {b})", False
            if op is ast.BitXor:
                return pre, f"(bxor {a} {b})", False
            if op in (ast.LShift, ast.RShift):
                if lit is not None and 0 <= lit <= 64:
                    return pre, (f"({a} * ({2 ** lit} : Int))" if op is ast.LShift else f"({a} / ({2 ** lit} : Int))"), False
                t = self.fresh()
                return pre + [f"{P}let {t} ← {'shl' if op is ast.LShift else 'shr'} {a} {b}"], t, False
            raise Unsupported(f"{self.fd.name}: operator {op.__name__}")
        if isinstance(n, ast.UnaryOp):
            pa, a, ab = self.expr(n.operand, ind)
            if isinstance(n.op, ast.Not):
                return pa, f"(!{a if ab else f'(truthy {a})'})", True
            if isinstance(n.op, ast.USub):
                return pa, f"(-{a})", False
            raise Unsupported(f"{self.fd.name}: unary operator")
        if isinstance(n, ast.Compare):
            if len(n.ops) != 1:
                raise Unsupported(f"{self.fd.name}: chained comparison")
            pa, a, _ = self.expr(n.left, ind)
            op, rhs = n.ops[0], n.comparators[0]
            if isinstance(op, (ast.Is, ast.IsNot)):
                if not (isinstance(rhs, ast.Constant) and rhs.value is None):
                    raise Unsupported(f"{self.fd.name}: `is` with something other than None")
                return pa, f"(Option.{'isNone' if isinstance(op, ast.Is) else 'isSome'} {a})", True
            if isinstance(op, (ast.In, ast.NotIn)):
                if not isinstance(rhs, (ast.Tuple, ast.List)) or not all(isinstance(e, ast.Constant) for e in rhs.elts):
                    raise Unsupported(f"{self.fd.name}: `in` with a non-literal container")
                items = ", ".join(self.u.const_term(e.value) for e in rhs.elts)
                t = f"(List.elem {a} [{items}])"
                return pa, (t if isinstance(op, ast.In) else f"(!{t})"), True
            pb, b, _ = self.expr(rhs, ind)
            sym = {ast.Eq: "==", ast.NotEq: "!=", ast.Lt: "<", ast.LtE: "≤", ast.Gt: ">", ast.GtE: "≥"}.get(type(op))
            if sym is None:
                raise Unsupported(f"{self.fd.name}: comparison {type(op).__name__}")
            if sym in ("==", "!="):
                return pa + pb, f"({a} {sym} {b})", True
            return pa + pb, f"(decide ({a} {sym} {b}))", True
        if isinstance(n, ast.BoolOp):
            # short-circuit: the result is the truth value (boolean positions only)
            is_and = isinstance(n.op, ast.And)
            pa, a, ab = self.expr(n.values[0], ind)
            cur = a if ab else f"(truthy {a})"
            pre = list(pa)
            for v in n.values[1:]:
                pv, t, tb = self.expr(v, ind + 2)
                tv = t if tb else f"(truthy {t})"
                if not pv:
                    cur = f"({cur} {'&&' if is_and else '||'} {tv})"
                else:
                    r = self.fresh()
                    pre.append(f"{P}let mut {r} := {cur}")
                    pre.append(f"{P}if {r if is_and else f'(!{r})'} then")
                    pre += pv
                    pre.append(f"{P}  {r} := {tv}")
                    cur = r
            return pre, cur, True
        if isinstance(n, ast.IfExp):
            pc, c, cb = self.expr(n.test, ind)
            pa, a, ab = self.expr(n.body, ind)
            pb, b, _ = self.expr(n.orelse, ind)
            if pa or pb:
                raise Unsupported(f"{self.fd.name}: conditional expression with raising branches")
            return pc, f"(if {c if cb else f'(truthy {c})'} then {a} else {b})", ab
        if isinstance(n, ast.Subscript):
            pa, a, _ = self.expr(n.value, ind)
            if isinstance(n.slice, ast.Slice):
                if n.slice.step is not None:
                    raise Unsupported(f"{self.fd.name}: slice with a step")
                pl, lo, _ = self.expr(n.slice.lower, ind) if n.slice.lower is not None else ([], "noBound", False)
                ph, hi, _ = self.expr(n.slice.upper, ind) if n.slice.upper is not None else ([], "noBound", False)
                return pa + pl + ph, f"(slice {a} {lo} {hi})", False
            pi, i, _ = self.expr(n.slice, ind)
            t = self.fresh()
            return pa + pi + [f"{P}let {t} ← getItem {a} {i}"], t, False
        if isinstance(n, ast.Tuple):
            pre, terms = [], []
            for e in n.elts:
                pe, t, _ = self.expr(e, ind)
                pre += pe
                terms.append(t)
            return pre, "(" + ", ".join(terms) + ")", False
        if isinstance(n, ast.Call):
            return self.call(n, ind)
        if isinstance(n, ast.Attribute) and any(n.attr == f for fs in self.u.records.values() for f, _ in fs):
            po, o, _ = self.expr(n.value, ind)
            return po, f"{o}.{lname(n.attr)}", False
        raise Unsupported(f"{self.fd.name}: expression {type(n).__name__}: {ast.unparse(n)[:60]}")

    def kw(self, n: ast.Call, names, defaults):
        """bind positional + keyword arguments of a call to `names`; missing ones take `defaults[name]` (a Lean term)"""
        vals = {}
        if len(n.args) > len(names):
            raise Unsupported(f"{self.fd.name}: too many arguments in {ast.unparse(n)[:60]}")
        for nm, a in zip(names, n.args):
            vals[nm] = a
        for k in n.keywords:
            if k.arg is None or k.arg not in names or k.arg in vals:
                raise Unsupported(f"{self.fd.name}: keyword argument {k.arg} in {ast.unparse(n)[:60]}")
            vals[k.arg] = k.value
        return [vals.get(nm, defaults.get(nm)) for nm in names]

    def args_terms(self, items, ind, types=None):
        pre, terms = [], []
        for k, it in enumerate(items):
            if it is None:
                raise Unsupported(f"{self.fd.name}: missing argument")
            if isinstance(it, str):
                terms.append(it)
                continue
            p, t, _ = self.expr(it, ind)
            if types and types[k].startswith("Option ") and not (isinstance(it, ast.Constant) and it.value is None) \
                    and not (isinstance(it, ast.Name) and self.ptypes.get(it.id, "").startswith("Option ")):
                t = f"(some {t})"
            pre += p
            terms.append(t)
        return pre, terms

    def call(self, n: ast.Call, ind):
        P = " " * ind
        f = n.func
        src = ast.unparse(f)
        # registered external functions, matched on the unparsed call with `_` for the arguments
        for templ, (head, monadic, eparams) in self.u.externs.items():
            m = _match_template(templ, n)
            if m is not None:
                for ep in eparams:
                    if ep not in self.used_externs:
                        self.used_externs.append(ep)
                pre, terms = self.args_terms(m, ind)
                if monadic:
                    t = self.fresh()
                    return pre + [f"{P}let {t} ← {head} {' '.join(terms)}"], t, False
                return pre, f"({head} {' '.join(terms)})", False
        if isinstance(f, ast.Name) and f.id in self.u.records:
            fields = self.u.records[f.id]
            items = self.kw(n, [fn_ for fn_, _ in fields], {})
            pre, terms = self.args_terms(items, ind, [t for _, t in fields])
            return pre, f"({f.id}.mk {' '.join(terms)})", False
        if isinstance(f, ast.Attribute) and f.attr in self.u.methods:
            sg = self.u.sigs[self.u.methods[f.attr]]
            po, o, _ = self.expr(f.value, ind)
            names = [p for p, _, _ in sg.params][1:]
            items = self.kw(n, names, {p: d for p, _, d in sg.params if d is not None})
            pre, terms = self.args_terms(items, ind, [t for _, t, _ in sg.params][1:])
            for e in sg.externs:
                if e not in self.used_externs:
                    self.used_externs.append(e)
            t = self.fresh()
            ext = "".join(f" {e}" for e, _ in sg.externs)
            return po + pre + [f"{P}let {t} ← {sg.name}{ext} {o} {' '.join(terms)}"], t, sg.ret == "Bool"
        if isinstance(f, ast.Name):
            if f.id in ("len", "sum", "bytearray", "bool") and len(n.args) == 1 and not n.keywords:
                arg = n.args[0]
                if f.id == "sum" and isinstance(arg, ast.Call) and ast.unparse(arg.func) == "map" and len(arg.args) == 2 \
                        and ast.unparse(arg.args[0]) == "ord":
                    pa, a, _ = self.expr(arg.args[1], ind)
                    return pa, f"(sum (mapOrd {a}))", False
                pa, a, ab = self.expr(arg, ind)
                if f.id == "bool":
                    return pa, (a if ab else f"(truthy {a})"), True
                return pa, f"({f.id} {a})", False
            if f.id == "bytes" and len(n.args) == 1 and not n.keywords:
                pa, a, _ = self.expr(n.args[0], ind)
                t = self.fresh()
                return pa + [f"{P}let {t} ← bytesOfInts {a}"], t, False
            if f.id in self.u.sigs:
                sg = self.u.sigs[f.id]
                names = [p for p, _, _ in sg.params]
                items = self.kw(n, names, {p: d for p, _, d in sg.params if d is not None})
                pre, terms = self.args_terms(items, ind, [t for _, t, _ in sg.params])
                for e in sg.externs:
                    if e not in self.used_externs:
                        self.used_externs.append(e)
                t = self.fresh()
                ext = "".join(f" {e}" for e, _ in sg.externs)
                return pre + [f"{P}let {t} ← {sg.name}{ext} {' '.join(terms)}"], t, sg.ret == "Bool"
            raise Unsupported(f"{self.fd.name}: call of {f.id}")
        if src == "int.from_bytes":
            items = self.kw(n, ["bytes", "byteorder", "signed"], {"byteorder": '(s "big")', "signed": "false"})
            pre, terms = self.args_terms(items, ind)
            t = self.fresh()
            return pre + [f"{P}let {t} ← intFromBytes {' '.join(terms)}"], t, False
        if src == "int.to_bytes":
            items = self.kw(n, ["self", "length", "byteorder", "signed"], {"length": "(1 : Int)", "byteorder": '(s "big")', "signed": "false"})
            pre, terms = self.args_terms(items, ind)
            t = self.fresh()
            return pre + [f"{P}let {t} ← intToBytes {' '.join(terms)}"], t, False
        if src == "re.match" and len(n.args) == 2 and not n.keywords:
            pre, terms = self.args_terms(list(n.args), ind)
            t = self.fresh()
            return pre + [f"{P}let {t} ← reMatch {' '.join(terms)}"], t, False
        if isinstance(f, ast.Attribute):
            po, o, _ = self.expr(f.value, ind)
            if f.attr == "to_bytes":
                items = self.kw(n, ["length", "byteorder", "signed"], {"length": "(1 : Int)", "byteorder": '(s "big")', "signed": "false"})
                pre, terms = self.args_terms(items, ind)
                t = self.fresh()
                return po + pre + [f"{P}let {t} ← intToBytes {o} {' '.join(terms)}"], t, False
            if f.attr == "bit_length" and not n.args and not n.keywords:
                return po, f"(bitLength {o})", False
            if f.attr == "replace" and len(n.args) == 2 and not n.keywords and all(isinstance(a, ast.Constant) for a in n.args) \
                    and isinstance(n.args[0].value, str) and len(n.args[0].value) == 1 and n.args[1].value == "":
                return po, f"(strRemoveChar {o} {ord(n.args[0].value)})", False
        raise Unsupported(f"{self.fd.name}: call {ast.unparse(n)[:70]}")

    # ---- statements ---------------------------------------------------------------------------------------------------
    def cond(self, test, ind):
        p, t, b = self.expr(test, ind)
        return p, (t if b else f"(truthy {t})")

    def block(self, stmts, ind) -> tuple[list, bool]:
        """lines of a block; second component: every path through the block ends in return/raise"""
        P = " " * ind
        out = []
        term = False
        for st in stmts:
            if term:
                raise Unsupported(f"{self.fd.name}: unreachable statement after return/raise")
            if isinstance(st, ast.Expr) and isinstance(st.value, ast.Constant) and isinstance(st.value.value, str):
                continue  # docstring
            if isinstance(st, ast.Return):
                if st.value is None:
                    raise Unsupported(f"{self.fd.name}: bare return")
                p, t, _ = self.expr(st.value, ind)
                out += p + [f"{P}return {t}"]
                term = True
            elif isinstance(st, ast.Raise):
                exc = st.exc
                name = exc.func.id if isinstance(exc, ast.Call) and isinstance(exc.func, ast.Name) else (exc.id if isinstance(exc, ast.Name) else None)
                if name not in EXC or st.cause is not None:
                    raise Unsupported(f"{self.fd.name}: raise {ast.unparse(st)[:60]}")
                out.append(f"{P}throw {EXC[name]}")
                term = True
            elif isinstance(st, ast.Assign):
                if len(st.targets) != 1 or not isinstance(st.targets[0], ast.Name):
                    raise Unsupported(f"{self.fd.name}: assignment target {ast.unparse(st.targets[0])[:40]}")
                v = st.targets[0].id
                if isinstance(st.value, ast.List) and not st.value.elts:
                    p, t = [], "[]"
                else:
                    p, t, _ = self.expr(st.value, ind)
                out += p
                if v in self.declared:
                    out.append(f"{P}{lname(v)} := {t}")
                else:
                    self.declared.add(v)
                    out.append(f"{P}let mut {lname(v)} := {t}")
            elif isinstance(st, ast.AugAssign):
                if not isinstance(st.target, ast.Name) or st.target.id not in self.declared:
                    raise Unsupported(f"{self.fd.name}: augmented assignment to {ast.unparse(st.target)[:40]}")
                p, t, _ = self.expr(ast.BinOp(left=ast.Name(id=st.target.id, ctx=ast.Load()), op=st.op, right=st.value), ind)
                out += p + [f"{P}{lname(st.target.id)} := {t}"]
            elif isinstance(st, ast.Expr) and isinstance(st.value, ast.Call) and isinstance(st.value.func, ast.Attribute) \
                    and st.value.func.attr == "append" and isinstance(st.value.func.value, ast.Name) and len(st.value.args) == 1:
                v = st.value.func.value.id
                if v not in self.declared:
                    raise Unsupported(f"{self.fd.name}: append to unknown list {v}")
                p, t, _ = self.expr(st.value.args[0], ind)
                out += p + [f"{P}{lname(v)} := {lname(v)} ++ [{t}]"]
            elif isinstance(st, ast.Expr) and isinstance(st.value, ast.Call):
                p, t, _ = self.expr(st.value, ind)
                if p and p[-1].strip().startswith(f"let {t} ← "):
                    p[-1] = p[-1].replace(f"let {t} ← ", "let _ ← ", 1)
                out += p       # the call is bound in the prelude; its value is discarded
            elif isinstance(st, ast.If) and self.guard_idiom(st):
                v, kind, exc = self.guard_idiom(st)
                inner = self.ptypes[v][len("Option "):]
                out.append(f"{P}let {lname(v)} : {inner} ← (match {lname(v)} with")
                if kind == "none":
                    out.append(f"{P}  | some v => pure v")
                else:
                    out.append(f"{P}  | some v => if truthy v then pure v else throw {exc}")
                out.append(f"{P}  | none => throw {exc})")
                self.ptypes[v] = inner
            elif isinstance(st, ast.If):
                idiom = self.none_default_idiom(st)
                if idiom:
                    v, value = idiom
                    p, t, _ = self.expr(value, ind + 4)
                    inner = self.ptypes[v][len("Option "):]
                    out.append(f"{P}let mut {lname(v)} : {inner} ← (match {lname(v)} with")
                    out.append(f"{P}  | some v => pure v")
                    out.append(f"{P}  | none => do")
                    out += p + [f"{P}    pure {t})"]
                    self.ptypes[v] = inner
                    continue
                p, c = self.cond(st.test, ind)
                out += p
                saved = set(self.declared)
                saved_t = dict(self.ptypes)
                body, tb = self.block(st.body, ind + 2)
                self.declared = set(saved)
                self.ptypes = dict(saved_t)
                out.append(f"{P}if {c} then")
                out += body or [f"{P}  pure ()"]
                te = False
                if st.orelse:
                    orelse, te = self.block(st.orelse, ind + 2)
                    self.declared = set(saved)
                    self.ptypes = dict(saved_t)
                    out.append(f"{P}else")
                    out += orelse or [f"{P}  pure ()"]
                term = tb and te
            elif isinstance(st, ast.For):
                if st.orelse or not isinstance(st.target, ast.Name):
                    raise Unsupported(f"{self.fd.name}: for-else / tuple target")
                it = st.iter
                if isinstance(it, ast.Call) and isinstance(it.func, ast.Name) and it.func.id == "range" and not it.keywords and 1 <= len(it.args) <= 3:
                    pre, terms = self.args_terms(list(it.args), ind)
                    if len(terms) == 1:
                        seq = f"(range1 {terms[0]})"
                    else:
                        step = "(1 : Int)"
                        if len(terms) == 3:
                            a3 = it.args[2]
                            if not (isinstance(a3, ast.Constant) and isinstance(a3.value, int) and a3.value > 0):
                                raise Unsupported(f"{self.fd.name}: range with a non-literal or non-positive step")
                            step = terms[2]
                        seq = f"(range3 {terms[0]} {terms[1]} {step})"
                else:
                    pre, t, _ = self.expr(it, ind)
                    seq = f"(iter {t})"
                out += pre
                saved = set(self.declared)
                self.declared.add(st.target.id)
                body, _ = self.block(st.body, ind + 2)
                self.declared = set(saved)
                out.append(f"{P}for {lname(st.target.id)} in {seq} do")
                out += body or [f"{P}  pure ()"]
            elif isinstance(st, ast.Pass):
                continue
            else:
                raise Unsupported(f"{self.fd.name}: statement {type(st).__name__}: {ast.unparse(st)[:60]}")
        return out, term

    def guard_idiom(self, st: ast.If):
        """`if p is None: raise E(...)` / `if not p: raise E(...)` for an Option-typed parameter that is not assigned anywhere"""
        if st.orelse or len(st.body) != 1 or not isinstance(st.body[0], ast.Raise):
            return None
        r = st.body[0]
        name = r.exc.func.id if isinstance(r.exc, ast.Call) and isinstance(r.exc.func, ast.Name) else (r.exc.id if isinstance(r.exc, ast.Name) else None)
        if name not in EXC or r.cause is not None:
            return None
        t = st.test
        v = kind = None
        if isinstance(t, ast.Compare) and len(t.ops) == 1 and isinstance(t.ops[0], ast.Is) and isinstance(t.left, ast.Name) \
                and isinstance(t.comparators[0], ast.Constant) and t.comparators[0].value is None:
            v, kind = t.left.id, "none"
        elif isinstance(t, ast.UnaryOp) and isinstance(t.op, ast.Not) and isinstance(t.operand, ast.Name):
            v, kind = t.operand.id, "falsy"
        if v is None or not self.ptypes.get(v, "").startswith("Option ") or v in self.assigned:
            return None
        return v, kind, EXC[name]

    def none_default_idiom(self, st: ast.If):
        """`if p is None: p = e` for an Option-typed parameter"""
        t = st.test
        if st.orelse or len(st.body) != 1 or not isinstance(st.body[0], ast.Assign):
            return None
        if not (isinstance(t, ast.Compare) and len(t.ops) == 1 and isinstance(t.ops[0], ast.Is) and isinstance(t.left, ast.Name)
                and isinstance(t.comparators[0], ast.Constant) and t.comparators[0].value is None):
            return None
        a = st.body[0]
        if len(a.targets) != 1 or not isinstance(a.targets[0], ast.Name) or a.targets[0].id != t.left.id:
            return None
        if not self.ptypes.get(t.left.id, "").startswith("Option "):
            return None
        return t.left.id, a.value

    def run(self):
        assigned = {n.id for n in ast.walk(self.fd) if isinstance(n, ast.Name) and isinstance(n.ctx, ast.Store)}
        self.assigned = assigned
        head = []
        for p, _, _ in self.sig.params:
            if p in assigned and not self.ptypes[p].startswith("Option "):
                head.append(f"  let mut {lname(p)} := {lname(p)}")
        body, term = self.block(self.fd.body, 2)
        if not term:
            if self.sig.ret != "Unit":
                raise Unsupported(f"{self.fd.name}: a path reaches the end of the function without return")
            body.append("  return ()")
        return head + body


def _match_template(templ: str, n: ast.Call):
    """`templ` is python source with `_` place-holders for argument expressions; returns the argument nodes or None"""
    t = ast.parse(templ, mode="eval").body
    holes = []

    def go(a, b):
        if isinstance(a, ast.Name) and a.id == "_":
            holes.append(b)
            return True
        if type(a) is not type(b):
            return False
        for fld in a._fields:
            x, y = getattr(a, fld, None), getattr(b, fld, None)
            if isinstance(x, list):
                if not isinstance(y, list) or len(x) != len(y) or not all(go(p, q) if isinstance(p, ast.AST) else p == q for p, q in zip(x, y)):
                    return False
            elif isinstance(x, ast.AST):
                if not isinstance(y, ast.AST) or not go(x, y):
                    return False
            elif fld not in ("ctx", "kind", "type_comment", "lineno", "col_offset", "end_lineno", "end_col_offset"):
                if x != y:
                    return False
        return True
    return holes if go(t, n) else None

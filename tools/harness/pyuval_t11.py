"""`pyu` stream of C11: the operations that lean/CsVerif/Model/PyU_T11.lean adds to the run-time library of the untyped translator
(`lark.Token` as the `str` it is in `==`, `in`, `join`, `str`, `tuple`, `repr`; `list.pop` / `list.extend`;
`collections.defaultdict(list)` with `d[k].append(v)` and `dict(d)`), each run against CPython / lark on random operands of all
kinds.  Value notation: tools/harness/pyuval.py / lean/CsVerif/Model/PyUShow.lean, with `I0[type;value]` = `lark.Token(type, value)`
(tools/harness/pyuval_t12.py) and `I1100[D[…|…]]` = a `collections.defaultdict(list)` holding these items.
"""
from __future__ import annotations

import collections

from lark import Token

from . import pyuval as P
from . import pyuval_t12 as P12

DD_CID = 1100


def pshow(v) -> str:
    if type(v) is collections.defaultdict:
        if v.default_factory is not list:
            raise RuntimeError("pshow: a defaultdict with another factory")
        return f"I{DD_CID}[{pshow(dict(v))}]"
    if type(v) is Token:
        return f"I0[{pshow(v.type)};{pshow(v.value)}]"
    if type(v) is list:
        return "L[" + ";".join(pshow(x) for x in v) + "]"
    if type(v) is tuple:
        return "U[" + ";".join(pshow(x) for x in v) + "]"
    if type(v) is dict:
        return "D[" + ";".join(pshow(x) for x in v.keys()) + "|" + ";".join(pshow(x) for x in v.values()) + "]"
    return P12.pshow(v)


def pparse(tok: str):
    v, rest = _pv(tok, 0)
    if rest != len(tok):
        raise RuntimeError("pparse: trailing text in " + tok)
    return v


def _pl(s, i):
    out = []
    while s[i] not in "]|":
        v, i = _pv(s, i)
        out.append(v)
        if s[i] == ";":
            i += 1
    return out, i


def _pv(s, i):
    c = s[i]
    if c in "LU":
        xs, j = _pl(s, i + 2)
        return (xs if c == "L" else tuple(xs)), j + 1
    if c == "D":
        ks, j = _pl(s, i + 2)
        vs, j = _pl(s, j + 1)
        return dict(zip(ks, vs)), j + 1
    if c == "I":
        d, j = P._span(s, i + 1, str.isdigit)
        xs, j = _pl(s, j + 1)
        if d == "0":
            return Token(*xs), j + 1
        if int(d) == DD_CID:
            return collections.defaultdict(list, xs[0]), j + 1
        raise RuntimeError("pparse: unknown class " + d)
    return P._pv(s, i)


# ---------------------------------------------------------------------------------------------------------------------
# random operands
# ---------------------------------------------------------------------------------------------------------------------
TEXTS = ["", "set", "{", "}", ";", "{}", "};", "{};", '"default"', '"a"', "a", "http-get", ".", "STRING", "OPTION", "é", 'x"y', "it's"]


def rtext(rng):
    return rng.choice(TEXTS) if rng.random() < 0.7 else P.rstr(rng)


def rtoken(rng):
    return Token(rng.choice(["STRING", "STRING", "OPTION", "", "string", "X"]), rtext(rng))


def ritem(rng):
    """what the item stream of the Reconstructor holds: plain strings and Tokens"""
    return rtoken(rng) if rng.random() < 0.5 else rtext(rng)


def rdd(rng):
    d = collections.defaultdict(list)
    for _ in range(rng.choice([0, 1, 2, 3])):
        d[rtext(rng)] = [value(rng, 2) for _ in range(rng.choice([0, 1, 2]))]
    return d


def value(rng, depth=0):
    r = rng.random()
    if r < 0.04:
        return None
    if r < 0.08:
        return rng.random() < 0.5
    if r < 0.16:
        return P.rint(rng)
    if r < 0.24:
        return P.rbytes(rng)
    if r < 0.44:
        return rtext(rng)
    if r < 0.62:
        return rtoken(rng)
    if depth >= 2:
        return rtext(rng)
    if r < 0.76:
        return [value(rng, depth + 1) if rng.random() < 0.4 else ritem(rng) for _ in range(rng.choice([0, 1, 2, 3]))]
    if r < 0.86:
        return tuple(value(rng, depth + 1) if rng.random() < 0.4 else ritem(rng) for _ in range(rng.choice([0, 1, 2, 3])))
    if r < 0.94:
        d = {}
        for _ in range(rng.choice([0, 1, 2])):
            d[rng.choice([rtext, P.rint, P.rbytes])(rng)] = value(rng, depth + 1)
        return d
    return rdd(rng)


def _pop(xs):
    r = xs.pop()
    return (r, xs)


def _extend(xs, ys):
    xs.extend(ys)
    return xs


def _ddappend(d, k, v):
    d[k].append(v)
    return d


OPS = {
    "t11eq": lambda a, b: a == b, "t11in": lambda c, x: x in c, "t11join": lambda s, xs: s.join(xs), "t11str": str, "t11tuple": tuple,
    "t11repr": repr, "t11pop": _pop, "t11extend": _extend, "t11ddappend": _ddappend, "t11dict": dict,
}
ARITY = {"t11eq": 2, "t11in": 2, "t11join": 2, "t11str": 1, "t11tuple": 1, "t11repr": 1, "t11pop": 1, "t11extend": 2, "t11ddappend": 3,
         "t11dict": 1}
BOOL_OPS = ("t11eq", "t11in")


def _has(v, pred, top=True) -> bool:
    """`pred` holds for `v` or for something inside it"""
    if pred(v):
        return True
    if isinstance(v, (list, tuple)) and type(v) is not Token:
        return any(_has(x, pred) for x in v)
    if isinstance(v, dict):
        return any(_has(x, pred) for x in list(v.keys()) + list(v.values()))
    return False


def _inside(v, pred) -> bool:
    """`pred` holds for something strictly inside the container `v`"""
    if isinstance(v, (list, tuple)) and type(v) is not Token:
        return any(_has(x, pred) for x in v)
    if isinstance(v, dict):
        return any(_has(x, pred) for x in list(v.keys()) + list(v.values()))
    return False


def _tok(v) -> bool:
    return type(v) is Token


def _dd(v) -> bool:
    return type(v) is collections.defaultdict


def _badtok(v) -> bool:
    return type(v) is Token and type(v.value) is not str


def modelled(op, args) -> bool:
    """operand kinds that PyU_T11.lean / PyU.lean state as 'not modelled' are left out"""
    if any(_has(x, _badtok) for x in args):
        return False            # a Token whose value is not a `str`
    a = args[0]
    if op == "t11eq":
        # Tokens inside containers are compared as instances; dicts are compared with their insertion order; a defaultdict is an instance
        return not any(_inside(x, _tok) or _has(x, lambda y: isinstance(y, dict)) for x in args)
    if op == "t11in":
        c, x = args
        if _has(c, _dd) or _has(x, _dd):
            return False
        if isinstance(c, dict):
            return not (_has(c, _tok) or _has(x, _tok))          # a Token key hashes as its text
        if isinstance(c, (list, tuple)) and type(c) is not Token:
            return not (any(_inside(y, _tok) for y in c) or _inside(x, _tok) or _has(c, lambda y: isinstance(y, dict))
                        or _has(x, lambda y: isinstance(y, dict)))
        return True
    if op == "t11join":
        return not any(_has(x, _dd) for x in args)
    if op == "t11str":
        return a is None or type(a) in (bool, int, str, bytes, Token)
    if op == "t11tuple":
        return not _dd(a)
    if op == "t11repr":
        return not _has(a, lambda y: isinstance(y, dict) or P._unprintable_hi(y) or (type(y) is Token and type(y.type) is not str))
    if op == "t11pop":
        return not _dd(a)
    if op == "t11extend":
        return not _dd(args[1])
    if op == "t11ddappend":
        d, k, _v = args
        if type(d) not in (dict, collections.defaultdict):
            return False
        return not (_has(k, _tok) or _has(list(d.keys()), _tok) or _has(k, _dd))
    if op == "t11dict":
        return a is None or type(a) in (bool, int, dict, collections.defaultdict)
    return True


def case(rng):
    op = rng.choice(sorted(OPS))
    a = value(rng)
    args = [a]
    if op == "t11eq":
        if rng.random() < 0.7:
            a = ritem(rng)
        b = value(rng)
        r = rng.random()
        if r < 0.35:
            b = str(a) if isinstance(a, str) else a
        elif r < 0.55 and isinstance(a, str):
            b = Token(rng.choice(["STRING", "OPTION"]), str(a))
        elif r < 0.7:
            b = rng.choice(["set", "{", "}", ";", '"default"', "STRING"])
        args = [a, b]
    elif op == "t11in":
        r = rng.random()
        if r < 0.5:
            c = rng.choice(["{};", "{};", "abc", "", Token("STRING", "{};"), Token("X", "a.b")])
            x = ritem(rng) if rng.random() < 0.85 else value(rng, 1)
        elif r < 0.8:
            c = [ritem(rng) for _ in range(rng.choice([0, 1, 2, 4]))]
            if rng.random() < 0.3:
                c = tuple(c)
            x = rng.choice(list(c) + [ritem(rng)]) if rng.random() < 0.7 else value(rng, 1)
            if rng.random() < 0.3 and isinstance(x, str):
                x = Token("STRING", str(x)) if type(x) is str else str(x)
        else:
            c, x = value(rng), value(rng, 1)
        args = [c, x]
    elif op == "t11join":
        sep = rng.choice([".", ".", "", ", ", Token("X", "."), b".", None, 5]) if rng.random() < 0.85 else value(rng, 1)
        r = rng.random()
        if r < 0.7:
            xs = [ritem(rng) if rng.random() < 0.9 else value(rng, 1) for _ in range(rng.choice([0, 1, 2, 3, 4]))]
            if rng.random() < 0.3:
                xs = tuple(xs)
        else:
            xs = value(rng, 1)
        args = [sep, xs]
    elif op in ("t11str", "t11tuple", "t11repr"):
        if rng.random() < 0.5:
            args = [ritem(rng)]
        elif rng.random() < 0.6:
            args = [[ritem(rng) for _ in range(rng.choice([0, 1, 2, 3]))]]
    elif op == "t11pop":
        if rng.random() < 0.8:
            args = [[ritem(rng) if rng.random() < 0.8 else value(rng, 1) for _ in range(rng.choice([0, 0, 1, 2, 3]))]]
    elif op == "t11extend":
        xs = [ritem(rng) for _ in range(rng.choice([0, 1, 2]))] if rng.random() < 0.85 else value(rng, 1)
        ys = [ritem(rng) for _ in range(rng.choice([0, 1, 2]))] if rng.random() < 0.7 else value(rng, 1)
        args = [xs, ys]
    elif op == "t11ddappend":
        d = rdd(rng) if rng.random() < 0.75 else (dict(rdd(rng)) if rng.random() < 0.7 else value(rng, 1))
        if isinstance(d, dict) and d and rng.random() < 0.2:
            d[rng.choice(list(d.keys()))] = rng.choice(["x", None, 5, (1,)])
        k = rng.choice(list(d.keys())) if isinstance(d, dict) and d and rng.random() < 0.5 else (rtext(rng) if rng.random() < 0.8 else value(rng, 1))
        args = [d, k, value(rng, 1)]
    elif op == "t11dict":
        args = [rdd(rng) if rng.random() < 0.6 else value(rng)]
    assert len(args) == ARITY[op]
    if not modelled(op, args):
        return None
    try:
        return "pyu " + op + " " + " ".join(pshow(x) for x in args)
    except RuntimeError:
        return None


def run(line: str) -> str:
    """the real operation on the operands of a `pyu` line"""
    w = line.split()
    r = OPS[w[1]](*[pparse(t) for t in w[2:]])
    if w[1] in BOOL_OPS:
        return "ok " + ("T" if r else "F")
    return "ok " + pshow(r)

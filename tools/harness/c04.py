"""C04 — HTTP data transforms (c2.py HttpDataTransform): generators, adapters to the real library and an
independent plain-Python reference encoder/decoder of the Malleable C2 data-transform language (oracle).

Line protocol (see lean/CsVerif/Driver/C04.lean)
  program token  `s<code>,<code>,…`   codes: A.x<hex>|A.i<int> (append) P.… (prepend) b64 b64u nb nbu mask
                                      print uri H.x<hex> Q.x<hex> (terminations) _H/_HH/_Q.x<hex> (flat statics)
                                      dH/dHH/dQ.x<name>.x<value> (structured statics) Bo Bi Bm Bx unk
  dict token     `d<khex>.<vhex>,…`
  request        `N` | `Q method uri params headers body`;   response `S headers body`
  tr  c|s prog o m i <request> rand   -> `T ok <req> R ok <o m i> D ok <o m i> V T`  (lib.transform, lib.recover, reference decode,
                                         V = case satisfies the theorems' hypotheses: Ref.valid and uri-append => empty initial URI)
  re  c|s prog o m i <request> rand   -> `E <req> R ok <o m i> V T`               (reference encode, lib.recover)
  trf rev build flatprog o m i <request> rand -> `T … R …`                        (arbitrary flat programs)
  rec rev build flatprog <http>       -> `ok <o m i>` | `exc …`                  (recover on arbitrary messages)
  b64e/u64e/b64d/u64d x               -> CPython base64 vs model
  rchain prog x                       -> reference decoder chain (Python reference vs Lean reference)
g-* streams: the definitions TRANSLATED from the source of `HttpDataTransform.__init__ / transform / recover` (Gen/PyC2T.lean,
tools/py2leanu.py) against the real class, on Python values in the notation of tools/harness/pyuval.py: every tr / re / trf / rec case
is also a g-case (same step tuples, same masks, same messages), plus `g-kinds` (arguments of kinds the hand model cannot express)
  gi  <steps> <reverse> <build>                                 -> `ok I6[<tsteps>;<rsteps>]`
  gtr Q|S <steps> <reverse> <build> <c2data> <request> l<masks> -> `T <request> R ok <c2data>` (S: recover from HttpResponse(200, r.headers, b"OK", r.body))
  gr  <steps> <reverse> <build> <http>                          -> `ok <c2data>`
  pyu <op> <operands>                                           -> run-time operations added for C04 (PyU_T04.lean) vs utils.*
"""
from __future__ import annotations

import base64
import itertools
import struct

from dissect.cobaltstrike import c2 as c2mod
from dissect.cobaltstrike.c2 import C2Data, HttpDataTransform, HttpRequest, HttpResponse

from . import common as C
from . import pyuval, pyuval_t04

ID = "C04"
GEN = ["py_utils", "py_c2u", "py_c2t"]
EXTRA_PROP_FILES = ["Props/C04Gen.lean"]
DRIVER = "drv_c04"
KNOWN_ID = "C04-uri-append-initial-uri"
STREAMS = {
    "tr": {"relevant": True, "desc": "valid structured program: lib.transform = model.transform, lib.recover(lib.transform) = data, reference decodes it"},
    "re": {"relevant": True, "desc": "valid structured program: reference encoder output is recovered by lib.recover"},
    "tr-uriappend-initial": {"relevant": True, "desc": "uri-append with non-empty initial URI (known finding)"},
    "re-uriappend-initial": {"relevant": True, "desc": "uri-append with non-empty initial URI, reference-encoded (known finding)"},
    "trf": {"relevant": False, "desc": "arbitrary flat step lists (any order, unknown steps, colliding placements, reverse/build)"},
    "rec": {"relevant": False, "desc": "recover on arbitrary / malformed messages (KeyError, IndexError, ValueError, AssertionError)"},
    "b64": {"relevant": False, "desc": "CPython base64 encoders / lenient decoders vs the Lean model"},
    "rchain": {"relevant": False, "desc": "Python reference decoder chain vs Lean reference decoder chain"},
    "g-tr": {"relevant": False, "desc": "__init__ / transform / recover TRANSLATED from their source (Gen/PyC2T.lean; base64 / getrandbits = the sub-models) vs the class, on every case of tr (all but NetBIOS steps on kilobyte payloads, see g_affordable)"},
    "g-re": {"relevant": False, "desc": "translated __init__ / recover vs the class on every case of re (reference-encoded messages)"},
    "g-trf": {"relevant": False, "desc": "translated __init__ / transform / recover vs the class on every case of trf"},
    "g-rec": {"relevant": False, "desc": "translated __init__ / recover vs the class on every case of rec"},
    "g-init": {"relevant": False, "desc": "translated __init__ vs the class: tsteps / rsteps for steps, reverse, build of all kinds"},
    "g-kinds": {"relevant": False, "desc": "translated definitions vs the class on arguments the hand model cannot express (step values / names / "
                "payloads / messages of other kinds: AssertionError, TypeError, AttributeError branches)"},
    "pyu": {"relevant": False, "desc": "the operations of the translator's run-time library added for C04 (PyU_T04.lean: utils.netbios_encode / "
            "netbios_decode / xor / p32be on dynamic values) vs the real functions on operands of all kinds"},
}
TRUSTED = [
    "tools/harness/c04.py: generators, adapters, the plain-Python reference codec (oracle) and its agreement with lean Ref.* "
    "(compared on every tr/re/rchain line); line protocol parsing in lean/CsVerif/Driver/C04.lean",
    "CPython base64.b64encode/urlsafe_b64encode/b64decode(validate=False)/urlsafe_b64decode, bytes.partition/lower/upper, dict, "
    "struct.pack('>I') are modelled (Model/C04.lean), not verified; the base64 model is compared exhaustively on short inputs (stream b64)",
    "utils.xor / netbios_encode / netbios_decode models are those of C20 (Model/C20.lean)",
    "step names are classified by the harness with str.lower() (the model starts after `step.lower()`) — for the hand-model streams; "
    "Props/C04Gen.lean proves the classification (C04Gen.stepOf) for the translated definitions",
    "tools/py2leanu.py + lean/CsVerif/Model/PyU.lean / PyU_T04.lean (untyped translator and its run-time library): Props/C04Gen.lean proves "
    "the translated __init__ / transform / recover equal to the hand-written model (externs instantiated with the C04 codec models); the "
    "g-* streams run the translated definitions against the real class, the pyu stream runs the new run-time operations against utils.*",
]
ASSUMPTIONS = [
    "random.getrandbits(32) is replaced by a scripted stream (Mersenne Twister not modelled); theorems hold for every stream",
    "step arguments are well typed: bytes for header/parameter/_header/_hostheader/_parameter, bytes or int for append/prepend",
    "uri-append round trip needs an empty initial URI (known finding C04-uri-append-initial-uri otherwise)",
    "static header names contain no ':' and static parameter names no '=' in the reference language",
]
RULE = ("distinct = hash of (stream, input line); non-trivial = the real code returned a value, the program has at least one "
        "encoder step and a non-empty payload (tr/re/trf), or the message/program is non-empty (rec/b64/rchain)")

ENC_SIMPLE = ["base64", "base64url", "netbios", "netbiosu", "mask"]
FIELDS = {"output": "Bo", "id": "Bi", "metadata": "Bm"}

# --------------------------------------------------------------------------------------
# independent reference codec (plain Python; mirrors lean C04.Ref, calls neither the library nor `base64`)
# --------------------------------------------------------------------------------------


def r_alpha(url):
    return bytes(range(65, 91)) + bytes(range(97, 123)) + bytes(range(48, 58)) + (b"-_" if url else b"+/")


def r_sextets(d):
    out = []
    for k in range(0, len(d), 3):
        g = d[k:k + 3]
        if len(g) == 3:
            a, b, c = g
            out += [a // 4, a % 4 * 16 + b // 16, b % 16 * 4 + c // 64, c % 64]
        elif len(g) == 2:
            a, b = g
            out += [a // 4, a % 4 * 16 + b // 16, b % 16 * 4]
        else:
            (a,) = g
            out += [a // 4, a % 4 * 16]
    return out


def r_b64enc(d):
    al = r_alpha(False)
    return bytes(al[s] for s in r_sextets(d)) + b"=" * ((3 - len(d) % 3) % 3)


def r_b64urlenc(d):
    al = r_alpha(True)
    return bytes(al[s] for s in r_sextets(d))


def r_b64dec(url, s):
    k = s.find(b"=")
    body, pad = (s, b"") if k < 0 else (s[:k], s[k:])
    if pad.strip(b"=") != b"" or len(pad) > 2:
        return None
    al = r_alpha(url)
    vs = []
    for c in body:
        v = al.find(bytes([c]))
        if v < 0:
            return None
        vs.append(v)
    out = bytearray()
    for k in range(0, len(vs), 4):
        g = vs[k:k + 4]
        if len(g) == 1:
            return None
        out.append((g[0] * 4 + g[1] // 16) % 256)
        if len(g) >= 3:
            out.append((g[1] % 16 * 16 + g[2] // 4) % 256)
        if len(g) == 4:
            out.append((g[2] % 4 * 64 + g[3]) % 256)
    return bytes(out)


def r_nbenc(base, d):
    out = bytearray()
    for c in d:
        out += bytes([base + c // 16, base + c % 16])
    return bytes(out)


def r_nbdec(base, s):
    if len(s) % 2:
        # the Lean reference fails on the odd tail only after the preceding pairs were checked; result is None either way
        return None
    out = bytearray()
    for k in range(0, len(s), 2):
        a, b = s[k], s[k + 1]
        if not (base <= a < base + 16 and base <= b < base + 16):
            return None
        out.append((a - base) * 16 + (b - base))
    return bytes(out)


def r_xor(key, d):
    return bytes(b ^ key[i % len(key)] for i, b in enumerate(d)) if key else bytes(d)


def arg_bytes(a):
    return a if isinstance(a, bytes) else b"X" * max(a, 0)


def r_encstep(e, masks, d):
    k = e[0] if isinstance(e, tuple) else e
    if k == "append":
        return d + arg_bytes(e[1])
    if k == "prepend":
        return arg_bytes(e[1]) + d
    if k == "base64":
        return r_b64enc(d)
    if k == "base64url":
        return r_b64urlenc(d)
    if k == "netbios":
        return r_nbenc(97, d)
    if k == "netbiosu":
        return r_nbenc(65, d)
    if k == "mask":
        key = struct.pack(">I", masks.pop(0) if masks else 0)
        return key + r_xor(key, d)
    raise RuntimeError(e)


def r_decstep(e, d):
    k = e[0] if isinstance(e, tuple) else e
    if k == "append":
        a = e[1]
        if isinstance(a, bytes):
            return d[:len(d) - len(a)] if len(a) <= len(d) and d[len(d) - len(a):] == a else None
        return d[:len(d) - a] if 0 <= a <= len(d) else None
    if k == "prepend":
        a = e[1]
        if isinstance(a, bytes):
            return d[len(a):] if d[:len(a)] == a else None
        return d[a:] if 0 <= a <= len(d) else None
    if k == "base64":
        return r_b64dec(False, d)
    if k == "base64url":
        return r_b64dec(True, d)
    if k == "netbios":
        return r_nbdec(97, d)
    if k == "netbiosu":
        return r_nbdec(65, d)
    if k == "mask":
        return r_xor(d[:4], d[4:]) if len(d) >= 4 else None
    raise RuntimeError(e)


def r_decchain(encs, d):
    for e in encs:
        d = r_decstep(e, d)
        if d is None:
            return None
    return d


def dset(d, k, v):
    d[k] = v


def r_encode(items, masks, c2, req):
    """reference encoder on a dict-shaped request {method, uri, params, headers, body}"""
    masks = list(masks)
    r = {"method": req["method"], "uri": req["uri"], "params": dict(req["params"]), "headers": dict(req["headers"]), "body": req["body"]}
    for it in items:
        if it[0] == "deco":
            _, kind, n, v = it
            dset(r["params"] if kind == "parameter" else r["headers"], n, v)
        else:
            _, field, encs, term = it
            d = c2.get(field) or b""
            for e in encs:
                d = r_encstep(e, masks, d)
            if term[0] == "print":
                r["body"] = d
            elif term[0] == "uri":
                r["uri"] = r["uri"] + d
            elif term[0] == "header":
                dset(r["headers"], term[1], d)
            else:
                dset(r["params"], term[1], d)
    return r


def r_locate(term, msg):
    """msg: dict with kind 'Q' (request) or 'S' (response)"""
    if term[0] == "print":
        return msg["body"]
    if term[0] == "uri":
        return msg["uri"] if msg["kind"] == "Q" else None
    if term[0] == "header":
        return msg["headers"].get(term[1])
    return msg["params"].get(term[1]) if msg["kind"] == "Q" else None


def r_decode(items, msg):
    acc = {"output": None, "metadata": None, "id": None}
    for it in items:
        if it[0] != "block":
            continue
        _, field, encs, term = it
        d = r_locate(term, msg)
        if d is None:
            return None
        d = r_decchain(list(reversed(encs)), d)
        if d is None:
            return None
        acc[field] = d
    return acc


# --------------------------------------------------------------------------------------
# encoding of cases
# --------------------------------------------------------------------------------------

def enc_code(e):
    if isinstance(e, tuple):
        k, a = e
        c = "A" if k == "append" else "P"
        return f"{c}.{C.hx(a)}" if isinstance(a, bytes) else f"{c}.i{a}"
    return {"base64": "b64", "base64url": "b64u", "netbios": "nb", "netbiosu": "nbu", "mask": "mask"}[e]


def term_code(t):
    if t[0] == "print":
        return "print"
    if t[0] == "uri":
        return "uri"
    return ("H." if t[0] == "header" else "Q.") + C.hx(t[1])


def prog_token(items):
    codes = []
    for it in items:
        if it[0] == "deco":
            _, kind, n, v = it
            codes.append({"header": "dH", "hostheader": "dHH", "parameter": "dQ"}[kind] + f".{C.hx(n)}.{C.hx(v)}")
        else:
            _, field, encs, term = it
            codes.append(FIELDS[field])
            codes += [enc_code(e) for e in encs]
            codes.append(term_code(term))
    return "s" + ",".join(codes)


def dict_token(d):
    return "d" + ",".join(k.hex() + "." + v.hex() for k, v in d.items())


def ob(b):
    return "none" if b is None else C.hx(b)


def req_tokens(req):
    if req is None:
        return "N"
    return f"Q {C.hx(req['method'])} {C.hx(req['uri'])} {dict_token(req['params'])} {dict_token(req['headers'])} {C.hx(req['body'])}"


def c2_tokens(c2):
    return f"{ob(c2.get('output'))} {ob(c2.get('metadata'))} {ob(c2.get('id'))}"


def unob(t):
    return None if t == "none" else C.unhx(t)


def undict(t):
    assert t[0] == "d"
    out = {}
    if len(t) > 1:
        for kv in t[1:].split(","):
            k, v = kv.split(".")
            out[bytes.fromhex(k)] = bytes.fromhex(v)
    return out


def parse_arg(a):
    return int(a[1:]) if a[0] == "i" else C.unhx(a)


def parse_codes(tok):
    """-> list of ('step', name, val) | ('deco', kind, n, v) ; names as the model classifies them"""
    assert tok[0] == "s"
    out = []
    if len(tok) == 1:
        return out
    for c in tok[1:].split(","):
        p = c.split(".")
        h = p[0]
        if h in ("b64", "b64u", "nb", "nbu", "mask"):
            out.append(("enc", {"b64": "base64", "b64u": "base64url", "nb": "netbios", "nbu": "netbiosu", "mask": "mask"}[h]))
        elif h == "A":
            out.append(("enc", ("append", parse_arg(p[1]))))
        elif h == "P":
            out.append(("enc", ("prepend", parse_arg(p[1]))))
        elif h == "print":
            out.append(("term", ("print",)))
        elif h == "uri":
            out.append(("term", ("uri",)))
        elif h == "H":
            out.append(("term", ("header", C.unhx(p[1]))))
        elif h == "Q":
            out.append(("term", ("parameter", C.unhx(p[1]))))
        elif h in ("_H", "_HH", "_Q"):
            out.append(("static", {"_H": "_header", "_HH": "_hostheader", "_Q": "_parameter"}[h], C.unhx(p[1])))
        elif h in ("dH", "dHH", "dQ"):
            out.append(("deco", {"dH": "header", "dHH": "hostheader", "dQ": "parameter"}[h], C.unhx(p[1]), C.unhx(p[2])))
        elif h in ("Bo", "Bi", "Bm", "Bx"):
            out.append(("build", {"Bo": "output", "Bi": "id", "Bm": "metadata", "Bx": "UNKNOWN BUILD ARG"}[h]))
        elif h == "unk":
            out.append(("unknown",))
        else:
            raise RuntimeError("bad code " + c)
    return out


def group_items(codes):
    items, cur = [], None
    for c in codes:
        if c[0] == "deco" and cur is None:
            items.append(c)
        elif c[0] == "build" and cur is None and c[1] in FIELDS:
            cur = (c[1], [])
        elif c[0] == "enc" and cur is not None:
            cur[1].append(c[1])
        elif c[0] == "term" and cur is not None:
            items.append(("block", cur[0], cur[1], c[1]))
            cur = None
        else:
            raise RuntimeError("not a structured program")
    if cur is not None:
        raise RuntimeError("not a structured program")
    return items


def _case(name, salt):
    """vary the case of step names the way real data does (enum names are upper case, docs use lower case)"""
    m = salt % 4
    if m == 0:
        return name.upper()
    if m == 1:
        return name.lower()
    if m == 2:
        return name.capitalize()
    return "".join(ch.upper() if (i + salt) % 2 else ch.lower() for i, ch in enumerate(name))


UNKNOWN_NAMES = ["base32", "", "foo", "mask ", "_headers", "uri-append", "netbios_u", "BUILD2"]


def lib_step(c, salt):
    """one flat code -> the (name, value) tuple given to the library"""
    if c[0] == "enc":
        e = c[1]
        if isinstance(e, tuple):
            return (_case(e[0], salt), e[1])
        return (_case(e, salt), True)
    if c[0] == "term":
        t = c[1]
        if t[0] == "print":
            return (_case("print", salt), True)
        if t[0] == "uri":
            return (_case("uri_append", salt), True)
        return (_case(t[0], salt), t[1])
    if c[0] == "static":
        return (_case(c[1], salt), c[2])
    if c[0] == "deco":
        _, kind, n, v = c
        if kind == "parameter":
            return (_case("_parameter", salt), n + b"=" + v)
        return (_case("_header" if kind == "header" else "_hostheader", salt), n + b": " + v)
    if c[0] == "build":
        return (_case("build", salt), c[1])
    if c[0] == "unknown":
        return (UNKNOWN_NAMES[salt % len(UNKNOWN_NAMES)], True)
    raise RuntimeError(c)


def lib_steps(codes, salt=0):
    return [lib_step(c, salt + 7 * i) for i, c in enumerate(codes)]


def int_form(e):
    if isinstance(e, tuple):
        return (e[0], e[1] if isinstance(e[1], int) else len(e[1]))
    return e


def server_lib_steps(encs, salt=0):
    """SETTING_C2_RECOVER as parse_recover_binary returns it"""
    out = [("print", True)]
    for e in reversed(encs):
        e = int_form(e)
        out.append((e[0], e[1]) if isinstance(e, tuple) else (e, True))
    return out


# --------------------------------------------------------------------------------------
# adapters
# --------------------------------------------------------------------------------------

class _Scripted:
    def __init__(self, vals):
        self.vals = list(vals)

    def getrandbits(self, n):
        assert n == 32
        return self.vals.pop(0) if self.vals else 0


def _exc(e):
    for cls, name in ((IndexError, "IndexError"), (KeyError, "KeyError"), (ValueError, "ValueError"),
                      (AssertionError, "AssertionError"), (TypeError, "TypeError"), (AttributeError, "AttributeError"),
                      (OverflowError, "OverflowError")):
        if isinstance(e, cls):
            return name
    return type(e).__name__


def show_req(r):
    return f"{C.hx(r.method)} {C.hx(r.uri)} {dict_token(r.params)} {dict_token(r.headers)} {C.hx(r.body)}"


def show_c2(c):
    return f"{ob(c.output)} {ob(c.metadata)} {ob(c.id)}"


def show_rc2(d):
    return "none" if d is None else f"ok {ob(d['output'])} {ob(d['metadata'])} {ob(d['id'])}"


def mk_request(q):
    if q is None:
        return None
    return HttpRequest(method=q["method"], uri=q["uri"], params=dict(q["params"]), headers=dict(q["headers"]), body=q["body"])


def parse_req(w, k):
    """tokens from index k: returns (request-dict|None, next index)"""
    if w[k] == "N":
        return None, k + 1
    assert w[k] == "Q"
    return {"kind": "Q", "method": C.unhx(w[k + 1]), "uri": C.unhx(w[k + 2]), "params": undict(w[k + 3]),
            "headers": undict(w[k + 4]), "body": C.unhx(w[k + 5])}, k + 6


EMPTY_REQ = {"kind": "Q", "method": b"", "uri": b"", "params": {}, "headers": {}, "body": b""}


def _recover_str(t, http):
    try:
        return "ok " + show_c2(t.recover(http))
    except Exception as e:  # noqa: BLE001
        if type(e).__name__ == "Timeout":
            raise
        return "exc " + _exc(e)


def setup(form, progtok, salt):
    codes = parse_codes(progtok)
    if form == "c":
        items = group_items(codes)
        t = HttpDataTransform(lib_steps(codes, salt))
        return t, False, items
    encs = [c[1] for c in codes]
    assert all(c[0] == "enc" for c in codes)
    t = HttpDataTransform(server_lib_steps(encs), reverse=True, build="output")
    return t, True, [("block", "output", encs, ("print",))]


def item_place(it):
    if it[0] == "deco":
        return ("parameter", it[2]) if it[1] == "parameter" else ("header", it[2])
    return it[3]


def enc_ok(e):
    return not (isinstance(e, tuple) and isinstance(e[1], int) and e[1] < 0)


def in_domain(items, q):
    """Python statement of the theorems' hypotheses (lean: Ref.valid p && (usesUri p -> initial uri empty))"""
    places = [item_place(it) for it in items]
    for i, it in enumerate(items):
        if it[0] == "deco":
            if (b"=" if it[1] == "parameter" else b":") in it[2]:
                return False
        else:
            if not all(enc_ok(e) for e in it[2]) or it[3] in places[i + 1:]:
                return False
    if ("uri",) in places and (q or EMPTY_REQ)["uri"] != b"":
        return False
    return True


def http_of(server, r):
    if server:
        return HttpResponse(status=200, headers=r.headers, reason=b"OK", body=r.body)
    return r


def msg_of(server, r):
    if server:
        return {"kind": "S", "headers": r.headers, "body": r.body}
    return {"kind": "Q", "method": r.method, "uri": r.uri, "params": r.params, "headers": r.headers, "body": r.body}


def impl(stream, line):
    if stream == "pyu":
        return pyuval_t04.run(line)
    if stream.startswith("g-"):
        return g_impl(line)
    w = line.split(" ")
    op = w[0]
    salt = sum(line.encode()) if len(line) < 4000 else len(line)
    if op in ("tr", "re"):
        t, server, items = setup(w[1], w[2], salt)
        c2 = {"output": unob(w[3]), "metadata": unob(w[4]), "id": unob(w[5])}
        q, k = parse_req(w, 6)
        masks = C.unints(w[k])
        if op == "tr":
            saved = c2mod.random
            c2mod.random = _Scripted(masks)
            try:
                try:
                    r = t.transform(C2Data(output=c2["output"], metadata=c2["metadata"], id=c2["id"]), mk_request(q))
                except Exception as e:  # noqa: BLE001
                    if type(e).__name__ == "Timeout":
                        raise
                    return f"T exc {_exc(e)} R - D -"
            finally:
                c2mod.random = saved
            ritems = [("block", f, [int_form(e) for e in es], tm) for (_, f, es, tm) in items] if server else items
            return (f"T ok {show_req(r)} R {_recover_str(t, http_of(server, r))} D {show_rc2(r_decode(ritems, msg_of(server, r)))}"
                    f" V {C.tf(in_domain(ritems, q))}")
        e = r_encode(items, masks, c2, q or EMPTY_REQ)
        r = HttpRequest(method=e["method"], uri=e["uri"], params=e["params"], headers=e["headers"], body=e["body"])
        return f"E {show_req(r)} R {_recover_str(t, http_of(server, r))} V {C.tf(in_domain(items, q))}"
    if op == "trf":
        codes = parse_codes(w[3])
        build = {"none": None, "o": "output", "i": "id", "m": "metadata", "x": "other"}[w[2]]
        t = HttpDataTransform(lib_steps(codes, salt), reverse=w[1] == "T", build=build)
        q, k = parse_req(w, 7)
        masks = C.unints(w[k])
        saved = c2mod.random
        c2mod.random = _Scripted(masks)
        try:
            try:
                r = t.transform(C2Data(output=unob(w[4]), metadata=unob(w[5]), id=unob(w[6])), mk_request(q))
            except Exception as e:  # noqa: BLE001
                if type(e).__name__ == "Timeout":
                    raise
                return f"exc {_exc(e)}"
        finally:
            c2mod.random = saved
        return f"T ok {show_req(r)} R {_recover_str(t, r)}"
    if op == "rec":
        codes = parse_codes(w[3])
        build = {"none": None, "o": "output", "i": "id", "m": "metadata", "x": "other"}[w[2]]
        t = HttpDataTransform(lib_steps(codes, salt), reverse=w[1] == "T", build=build)
        if w[4] == "S":
            http = HttpResponse(status=200, headers=undict(w[5]), reason=b"OK", body=C.unhx(w[6]))
        else:
            q, _ = parse_req(w, 4)
            http = mk_request(q)
        return "ok " + show_c2(t.recover(http))
    if op == "b64e":
        return C.hx(base64.b64encode(C.unhx(w[1])))
    if op == "u64e":
        return C.hx(base64.urlsafe_b64encode(C.unhx(w[1])))
    if op == "b64d":
        return "ok " + C.hx(base64.b64decode(C.unhx(w[1])))
    if op == "u64d":
        return "ok " + C.hx(base64.urlsafe_b64decode(C.unhx(w[1])))
    if op == "rchain":
        encs = [c[1] for c in parse_codes(w[1])]
        d = r_decchain(encs, C.unhx(w[2]))
        return "none" if d is None else "ok " + C.hx(d)
    raise RuntimeError("unknown op " + op)


# --------------------------------------------------------------------------------------
# g-* streams: the translated definitions (Gen/PyC2T.lean) vs the real class, on Python values (notation: pyuval.py)
# --------------------------------------------------------------------------------------

BUILD_ARG = {"none": None, "o": "output", "i": "id", "m": "metadata", "x": "other"}


def g_line(line):
    """the g-case of a tr / re / trf / rec line: the very step tuples, masks and messages `impl` uses for that line"""
    w = line.split(" ")
    op = w[0]
    salt = sum(line.encode()) if len(line) < 4000 else len(line)
    P = pyuval.pshow
    if op in ("tr", "re"):
        codes = parse_codes(w[2])
        server = w[1] == "s"
        if server:
            steps, rev, build = server_lib_steps([c[1] for c in codes]), True, "output"
        else:
            steps, rev, build = lib_steps(codes, salt), False, None
        c2 = {"output": unob(w[3]), "metadata": unob(w[4]), "id": unob(w[5])}
        q, k = parse_req(w, 6)
        masks = C.unints(w[k])
        if op == "tr":
            return (f"gtr {'S' if server else 'Q'} {P(steps)} {P(rev)} {P(build)} {P(C2Data(output=c2['output'], metadata=c2['metadata'], id=c2['id']))}"
                    f" {P(mk_request(q))} {C.ints(masks)}")
        items = [("block", "output", [c[1] for c in codes], ("print",))] if server else group_items(codes)
        e = r_encode(items, masks, c2, q or EMPTY_REQ)
        r = HttpRequest(method=e["method"], uri=e["uri"], params=e["params"], headers=e["headers"], body=e["body"])
        return f"gr {P(steps)} {P(rev)} {P(build)} {P(http_of(server, r))}"
    if op == "trf":
        steps = lib_steps(parse_codes(w[3]), salt)
        q, k = parse_req(w, 7)
        c2 = C2Data(output=unob(w[4]), metadata=unob(w[5]), id=unob(w[6]))
        return f"gtr Q {P(steps)} {P(w[1] == 'T')} {P(BUILD_ARG[w[2]])} {P(c2)} {P(mk_request(q))} {w[k]}"
    if op == "rec":
        steps = lib_steps(parse_codes(w[3]), salt)
        if w[4] == "S":
            http = HttpResponse(status=200, headers=undict(w[5]), reason=b"OK", body=C.unhx(w[6]))
        else:
            http = mk_request(parse_req(w, 4)[0])
        return f"gr {P(steps)} {P(w[1] == 'T')} {P(BUILD_ARG[w[2]])} {P(http)}"
    raise RuntimeError("g_line: " + op)


def g_affordable(line):
    """all cases but NetBIOS steps on kilobyte payloads: the typed translation of `netbios_encode` / `netbios_decode` (Gen/PyUtils.lean)
    appends to a list item by item, i.e. is quadratic in the compiled driver (0.3 s for 4 KB, 4 s when applied twice)"""
    if len(line) <= 3000:
        return True
    if len(line) > 100000:
        return False     # the 64 KiB+ payloads of the hand-model stream: the translated xor works on lists item by item
    w = line.split(" ")
    prog = w[2] if w[0] in ("tr", "re") else w[3]
    return not any(c in ("nb", "nbu") for c in prog[1:].split(","))


def g_show_t(t):
    return "I6[" + pyuval.pshow(t.tsteps) + ";" + pyuval.pshow(t.rsteps) + "]"


def g_impl(line):
    """the real class on the Python values of a g-line; exceptions of the constructor / `transform` propagate (the runner maps them)"""
    w = line.split(" ")
    X = pyuval.pparse
    if w[0] == "gi":
        return "ok " + g_show_t(HttpDataTransform(X(w[1]), X(w[2]), X(w[3])))
    if w[0] == "gr":
        t = HttpDataTransform(X(w[1]), X(w[2]), X(w[3]))
        return "ok " + pyuval.pshow(t.recover(X(w[4])))
    if w[0] == "gtr":
        t = HttpDataTransform(X(w[2]), X(w[3]), X(w[4]))
        saved = c2mod.random
        c2mod.random = _Scripted(C.unints(w[7]))
        try:
            r = t.transform(X(w[5]), X(w[6]))
        finally:
            c2mod.random = saved
        http = HttpResponse(status=200, headers=r.headers, reason=b"OK", body=r.body) if w[1] == "S" else r
        try:
            rec = "ok " + pyuval.pshow(t.recover(http))
        except Exception as e:  # noqa: BLE001
            if type(e).__name__ == "Timeout":
                raise
            rec = "exc " + _exc(e)
        return f"T {pyuval.pshow(r)} R {rec}"
    raise RuntimeError("g_impl: " + w[0])


# values of the wrong kind for a step argument / payload / message field.  Left out on purpose (PyU states them as not modelled):
# non-ASCII step names (`str.lower` is the Unicode mapping), dict / instance values of an unknown step (their `repr`), and
# non-bytes payloads together with netbios / mask steps (`netbios_decode("")`, `xor(x, b"\0\0\0\0")` accept them)
G_NAMES = ["append", "prepend", "base64", "base64url", "netbios", "netbiosu", "mask", "print", "header", "_header", "_hostheader",
           "uri_append", "parameter", "_parameter", "build"]
G_VALS = [None, True, False, 0, 1, 2, 3, -1, 5, b"", b"k", b"Cookie", b"a=b", b"A: b", "", "k", "output", "id", "metadata", "other", b"output",
          (), (1,), [], [b"k"], (b"k", b"v")]


def g_step(rng):
    r = rng.random()
    name = rng.choice(G_NAMES)
    if r < 0.08:
        name = rng.choice([None, 5, b"append", b"PRINT", True, ("print",), "", "base32", "BUILD2", "x y"])
    elif r < 0.5:
        name = _case(name, rng.randrange(4))
    val = rng.choice(G_VALS)
    if not isinstance(name, str) or name.lower() not in G_NAMES:
        val = rng.choice([v for v in G_VALS if not isinstance(v, dict)])
    r = rng.random()
    if r < 0.05:
        return rng.choice([(name,), (name, val, val), 5, None, b"ab", "ab", [name, val], {name: 1, "x": 2}])
    return (name, val)


def g_payload(rng, nonbytes):
    if nonbytes and rng.random() < 0.5:
        return rng.choice(["", "ab", "QUJD", 0, 5, True, (), [1], ("a",)])
    return rng.choice([None, b"", b"A", b"ABC", b"QUJD", b"ebec", b"EBEC", b"\x01\x02\x03\x04\x40", bytes(rng.getrandbits(8) for _ in range(rng.randrange(0, 9)))])


def g_kinds_case(rng):
    P = pyuval.pshow
    steps = [g_step(rng) for _ in range(rng.choice([0, 1, 1, 2, 3, 4]))]
    nonbytes = not any(n in repr(steps).lower() for n in ("netbios", "mask"))
    r = rng.random()
    steps_v = tuple(steps) if r < 0.1 else steps
    rev = rng.choice([False, False, True, 0, 1, "", "x", None, b""])
    build = rng.choice([None, None, "output", "id", "metadata", "OUTPUT", "", 5, b"output", True])
    if build in ("output", "id", "metadata"):
        pass
    if rng.random() < 0.55:
        r = rng.random()
        if r < 0.1:
            c2 = rng.choice([None, (), (b"o", b"m", b"i"), 5, HttpRequest(b"", b"", {}, {}, b"")])
        else:
            cls = rng.choice([C2Data, c2mod.ClientC2Data, c2mod.ServerC2Data])
            c2 = cls(output=g_payload(rng, nonbytes), metadata=g_payload(rng, nonbytes), id=g_payload(rng, nonbytes))
        r = rng.random()
        if r < 0.3:
            req = None
        elif r < 0.45:
            req = rng.choice([(), "", 0, b"", "x", 5, (1, 2), HttpResponse(200, {}, b"OK", b"")])
        else:
            req = HttpRequest(method=b"GET", uri=rng.choice([b"", b"/x"]), params=rng.choice([{}, {b"k": b"v"}]),
                              headers=rng.choice([{}, {b"k": b"v"}, {b"A": b"b", b"Cookie": b"c"}]), body=rng.choice([b"", b"old"]))
        return f"gtr {rng.choice('QQS')} {P(steps_v)} {P(rev)} {P(build)} {P(c2)} {P(req)} {C.ints(gen_masks(rng, 2))}"
    r = rng.random()
    if r < 0.12:
        http = rng.choice([None, (), 5, b"x", (b"", b"", {}, {}, b""), C2Data(None, None, None)])
    elif r < 0.4:
        http = HttpResponse(status=rng.choice([200, None, b"200"]), headers=rng.choice([{}, {b"k": g_payload(rng, nonbytes)}, None, {"k": b"v"}]),
                            reason=rng.choice([b"OK", None]), body=g_payload(rng, nonbytes))
    else:
        http = HttpRequest(method=b"GET", uri=g_payload(rng, nonbytes), params=rng.choice([{}, {b"k": g_payload(rng, nonbytes)}, None, {b"": b"QUJD"}]),
                           headers=rng.choice([{}, {b"k": g_payload(rng, nonbytes)}, {b"Cookie": b"QUJD", b"k": b"ebec"}, ()]),
                           body=g_payload(rng, nonbytes))
    return f"gr {P(steps_v)} {P(rev)} {P(build)} {P(http)}"


def g_init_case(rng):
    P = pyuval.pshow
    r = rng.random()
    if r < 0.75:
        steps = [g_step(rng) if rng.random() < 0.5 else pyuval.value(rng, 1) for _ in range(rng.choice([0, 1, 2, 3, 5]))]
        if rng.random() < 0.3:
            steps = tuple(steps)
    else:
        steps = pyuval.value(rng)
    return f"gi {P(steps)} {P(rng.choice([False, True, None, 0, 1, 2, '', 'x', b'', (), [0]]))} {P(rng.choice([None, 'output', 'id', 'x', '', 0, 5, b'o', False, ()]))}"


def g_shrink(line):
    """drop items of the step list, then whole tokens"""
    w = line.split(" ")
    i = 2 if w[0] == "gtr" else 1
    try:
        steps = pyuval.pparse(w[i])
    except Exception:  # noqa: BLE001
        steps = None
    if isinstance(steps, (list, tuple)):
        for k in range(len(steps)):
            cand = list(steps[:k]) + list(steps[k + 1:])
            yield " ".join(w[:i] + [pyuval.pshow(cand if isinstance(steps, list) else tuple(cand))] + w[i + 1:])
    if w[0] == "gtr":
        for j, repl in ((6, "N"), (7, "l")):
            if w[j] != repl:
                yield " ".join(w[:j] + [repl] + w[j + 1:])


# --------------------------------------------------------------------------------------
# oracle / classification
# --------------------------------------------------------------------------------------

def expected_c2(line):
    """`ok o m i` the property demands for a structured case: every built field equals the payload (None → b'')"""
    w = line.split(" ")
    codes = parse_codes(w[2])
    c2 = {"output": unob(w[3]), "metadata": unob(w[4]), "id": unob(w[5])}
    built = {"output"} if w[1] == "s" else {c[1] for c in codes if c[0] == "build"}
    exp = {f: ((c2[f] or b"") if f in built else None) for f in ("output", "metadata", "id")}
    return f"ok {ob(exp['output'])} {ob(exp['metadata'])} {ob(exp['id'])}"


def oracle(stream, line, out):
    if stream.startswith("g-") or stream == "pyu":
        return None
    base = stream.split("-")[0]
    if base == "tr":
        if not out.startswith("T ok ") or " R " not in out or " D " not in out:
            return False
        r, v = out.split(" R ", 1)[1].rsplit(" V ", 1)
        rec, dec = r.split(" D ", 1)
        exp = expected_c2(line)
        if v != "T" and not stream.endswith("initial"):
            return None  # outside the theorems' hypotheses (the generator never does this on purpose)
        return rec == exp and dec == exp
    if base == "re":
        if " R " not in out:
            return False
        rec, v = out.split(" R ", 1)[1].rsplit(" V ", 1)
        if v != "T" and not stream.endswith("initial"):
            return None
        return rec == expected_c2(line)
    if stream == "b64":
        w = line.split(" ")
        d = C.unhx(w[1])
        if w[0] in ("b64e", "u64e"):
            # encoder output + "==" decodes back with the independent strict reference decoder
            return r_b64dec(w[0] == "u64e", C.unhx(out)) == d if not out.startswith("exc") else False
        return None
    return None


def known(stream, line, known_list):
    if stream.startswith("g-") or not stream.endswith("uriappend-initial"):
        return None
    if not any(k["id"] == KNOWN_ID for k in known_list):
        return None
    w = line.split(" ")
    has_uri = "uri" in w[2][1:].split(",")
    q, _ = parse_req(w, 6)
    if has_uri and q is not None and q["uri"] != b"":
        return KNOWN_ID
    return None


def nontrivial(stream, line, out):
    if stream == "pyu":
        return not out.startswith("exc ")
    if stream.startswith("g-"):
        if stream == "g-kinds":
            return True
        return not out.startswith("exc ") and " exc " not in out and "U[" in line
    if out.startswith("exc ") or " exc " in out:
        return False
    w = line.split(" ")
    base = stream.split("-")[0]
    if base in ("tr", "re"):
        codes = w[2][1:].split(",")
        has_enc = any(c.split(".")[0] in ("A", "P", "b64", "b64u", "nb", "nbu", "mask") for c in codes)
        return has_enc and any(t not in ("none", "x") for t in w[3:6]) and out.endswith(" V T")
    if stream == "trf":
        return len(w[3]) > 1 and any(t not in ("none", "x") for t in w[4:7])
    if stream == "rec":
        return len(w[3]) > 1
    return w[-1] != "x"


def shrink(stream, line):
    if stream == "pyu":
        return
    if stream.startswith("g-"):
        yield from g_shrink(line)
        return
    w = line.split(" ")
    # drop program codes first
    for i, t in enumerate(w):
        if i >= 1 and t.startswith("s") and ("," in t or len(t) > 1) and not all(ch in "0123456789abcdef" for ch in t[1:]):
            codes = t[1:].split(",")
            for k in range(len(codes)):
                yield " ".join(w[:i] + ["s" + ",".join(codes[:k] + codes[k + 1:])] + w[i + 1:])
            # shorten hex arguments inside codes
            for k, c in enumerate(codes):
                p = c.split(".")
                for j in range(1, len(p)):
                    if p[j].startswith("x") and len(p[j]) > 3:
                        b = bytes.fromhex(p[j][1:])
                        for nb in (b[: len(b) // 2], b[1:]):
                            q = p[:j] + ["x" + nb.hex()] + p[j + 1:]
                            yield " ".join(w[:i] + ["s" + ",".join(codes[:k] + [".".join(q)] + codes[k + 1:])] + w[i + 1:])
            break
    for i, t in enumerate(w):
        if t.startswith("d") and len(t) > 1 and all(ch in "0123456789abcdef.," for ch in t[1:]):
            kvs = t[1:].split(",")
            for k in range(len(kvs)):
                yield " ".join(w[:i] + ["d" + ",".join(kvs[:k] + kvs[k + 1:])] + w[i + 1:])
    yield from C.shrink_tokens(line)


# --------------------------------------------------------------------------------------
# generators
# --------------------------------------------------------------------------------------

HDR_KEYS = [b"Cookie", b"X-Session", b"Authorization", b"User-Agent", b"x", b"", b"Accept", b"Host", b"A:B", b"k=v"]
PAR_KEYS = [b"id", b"q", b"session", b"", b"a=b", b"X-Session", b"utm", b"p"]
DECO_HN = [b"Accept", b"Host", b"Connection", b"Referer", b"Accept-Language", b"X-A", b"Cache-Control"]
DECO_PN = [b"lang", b"v", b"ref", b"cb", b"t"]


def gen_arg(rng, big_ok=True):
    r = rng.random()
    if r < 0.15:
        return b""
    if r < 0.4:
        return C.rbytes(rng, 1)
    if r < 0.5 and big_ok:
        return C.rbytes(rng, 300)
    if r < 0.75:
        return rng.choice([b"=", b"==", b": ", b"a=b", b"SESSION=", b"data=", b"x: y", b"=A=", b"abc:"])
    return C.rbytes(rng, rng.randrange(2, 12))


def gen_encs(rng, n, max_double=6, big_ok=True, int_args=False):
    encs = []
    doubles = 0
    for _ in range(n):
        r = rng.random()
        if r < 0.3:
            a = gen_arg(rng, big_ok)
            a = len(a) if int_args else a
            encs.append((rng.choice(["append", "prepend"]), a))
        else:
            e = rng.choice(ENC_SIMPLE)
            if e in ("netbios", "netbiosu"):
                if doubles >= max_double:
                    e = rng.choice(["base64", "base64url", "mask"])
                else:
                    doubles += 1
            encs.append(e)
    return encs


def gen_payload(rng, big):
    if big:
        n = rng.choice([1024, 1500, 2048, 4095, 4096, rng.randrange(1024, 4097)])
    else:
        n = rng.randrange(0, 71)
    r = rng.random()
    if r < 0.1:
        return bytes(n)
    if r < 0.2:
        return bytes([rng.choice([0xFF, 0x3D, 0x41, 0x61])]) * n
    return C.rbytes(rng, n)


def gen_request(rng, need_empty_uri, keys_h=(), keys_p=()):
    r = rng.random()
    if r < 0.25:
        return None
    uri = b"" if (need_empty_uri or rng.random() < 0.3) else rng.choice([b"/", b"/submit.php", b"/a/b", b"/x"])
    params, headers = {}, {}
    for _ in range(rng.randrange(0, 3)):
        params[rng.choice(PAR_KEYS + list(keys_p))] = C.rbytes(rng, rng.randrange(0, 4))
    for _ in range(rng.randrange(0, 3)):
        headers[rng.choice(HDR_KEYS + DECO_HN + list(keys_h))] = C.rbytes(rng, rng.randrange(0, 4))
    # names of the program's own placements in ANOTHER letter case already present in the initial request: HTTP maps here are plain
    # byte-keyed dicts (b"cookie" and b"Cookie" are two keys), and so are parameter names
    for k in list(keys_h):
        if rng.random() < 0.2 and k.swapcase() != k:
            headers[k.swapcase()] = C.rbytes(rng, 2)
    for k in list(keys_p):
        if rng.random() < 0.2 and k.swapcase() != k:
            params[k.swapcase()] = C.rbytes(rng, 2)
    return {"kind": "Q", "method": rng.choice([b"GET", b"POST", b""]), "uri": uri, "params": params, "headers": headers,
            "body": rng.choice([b"", b"old-body"])}


def gen_program(rng, big, force_uri=False):
    """valid structured client program: (items, uses_uri)"""
    nblocks = rng.choice([1, 1, 2, 2, 3])
    fields = rng.sample(["metadata", "id", "output"], nblocks) if rng.random() < 0.9 else [rng.choice(["metadata", "id", "output"]) for _ in range(nblocks)]
    used = set()
    items = []
    uses_uri = False
    ndeco = rng.choice([0, 0, 1, 2, 3])
    hk = [k for k in HDR_KEYS]
    pk = [k for k in PAR_KEYS]
    rng.shuffle(hk)
    rng.shuffle(pk)
    blocks = []
    for bi, f in enumerate(fields):
        while True:
            kind = rng.choice(["print", "uri", "header", "header", "parameter", "parameter"])
            if force_uri and bi == 0:
                kind = "uri"
            if kind == "print" and ("print",) not in used:
                term = ("print",)
            elif kind == "uri" and ("uri",) not in used:
                term = ("uri",)
            elif kind == "header":
                term = ("header", hk.pop())
            elif kind == "parameter":
                term = ("parameter", pk.pop())
            else:
                continue
            used.add(term)
            break
        uses_uri |= term == ("uri",)
        n = rng.choice([0, 1, 1, 2, 2, 3, 3, 4, 5, 6])
        encs = gen_encs(rng, n, max_double=3 if big else 6, big_ok=not big or rng.random() < 0.3)
        blocks.append(("block", f, encs, term))
    decos = []
    dh = [n for n in DECO_HN if ("header", n) not in used]
    dp = [n for n in DECO_PN if ("parameter", n) not in used]
    for _ in range(ndeco):
        r = rng.random()
        val = rng.choice([b"", b"*/*", b"text/html, a=b", b"x: y", b"1", C.rbytes(rng, 3)])
        if r < 0.5:
            decos.append(("deco", "header", rng.choice(dh), val))
        elif r < 0.65:
            decos.append(("deco", "hostheader", b"Host", val))
        else:
            decos.append(("deco", "parameter", rng.choice(dp), val))
    if any(d[1] == "hostheader" for d in decos) and ("header", b"Host") in used:
        decos = [d for d in decos if d[2] != b"Host"]
    items = blocks + decos
    # decorations interleave with the blocks in any order (block-internal order is kept)
    order = list(range(len(items)))
    rng.shuffle(order)
    items = [items[k] for k in order]
    # a decoration may share its key with a LATER block (the block overwrites it): still a valid program
    if rng.random() < 0.15:
        cand = [i for i, it in enumerate(items) if it[0] == "block" and it[3][0] in ("header", "parameter")
                and (b":" if it[3][0] == "header" else b"=") not in it[3][1]]
        if cand:
            i = rng.choice(cand)
            t = items[i][3]
            items.insert(rng.randrange(0, i + 1), ("deco", t[0], t[1], rng.choice([b"", b"stale", b"a=b: c"])))
    return items, uses_uri


def n_masks(items):
    return sum(sum(1 for e in it[2] if e == "mask") for it in items if it[0] == "block")


def gen_masks(rng, n):
    return [rng.choice([0, 1, 0xFFFFFFFF, 0x00FF0000, 0x01000000, rng.getrandbits(32), rng.getrandbits(32)]) for _ in range(n + rng.randrange(0, 2))]


def gen_c2(rng, big):
    c2 = {}
    for f in ("output", "metadata", "id"):
        c2[f] = None if rng.random() < 0.08 else gen_payload(rng, big and rng.random() < 0.5)
    return c2


def structured_case(rng, big, initial_uri=False):
    items, uses_uri = gen_program(rng, big, force_uri=initial_uri)
    keys_h = [it[3][1] for it in items if it[0] == "block" and it[3][0] == "header"]
    keys_p = [it[3][1] for it in items if it[0] == "block" and it[3][0] == "parameter"]
    req = gen_request(rng, uses_uri and not initial_uri, keys_h, keys_p)
    if initial_uri:
        if req is None:
            req = dict(EMPTY_REQ)
        req["uri"] = rng.choice([b"/", b"/x", b"/submit.php?", b"/ca"])
    c2 = gen_c2(rng, big)
    masks = gen_masks(rng, n_masks(items))
    return f"c {prog_token(items)} {c2_tokens(c2)} {req_tokens(req)} {C.ints(masks)}"


def server_case(rng, big, int_args):
    n = rng.choice([0, 1, 2, 2, 3, 3, 4, 5, 6])
    encs = gen_encs(rng, n, max_double=3 if big else 6, big_ok=not big or rng.random() < 0.3, int_args=int_args)
    c2 = gen_c2(rng, big)
    req = gen_request(rng, False)
    masks = gen_masks(rng, sum(1 for e in encs if e == "mask"))
    return f"s s{','.join(enc_code(e) for e in encs)} {c2_tokens(c2)} {req_tokens(req)} {C.ints(masks)}"


FLAT_POOL = ["b64", "b64u", "nb", "nbu", "mask", "print", "uri", "Bo", "Bi", "Bm", "Bx"]


def gen_flat(rng, allow_unknown=True):
    n = rng.randrange(0, 9)
    codes = []
    for _ in range(n):
        r = rng.random()
        if r < 0.45:
            codes.append(rng.choice(FLAT_POOL))
        elif r < 0.6:
            a = gen_arg(rng, big_ok=False)
            if rng.random() < 0.4:
                codes.append(f"{rng.choice('AP')}.i{rng.choice([0, 1, 2, 3, 5, 8, 100, -1, -3, len(a)])}")
            else:
                codes.append(f"{rng.choice('AP')}.{C.hx(a)}")
        elif r < 0.75:
            codes.append(rng.choice(["H.", "Q."]) + C.hx(rng.choice([b"Cookie", b"k", b"", b"Host"])))
        elif r < 0.93:
            kv = rng.choice([b"Host: a", b"Cookie: x: y", b"k=v", b"k", b"", b": ", b"=", b"k=v=w", b"Cookie:nospace", b"k: v", b"Host:  two"])
            codes.append(rng.choice(["_H.", "_HH.", "_Q."]) + C.hx(kv))
        elif allow_unknown:
            codes.append("unk")
    return "s" + ",".join(codes)


def gen_message(rng, keys):
    """arbitrary message for recover: values that decode, nearly decode, or are garbage"""
    def val():
        r = rng.random()
        d = C.rbytes(rng, rng.randrange(0, 10))
        if r < 0.2:
            return base64.b64encode(d).rstrip(b"=") + rng.choice([b"", b"=", b"==", b"A", b"\n", b"=A"])
        if r < 0.35:
            return base64.urlsafe_b64encode(d) + rng.choice([b"", b"-", b"_"])
        if r < 0.5:
            return r_nbenc(rng.choice([65, 97]), d) + rng.choice([b"", b"A", b"q", b"@"])
        if r < 0.6:
            return bytes(rng.choice(b"ABPQap@`{=+/-_09") for _ in range(rng.randrange(0, 9)))
        return d
    headers = {k: val() for k in keys if rng.random() < 0.75}
    params = {k: val() for k in keys if rng.random() < 0.75}
    if rng.random() < 0.3:
        return f"S {dict_token(headers)} {C.hx(val())}"
    return f"Q {C.hx(b'GET')} {C.hx(val())} {dict_token(params)} {dict_token(headers)} {C.hx(val())}"


B64_ALPHA = b"AQ/+=\n-_z"


def gen(tier, rng, shard, nshards):
    """every case that calls the class is also run through the definitions translated from its source"""
    for stream, line in gen0(tier, rng, shard, nshards):
        yield stream, line
        base = stream.split("-")[0]
        if base in ("tr", "re", "trf", "rec") and g_affordable(line):
            yield "g-" + base, g_line(line)
    for _ in range((40000 if tier == "thorough" else 4000) // nshards):
        yield "g-kinds", g_kinds_case(rng)
    for _ in range((10000 if tier == "thorough" else 1500) // nshards):
        yield "g-init", g_init_case(rng)
    for _ in range((60000 if tier == "thorough" else 6000) // nshards):
        line = pyuval_t04.case(rng)
        if line is not None:
            yield "pyu", line


def gen0(tier, rng, shard, nshards):
    thorough = tier == "thorough"
    k = 0

    def mine():
        nonlocal k
        k += 1
        return (k % nshards) == shard

    # ---- fixed boundary cases (every encoder alone and doubled, every termination, empty/None payloads)
    all_encs = ENC_SIMPLE + [("append", b""), ("prepend", b""), ("append", b"="), ("prepend", b": "), ("append", b"X" * 300), ("prepend", b"\x00")]
    terms = [("print",), ("uri",), ("header", b"Cookie"), ("parameter", b"id"), ("header", b""), ("parameter", b"")]
    pays = [None, b"", b"\x00", b"A", b"ab", b"abc", b"abcd", b"\xff\xfe\xfd\xfc\xfb", bytes(range(256))]
    for chain in [[]] + [[e] for e in all_encs] + [[a, b] for a in all_encs for b in all_encs]:
        for ti, term in enumerate(terms):
            if not mine():
                continue
            p = pays[(k // 3) % len(pays)]
            f = ["metadata", "id", "output"][k % 3]
            items = [("block", f, chain, term)]
            c2 = {f: p}
            masks = [0x01020304, 0] if k % 2 else [0, 0xFFFFFFFF]
            tail = f"{c2_tokens(c2)} N {C.ints(masks)}"
            yield "tr", f"tr c {prog_token(items)} {tail}"
            yield "re", f"re c {prog_token(items)} {tail}"
            if term == ("print",):
                yield "tr", f"tr s s{','.join(enc_code(int_form(e)) for e in chain)} {tail}"
                yield "re", f"re s s{','.join(enc_code(e) for e in chain)} {tail}"

    # ---- payloads beyond 64 KiB reaching a mask step (block-wise processing must keep the 4-byte key phase)
    for chain in ([["mask"], ["base64", "mask"], ["mask", "base64url"]] if thorough else [["mask"], ["base64", "mask"]]):
        if not mine():
            continue
        p = C.rbytes(rng, rng.choice([65536, 65537, 70001, 131075]))
        items = [("block", "output", chain, ("print",))]
        tail = f"{c2_tokens({'output': p})} N {C.ints([0xA1B2C3D4, 0x01020304])}"
        yield "tr", f"tr c {prog_token(items)} {tail}"
        yield "re", f"re c {prog_token(items)} {tail}"

    # ---- random valid structured programs
    n_small = (400000 if thorough else 16000) // nshards
    n_big = (20000 if thorough else 1200) // nshards
    for big, n in ((False, n_small), (True, n_big)):
        for _ in range(n):
            yield "tr", "tr " + structured_case(rng, big)
            yield "re", "re " + structured_case(rng, big)
            if rng.random() < 0.5:
                yield "tr", "tr " + server_case(rng, big, True)
                yield "re", "re " + server_case(rng, big, False)

    # ---- known finding: uri-append with a non-empty initial URI
    for _ in range(max(1, (400 if thorough else 64) // nshards)):
        yield "tr-uriappend-initial", "tr " + structured_case(rng, False, initial_uri=True)
        yield "re-uriappend-initial", "re " + structured_case(rng, False, initial_uri=True)

    # ---- arbitrary flat programs: transform + recover of the result
    for _ in range((160000 if thorough else 12000) // nshards):
        rev = rng.choice("FFFT")
        build = rng.choice(["none", "none", "o", "i", "m", "x"])
        c2 = gen_c2(rng, False)
        req = gen_request(rng, False)
        yield "trf", f"trf {rev} {build} {gen_flat(rng)} {c2_tokens(c2)} {req_tokens(req)} {C.ints(gen_masks(rng, 3))}"

    # ---- recover on arbitrary messages
    for _ in range((240000 if thorough else 14000) // nshards):
        rev = rng.choice("FFFT")
        build = rng.choice(["none", "none", "o", "i", "m", "x"])
        yield "rec", f"rec {rev} {build} {gen_flat(rng)} {gen_message(rng, [b'Cookie', b'k', b'', b'Host'])}"

    # ---- CPython base64 vs model: exhaustive short inputs
    maxlen = 6 if thorough else 5
    for n in range(maxlen + 1):
        for t in itertools.product(B64_ALPHA, repeat=n):
            if mine():
                b = bytes(t)
                yield "b64", f"b64d {C.hx(b)}"
                yield "b64", f"u64d {C.hx(b)}"
                yield "b64", f"b64d {C.hx(b + b'==')}"
    for c in range(256):
        if mine():
            yield "b64", f"b64d {C.hx(b'QQ' + bytes([c]) + b'Q')}"
            yield "b64", f"u64d {C.hx(b'Q' + bytes([c]) + b'==')}"
            yield "b64", f"b64e {C.hx(bytes([c]))}"
            yield "b64", f"u64e {C.hx(bytes([c, 255 - c]))}"
    edge = [0, 1, 3, 4, 15, 16, 63, 64, 127, 128, 251, 252, 254, 255]
    for a in edge:
        for b in edge:
            if mine():
                yield "b64", f"b64e {C.hx(bytes([a, b]))}"
                yield "b64", f"u64e {C.hx(bytes([a, b, a ^ b]))}"
                yield "b64", f"b64e {C.hx(bytes([b, a, 255 - b]))}"
    for _ in range((30000 if thorough else 3000) // nshards):
        d = C.rbytes(rng, rng.randrange(0, 71))
        yield "b64", f"{rng.choice(['b64e', 'u64e'])} {C.hx(d)}"
        e = rng.choice([base64.b64encode, base64.urlsafe_b64encode])(d)
        r = rng.random()
        if r < 0.3:
            e = e.rstrip(b"=")
        elif r < 0.6 and e:
            i = rng.randrange(len(e))
            e = e[:i] + bytes([rng.choice(b"=\n-_+/ A") if rng.random() < 0.7 else rng.randrange(256)]) + e[i + (rng.random() < 0.5):]
        e += rng.choice([b"", b"", b"=", b"==", b"===", b"A", b"==A"])
        yield "b64", f"{rng.choice(['b64d', 'u64d'])} {C.hx(e)}"

    # ---- reference decoder chain: Python reference vs Lean reference
    for _ in range((80000 if thorough else 8000) // nshards):
        encs = gen_encs(rng, rng.randrange(0, 4), big_ok=False, int_args=rng.random() < 0.3)
        d = C.rbytes(rng, rng.randrange(0, 20))
        masks = [rng.getrandbits(32) for _ in encs]
        for e in encs:
            d = r_encstep(e, masks, d)
        r = rng.random()
        if r < 0.4 and d:
            i = rng.randrange(len(d))
            d = d[:i] + bytes([rng.choice(b"=AaPpQq@`-_+/\x00")]) + d[i + (rng.random() < 0.5):]
        elif r < 0.5:
            d = d[:-1]
        yield "rchain", f"rchain s{','.join(enc_code(e) for e in reversed(encs))} {C.hx(d)}"

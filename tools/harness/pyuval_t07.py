"""`pyu` stream of C06 / C07: the operations of lean/CsVerif/Model/PyU_T07.lean (run-time library of the untyped translator, added for
`decrypt_metadata` / `encrypt_metadata` / `C2Http`) against CPython 3.12 / dissect.cstruct 4.7 on random operands of all kinds, and the
text notation of Python values shared with the drivers (`PyU.vShow` / `PyU.pV` of lean/CsVerif/Model/PyUShow.lean):
`N` `T` `F` `i<int>` `b<hex>` `s<cp>.<cp>` `L[..]` `U[..]` `D[k;..|v;..]`, `I7701[magic;size;…;info]` a `BeaconMetadata` object with
these attribute values.  Operand kinds an operation states as 'not modelled' are left out (`modelled`).
"""
from __future__ import annotations

from dissect.cobaltstrike.c_c2 import BeaconMetadata

META_CID = 7701          # tools/gen/py_c2m.py
FIELDS = ["magic", "size", "aes_rand", "ansi_cp", "oem_cp", "bid", "pid", "port", "flag", "ver_major", "ver_minor", "ver_build",
          "ptr_x64", "ptr_gmh", "ptr_gpa", "ip", "info"]
WIDTH = {"magic": 4, "size": 4, "ansi_cp": 2, "oem_cp": 2, "bid": 4, "pid": 4, "port": 2, "flag": 1, "ver_major": 1, "ver_minor": 1,
         "ver_build": 2, "ptr_x64": 4, "ptr_gmh": 4, "ptr_gpa": 4, "ip": 4}
CHARS = ("aes_rand", "info")


def pshow(v) -> str:
    if v is None:
        return "N"
    if v is True or v is False:
        return "T" if v else "F"
    if isinstance(v, BeaconMetadata):
        if set(vars(v)) - {"__dynamic_sizes__"} != set(FIELDS):
            raise RuntimeError("pshow: BeaconMetadata with other attributes")
        return f"I{META_CID}[" + ";".join(pshow(getattr(v, f)) for f in FIELDS) + "]"
    if type(v).__name__ in ("HttpRequest", "HttpResponse") and isinstance(v, tuple):
        return f"I{0 if type(v).__name__ == 'HttpRequest' else 1}[" + ";".join(pshow(x) for x in v) + "]"
    if isinstance(v, int):
        return f"i{int(v)}"
    if isinstance(v, dict):
        return "D[" + ";".join(pshow(x) for x in v.keys()) + "|" + ";".join(pshow(x) for x in v.values()) + "]"
    if isinstance(v, bytes):
        return "b" + bytes(v).hex()
    if type(v) is str:
        return "s" + ".".join(str(ord(c)) for c in v)
    if type(v) is list:
        return "L[" + ";".join(pshow(x) for x in v) + "]"
    if type(v) is tuple:
        return "U[" + ";".join(pshow(x) for x in v) + "]"
    raise RuntimeError(f"pshow: {v!r}")


def pparse(tok: str):
    v, rest = _pv(tok, 0)
    if rest != len(tok):
        raise RuntimeError("pparse: trailing text in " + tok)
    return v


def _span(s, i, pred):
    j = i
    while j < len(s) and pred(s[j]):
        j += 1
    return s[i:j], j


def _pl(s, i):
    out = []
    while s[i] not in "]|":
        v, i = _pv(s, i)
        out.append(v)
        if s[i] == ";":
            i += 1
    return out, i


def _pv(s, i):
    c = s[i]
    if c == "N":
        return None, i + 1
    if c == "T":
        return True, i + 1
    if c == "F":
        return False, i + 1
    if c == "i":
        d, j = _span(s, i + 1, lambda ch: ch.isdigit() or ch == "-")
        return int(d), j
    if c == "b":
        d, j = _span(s, i + 1, lambda ch: ch in "0123456789abcdef")
        return bytes.fromhex(d), j
    if c == "s":
        d, j = _span(s, i + 1, lambda ch: ch.isdigit() or ch == ".")
        return ("".join(chr(int(x)) for x in d.split(".")) if d else ""), j
    if c in "LU":
        xs, j = _pl(s, i + 2)
        return (xs if c == "L" else tuple(xs)), j + 1
    if c == "D":
        ks, j = _pl(s, i + 2)
        vs, j = _pl(s, j + 1)
        return dict(zip(ks, vs)), j + 1
    if c == "I":
        d, j = _span(s, i + 1, str.isdigit)
        xs, j = _pl(s, j + 1)
        if int(d) == META_CID and len(xs) == len(FIELDS):
            m = BeaconMetadata()
            for f, x in zip(FIELDS, xs):
                setattr(m, f, x)
            return m, j + 1
        if int(d) in (0, 1):        # HttpRequest / HttpResponse (cids of tools/gen/py_c2u.py)
            from dissect.cobaltstrike import c2 as _c2
            return (_c2.HttpRequest if int(d) == 0 else _c2.HttpResponse)(*xs), j + 1
    raise RuntimeError("pparse: " + s[i:i + 20])


# ---------------------------------------------------------------------------------------------------------------------
# random operands
# ---------------------------------------------------------------------------------------------------------------------
def rint(rng):
    return rng.choice([0, 1, -1, 2, 5, 8, 51, 52, 59, 255, 256, 65535, 65536, 48879, 2 ** 31, 2 ** 32 - 1, 2 ** 32, -2 ** 31, 2 ** 64, -7])


def rbytes(rng):
    n = rng.choice([0, 1, 2, 3, 8, 15, 16, 17, 20, 58, 59, 60, 64, 70])
    if rng.random() < 0.3:
        return bytes(n)
    return bytes(rng.randrange(256) for _ in range(n))


def rstr(rng):
    return rng.choice(["", "a", "abc", "size", "magic", "é", "0"])


def rmeta(rng, clean=False):
    """a BeaconMetadata object; `clean`: only in-range ints and bytes"""
    m = BeaconMetadata()
    for f in FIELDS:
        if f in CHARS:
            v = rbytes(rng) if f == "info" or rng.random() < 0.4 else bytes(rng.randrange(256) for _ in range(16))
            if not clean and rng.random() < 0.1:
                v = None
        else:
            lim = 256 ** WIDTH[f]
            v = rng.choice([0, 1, lim - 1, rng.randrange(lim), rng.randrange(lim)])
            if not clean and rng.random() < 0.12:
                v = rng.choice([lim, -1, None, True, False, b"ab", "a", 2 ** 64, [1], (1, 2), lim + 5])
        setattr(m, f, v)
    if rng.random() < 0.5 and isinstance(m.info, bytes):
        m.size = 51 + len(m.info)
    return m


def value(rng, depth=0):
    r = rng.random()
    if r < 0.08:
        return None
    if r < 0.14:
        return rng.random() < 0.5
    if r < 0.32:
        return rint(rng)
    if r < 0.5:
        return rbytes(rng)
    if r < 0.62:
        return rstr(rng)
    if r < 0.75:
        return rmeta(rng)
    if depth >= 1:
        return rint(rng)
    if r < 0.85:
        return [value(rng, depth + 1) for _ in range(rng.choice([0, 1, 2]))]
    if r < 0.94:
        return tuple(value(rng, depth + 1) for _ in range(rng.choice([0, 1, 2])))
    return {rng.choice([1, "a", b"k"]): value(rng, depth + 1) for _ in range(rng.choice([0, 1, 2]))}


def rplain(rng) -> bytes:
    """a byte string for `BeaconMetadata(bytes)`: consistent / inconsistent size fields, every kind of truncation"""
    info = bytes(rng.randrange(256) for _ in range(rng.choice([0, 0, 1, 3, 9, 40])))
    size = rng.choice([51 + len(info)] * 4 + [0, 50, 51, 52, 51 + len(info) + 1, max(0, 51 + len(info) - 1), 2 ** 32 - 1, 300])
    head = rng.choice([b"\x00\x00\xbe\xef", bytes(4), b"\xff\xff\xff\xff"]) + size.to_bytes(4, "big") + bytes(rng.randrange(256) for _ in range(51))
    d = head + info + bytes(rng.randrange(256) for _ in range(rng.choice([0, 0, 2])))
    if rng.random() < 0.25:
        d = d[: rng.randrange(len(d) + 1)]
    return d


# ---------------------------------------------------------------------------------------------------------------------
# reference implementations (CPython / cstruct themselves)
# ---------------------------------------------------------------------------------------------------------------------
def _setattr(x, name, v):
    setattr(x, name, v)
    return x


OPS = {"t07parse": lambda d: BeaconMetadata(d), "t07dumps": lambda x: x.dumps(), "t07len": len,
       "t07fmt": lambda v, w: format(v, f"0{w}x"), "getattr": getattr, "setattr": _setattr,
       "t07any": any, "t07all": all, "t07althex": lambda v: format(v, "#x"), "t07startswith": lambda x, p: x.startswith(p)}
ARITY = {"t07parse": 1, "t07dumps": 1, "t07len": 1, "t07fmt": 2, "getattr": 2, "setattr": 3, "t07any": 1, "t07all": 1, "t07althex": 1,
         "t07startswith": 2}


def _meta_ok(m) -> bool:
    """the attribute values `t07Dumps` models: anything in an integer field, `bytes` / `None` in a `char` array"""
    return all(getattr(m, f) is None or type(getattr(m, f)) is bytes or isinstance(getattr(m, f), bytes) for f in CHARS)


def _has_meta(v) -> bool:
    if isinstance(v, BeaconMetadata):
        return True
    if isinstance(v, (list, tuple)):
        return any(_has_meta(x) for x in v)
    if isinstance(v, dict):
        return any(_has_meta(x) for x in list(v.keys()) + list(v.values()))
    return False


def modelled(op, args) -> bool:
    a = args[0]
    if op == "t07parse":
        return type(a) is bytes
    if op in ("t07dumps", "t07len"):
        if isinstance(a, BeaconMetadata):
            return _meta_ok(a)
        return not _has_meta(a) or op == "t07len"
    if op == "t07fmt":
        return not isinstance(a, (BeaconMetadata, dict)) and 1 <= args[1] <= 99
    if op == "getattr":
        return isinstance(a, BeaconMetadata) and (args[1] in FIELDS or args[1] == "nofield")
    if op == "setattr":
        return args[1] in FIELDS or (args[1] == "nofield" and not isinstance(a, BeaconMetadata))
    if op in ("t07any", "t07all"):
        return not isinstance(a, BeaconMetadata)
    if op == "t07althex":
        return not isinstance(a, (BeaconMetadata, dict))
    if op == "t07startswith":
        # a NamedTuple instance as the prefix argument is not modelled; metadata objects have no startswith (AttributeError) - fine
        return not _has_meta(args[1]) and not isinstance(a, BeaconMetadata)
    return True


def case(rng):
    op = rng.choice(sorted(OPS))
    if op == "t07parse":
        args = [rplain(rng)]
    elif op in ("t07dumps", "t07len"):
        args = [rmeta(rng) if rng.random() < 0.75 else value(rng)]
    elif op == "t07fmt":
        args = [rng.choice([rint(rng), rint(rng), rng.random() < 0.5, None, rbytes(rng), rstr(rng), [1], (1,)]), rng.choice([8, 8, 8, 1, 2, 4, 12])]
    elif op == "getattr":
        args = [rmeta(rng), rng.choice(FIELDS + ["nofield"])]
    elif op in ("t07any", "t07all"):
        args = [value(rng) if rng.random() < 0.3 else rng.choice([list, tuple])(rng.choice([None, b"", b"k", 0, 1, "", "a", [], [0], (), True, False])
                                                                               for _ in range(rng.choice([0, 1, 2, 3])))]
    elif op == "t07althex":
        args = [rng.choice([rint(rng), rint(rng), rint(rng), rng.random() < 0.5, None, rbytes(rng), rstr(rng), [1], (1,)])]
    elif op == "t07startswith":
        pool_b = [b"", b"/", b"/a", b"/ab", b"/abc", b"GET", b"/b"]
        pool_s = ["", "/", "/a", "/ab", "GET"]
        x = rng.choice(pool_b + pool_b + pool_s + [None, 5, [b"/a"], (b"/a",)])
        r = rng.random()
        if r < 0.35:
            pre = rng.choice(pool_b + pool_s + [None, 5])
        elif r < 0.85:
            pre = tuple(rng.choice(pool_b + pool_b + pool_b + pool_s + [None, 3]) for _ in range(rng.choice([0, 1, 2, 3])))
        else:
            pre = rng.choice([[b"/a"], [], {b"/a": 1}, True])
        args = [x, pre]
    else:
        args = [rmeta(rng) if rng.random() < 0.8 else value(rng), rng.choice(FIELDS + ["nofield"]), value(rng, 1)]
    assert len(args) == ARITY[op]
    if not modelled(op, args):
        return None
    try:
        return "pyu " + op + " " + " ".join(pshow(x) for x in args)
    except RuntimeError:
        return None


def run(line: str) -> str:
    """the real operation on the operands of a `pyu` line"""
    w = line.split()
    r = OPS[w[1]](*[pparse(t) for t in w[2:]])
    return "ok " + pshow(r)

"""C13 — a profile generated from a beacon configuration is valid and faithful.

Abstract configurations (ordered settings with *pretty* values) are turned into
  * a line for the Lean model (`lean/CsVerif/Driver/C13.lean`), and
  * a settings TLV block by encoders written here, independently of the library (C02/C03 style),
then   BeaconConfig(block) -> C2Profile.from_beacon_config(cfg) -> as_text() -> from_text() -> as_dict().

streams (same payload, three observables)
  gen  the generated tree (string labels) + "the library's pretty values are the ones on the line"   (correspondence)
  rt   as_text() succeeds, the text parses back to the same tree (the `# dns_resolver` comment aside), as_dict() of the
       parsed text vs the model's declarative dictionary `specDict`                                    (correspondence)
  chk  the property instance: well-formed -> no exception, valid text, same tree, dictionary == the EXPECTED dictionary
       computed here from the abstract configuration alone (independent oracle), no `{ }` in the text  (property)
  g-gen  every case of `gen` also run through the definition TRANSLATED from the source of `C2Profile.from_beacon_config`
       (tools/gen/py_c2gen.py -> Gen/PyC2Gen.lean, builder API instantiated in Model/C13Gen.lean; proved equal to the model in
       Props/C13Gen.lean) and compared with the real class method                                        (correspondence)
  g-arg  the translated definition vs the class method on configuration objects whose pretty values have other kinds than
       beacon.py produces (tools/harness/pyuval_t13.py)                                                  (correspondence)
  pyu  the run-time operations added for the translation (Model/PyU_T13.lean) vs CPython                (correspondence)
"""
from __future__ import annotations

import io
import itertools
import logging
import re
import struct
import zipfile
from pathlib import Path

import lark
from lark import Token, Tree
from lark.reconstruct import Reconstructor

from dissect.cobaltstrike import beacon as B
from dissect.cobaltstrike import c2profile as c2p
from dissect.cobaltstrike.beacon import BeaconConfig
from dissect.cobaltstrike.c2profile import C2Profile

from . import common as C
from . import pyuval_t13

logging.getLogger("dissect.cobaltstrike.beacon").setLevel(logging.CRITICAL)

ID = "C13"
DRIVER = "drv_c13"
GEN = ["grammar", "profile_gen", "strlit"]
GEN += ["beacon", "py_c2prof", "py_c2gen"]
EXTRA_PROP_FILES = ["Props/C13Gen.lean"]
STREAMS = {
    "gen": {"relevant": False, "desc": "C2Profile.from_beacon_config(BeaconConfig(block)).tree vs fromBeaconConfig; pretty values / uris of the library vs the line"},
    "rt": {"relevant": False, "desc": "as_text() succeeds / from_text(text).tree == tree (comment aside) / from_text(text).as_dict() vs specDict"},
    "chk": {"relevant": True, "desc": "property instance: WellFormedCfg -> total, valid, faithful (as_dict == independent expected dictionary), no empty `{ }` block in the text"},
    "g-gen": {"relevant": False, "desc": "the definition TRANSLATED from the source of from_beacon_config (Gen/PyC2Gen.lean; builder API instantiated in Model/C13Gen.lean) vs the class method, on every case of gen"},
    "g-arg": {"relevant": False, "desc": "translated from_beacon_config vs the class method on configuration objects with pretty values of other kinds (tools/harness/pyuval_t13.py)"},
    "pyu": {"relevant": False, "desc": "run-time operations of Model/PyU_T13.lean (`is True`, dict.items, defaultdict(list) append) vs CPython"},
}
TRUSTED = [
    "tools/harness/c13.py: generators, the independent TLV/program encoders, the independent expected dictionary and well-formedness "
    "predicate; line protocol parsing in lean/CsVerif/Driver/C13.lean",
    "tools/gen/profile_gen.py (ast walk of from_beacon_config, DataTransformBlock.__init__, parse_transform_binary, parse_recover_binary, "
    "beacon_gate_options_string, as_dict) and tools/gen/grammar.py",
    "the pretty functions of beacon.py and dict semantics of settings_by_index are C02/C03's subject: the harness checks on every case "
    "that the library presents exactly the pretty values written on the line (`pv=T`)",
    "Lark: the Reconstructor is modelled by C10's printTree (the theorems go through `Derives` = existence of a derivation of the generated "
    "grammar table), the lexer by C10's lexProfile, the STRING regex by C12's scanner; the LALR parser itself is trusted: "
    "`from_text(as_text()).tree == tree` (the `# dns_resolver` comment aside) is compared on every case, not proved",
    "as_dict is represented by the declarative projection specDict (production lookup in the generated grammar + the as_dict value rules; "
    "C11's subject is that the token walk computes it): compared with the real as_dict on every case",
    "a shared Reconstructor instance replaces the per-call `Reconstructor(c2profile_parser)` inside the harness (same class, same "
    "parser object; only its internal parser cache is reused); every 40th heavy case runs with the library's own per-call instance",
    "modelled, not verified: str.lower/replace/partition/join, slicing, f-strings of ints, defaultdict insertion order, Python truthiness",
    "translation tie (Props/C13Gen.lean): tools/py2leanu.py + Model/PyU.lean, PyU_T12.lean, PyU_T13.lean (Python semantics of the operations "
    "the translated from_beacon_config uses), tools/gen/py_c2gen.py (logging dropped, builder API external with block objects threaded as "
    "values under a checked no-aliasing discipline, branches outlined, BeaconSetting members as constants), and the instantiation of the "
    "builder API in Model/C13Gen.lean (value_to_string = the translated one of C12, DataTransformBlock = the model's dtKids): validated on "
    "every run by g-gen (every gen case), g-arg (values of other kinds) and pyu (the added run-time operations vs CPython)",
]
ASSUMPTIONS = [
    "pretty values have the shapes beacon.py produces for the canonical TLV types; text is latin-1; execute items are written on the line as the UTF-8 "
    "bytes of the pretty `str` (= the configuration bytes: parse_execute_list decodes UTF-8, the generator encodes UTF-8 again); only valid "
    "UTF-8 names are generated (invalid ones make parse_execute_list raise UnicodeDecodeError: C03's subject)",
    "BeaconGate API names reach the generator in set-iteration order: both sides compare the block with its non-group tail sorted "
    "(the harness checks that the tree lists them in the order of the pretty value)",
    "well-formed = ANY latin-1 text in text settings (backslashes, quotes, control and non-ASCII characters; NUL cannot be stored in a "
    "configuration string), any SETTING_DOMAINS value (odd field counts / empty URIs included: missing URIs are skipped, no `uri` option "
    "when nothing is left), execute items as parse_execute_list writes them (a known name or `CreateThread \"<any text>\"` / "
    "`CreateRemoteThread \"<any text>\"`: backslashes, quotes, control and non-ASCII characters in module / function names included), "
    "programs with every BUILD group terminated once and last, exactly one `print` in the recover program, defined enum values: "
    "no character restriction anywhere",
    "the http-get server output is promised in *recover* order (the configuration only stores the recover program and lengths; "
    "arguments are `X`*n placeholders): the generated block lists the steps in the order the client undoes them",
]
RULE = ("single-setting / all-present / random subset-and-order configurations over typed value generators (zero and non-zero guards, every "
        "transform/recover opcode with nasty byte arguments, every execute name, all single-flag gate vectors and group complements, "
        "text with backslashes / quotes / control bytes / non-ASCII latin-1, None / empty URIs and odd SETTING_DOMAINS field counts, "
        "execute module / function names with backslashes, quotes, control characters and multi-byte UTF-8), "
        "malformed programs, duplicates, sample beacons; distinct = hash of (stream, line); non-trivial = a "
        "non-empty tree (gen), printable text with a non-empty dictionary (rt), a well-formed configuration (chk)")

VERIF = Path(__file__).resolve().parent.parent.parent
# Repaired in /repo, hence ordinary property-relevant (`chk`) cases now: text options with backslashes (fix 1fcf339), odd / empty
# SETTING_DOMAINS (fix 8acec71), backslashes in the quoted part of execute items (fix 9ae0a64).  No known finding is matched here.

# ----------------------------------------------------------------------------------------------------------------
# Cobalt Strike's numbering, written by hand (independent of the library's enums)
# ----------------------------------------------------------------------------------------------------------------
EN = ["BASE64", "BASE64URL", "NETBIOS", "NETBIOSU", "URI_APPEND", "PRINT", "MASK"]
EN_OP = [3, 13, 8, 11, 12, 4, 15]
EN_KW = ["base64", "base64url", "netbios", "netbiosu", "uri-append", "print", "mask"]
EN_TERM = [False, False, False, False, True, True, False]
ARG = ["HEADER", "PARAMETER", "APPEND", "PREPEND"]
ARG_OP = [6, 5, 1, 2]
ARG_KW = ["header", "parameter", "append", "prepend"]
ARG_TERM = [True, True, False, False]
STATIC = ["_HEADER", "_HOSTHEADER", "_PARAMETER"]
STATIC_OP = [10, 16, 9]
RFLAG = ["base64", "print", "netbios", "netbiosu", "base64url", "mask"]
RFLAG_OP = [3, 4, 8, 11, 13, 15]
EXEC_OP = {"CreateThread": 1, "SetThreadContext": 2, "CreateRemoteThread": 3, "RtlCreateUserThread": 4, "NtQueueApcThread": 5,
           "NtQueueApcThread_s": 8}
EXEC_SPECIAL = {"CreateThread": 6, "CreateRemoteThread": 7}
GATE_FIELDS = ["InternetOpenA", "InternetConnectA", "VirtualAlloc", "VirtualAllocEx", "VirtualProtect", "VirtualProtectEx",
               "VirtualFree", "GetThreadContext", "SetThreadContext", "ResumeThread", "CreateThread", "CreateRemoteThread",
               "OpenProcess", "OpenThread", "CloseHandle", "CreateFileMappingA", "MapViewOfFile", "UnmapViewOfFile",
               "VirtualQuery", "DuplicateHandle", "ReadProcessMemory", "WriteProcessMemory", "ExitThread"]
GATE_GROUPS = {"Comms": GATE_FIELDS[0:2], "Core": GATE_FIELDS[2:22], "Cleanup": GATE_FIELDS[22:23], "All": GATE_FIELDS}
GROUP_ORDER = ["All", "Comms", "Core", "Cleanup"]
BOF = {"VirtualAlloc": 0, "MapViewOfFile": 1, "HeapAlloc": 2}

TEXT_SETTINGS = [9, 10, 26, 27, 29, 30, 60, 61, 62, 63, 64, 65, 66]
INT_SETTINGS = [3, 5, 38, 41, 43, 44, 45, 52, 20, 6, 48, 76, 77]
GUARDED = [58, 57, 41, 45, 66, 48, 77, 78]
PASS_INT = [4, 28, 39, 50, 35, 55, 40, 1, 2, 31, 37]
PASS_TEXT = [54, 15]
PASS_RAW = [14, 53, 7, 42, 74, 100, 75]
UNDERSTOOD = [3, 5, 8, 29, 30, 26, 27, 38, 9, 10, 11, 12, 13, 58, 57, 41, 43, 44, 45, 46, 47, 51, 52, 60, 61, 62, 63, 64, 65, 66, 19, 20, 6, 48,
              16, 76, 77, 78]

# plain options: setting -> dictionary key
PLAIN = {3: "sleeptime", 5: "jitter", 29: "spawnto_x86", 30: "spawnto_x64", 9: "useragent", 58: "tcp_frame_header", 57: "smb_frame_header",
         26: "http-get.verb", 27: "http-post.verb", 10: "http-post.uri", 38: "stage.cleanup", 41: "stage.sleep_mask",
         76: "stage.data_store_size", 45: "process-inject.min_alloc", 16: "process-inject.bof_allocator", 60: "dns-beacon.beacon",
         61: "dns-beacon.get_A", 62: "dns-beacon.get_AAAA", 63: "dns-beacon.get_TXT", 64: "dns-beacon.put_metadata",
         65: "dns-beacon.put_output", 19: "dns-beacon.dns_idle", 20: "dns-beacon.dns_sleep", 6: "dns-beacon.maxdns"}
LIST_PROPS = ["stage.transform-x86.header", "process-inject.transform-x86", "process-inject.execute", "http-post.server.output",
              "http-post.client.id", "http-post.client.output", "http-stager.server.output", "http-get.client.metadata",
              "http-get.server.output"]


def be16(n):
    return struct.pack(">H", n)


def be32(n):
    return struct.pack(">I", n)


def tlv(index, typ, value):
    return be16(index) + be16(typ) + be16(len(value)) + value


# ----------------------------------------------------------------------------------------------------------------
# abstract settings  (idx, kind, value)   kind in i1 i2 s b n T R X J G
#   T: [("B", arg) | ("E", i) | ("A", i, bytes) | ("S", i, bytes)]      R: [("a", n) | ("p", n) | ("f", i)]
#   X: [bytes | None]      J: [("A"|"P", bytes)]      G: [bytes]  (groups first, then API names sorted by lower case)
# ----------------------------------------------------------------------------------------------------------------

def enc_value(idx, kind, val) -> list:
    if kind in ("i1", "i2"):
        return [kind, str(val)]
    if kind in ("s", "b"):
        return [kind, C.hx(val)]
    if kind == "n":
        return ["n"]
    if kind == "T":
        out = ["T", str(len(val))]
        for st in val:
            if st[0] == "B":
                out.append("B:" + C.hx(st[1]))
            elif st[0] == "E":
                out.append(f"E:{st[1]}")
            else:
                out.append(f"{st[0]}:{st[1]}:{C.hx(st[2])}")
        return out
    if kind == "R":
        return ["R", str(len(val))] + [(f"{st[0]}{st[1]}") for st in val]
    if kind == "X":
        return ["X", str(len(val))] + [("none" if it is None else C.hx(it)) for it in val]
    if kind == "J":
        return ["J", str(len(val))] + [f"{n}:{C.hx(v)}" for n, v in val]
    if kind == "G":
        return ["G", str(len(val))] + [C.hx(v) for v in val]
    raise ValueError(kind)


def enc_payload(uris, entries) -> str:
    out = ["U", str(len(uris))] + [("none" if u is None else C.hx(u)) for u in uris] + ["S", str(len(entries))]
    for idx, kind, val in entries:
        out.append(str(idx))
        out += enc_value(idx, kind, val)
    return " ".join(out)


def dec_payload(words):
    pos = 0

    def nxt():
        nonlocal pos
        w = words[pos]
        pos += 1
        return w

    def hexopt(w):
        return None if w == "none" else C.unhx(w)
    assert nxt() == "U"
    uris = [hexopt(nxt()) for _ in range(int(nxt()))]
    assert nxt() == "S"
    entries = []
    for _ in range(int(nxt())):
        idx = int(nxt())
        kind = nxt()
        if kind in ("i1", "i2"):
            val = int(nxt())
        elif kind in ("s", "b"):
            val = C.unhx(nxt())
        elif kind == "n":
            val = None
        elif kind == "T":
            val = []
            for _ in range(int(nxt())):
                p = nxt().split(":")
                if p[0] == "B":
                    val.append(("B", C.unhx(p[1])))
                elif p[0] == "E":
                    val.append(("E", int(p[1])))
                else:
                    val.append((p[0], int(p[1]), C.unhx(p[2])))
        elif kind == "R":
            val = []
            for _ in range(int(nxt())):
                w = nxt()
                val.append((w[0], int(w[1:])))
        elif kind == "X":
            val = [hexopt(nxt()) for _ in range(int(nxt()))]
        elif kind == "J":
            val = []
            for _ in range(int(nxt())):
                n, v = nxt().split(":")
                val.append((n, C.unhx(v)))
        elif kind == "G":
            val = [C.unhx(nxt()) for _ in range(int(nxt()))]
        else:
            raise ValueError("bad kind " + kind)
        entries.append((idx, kind, val))
    assert pos == len(words), (pos, len(words))
    return uris, entries


# ----------------------------------------------------------------------------------------------------------------
# independent encoders: abstract setting -> TLV
# ----------------------------------------------------------------------------------------------------------------
_EXEC_RE = re.compile(rb'^(CreateThread|CreateRemoteThread) "([^!]*)!(.*?)(?:\+0x([0-9a-f]+))?"$', re.S)


def enc_exec(items):
    out = b""
    for it in items:
        if it is None:
            out += bytes([9])
            continue
        if it in (k.encode() for k in EXEC_OP):
            out += bytes([EXEC_OP[it.decode()]])
            continue
        m = _EXEC_RE.match(it)
        if not m:
            raise ValueError(f"execute item {it!r} cannot be produced by parse_execute_list")
        off = int(m.group(4), 16) if m.group(4) else 0
        mod, fn = m.group(2), m.group(3)
        again = m.group(1) + b' "' + mod + b"!" + fn + ((b"+0x%x" % off) if off else b"") + b'"'
        if again != it or off > 0xFFFF or mod.endswith(b"\0") or fn.endswith(b"\0"):
            raise ValueError(f"execute item {it!r} is not a text parse_execute_list can produce (`+0x0`, leading zeros, …)")
        out += bytes([EXEC_SPECIAL[m.group(1).decode()]]) + be16(off) + be32(len(mod) + 1) + mod + b"\0" + be32(len(fn)) + fn
    return out


def gate_flags(names):
    on = set()
    for n in names:
        n = n.decode()
        on |= set(GATE_GROUPS[n]) if n in GATE_GROUPS else {n}
    return bytes(1 if f in on else 0 for f in GATE_FIELDS)


def tlv_of(idx, kind, val, default_build=None) -> bytes:
    if kind == "i1":
        return tlv(idx, 1, be16(val))
    if kind == "i2":
        return tlv(idx, 2, be32(val))
    if kind == "s":
        if idx == 19:
            a, b_, c, d = (int(x) for x in val.split(b"."))
            return tlv(19, 2, bytes([a, b_, c, d]))
        if idx == 16:
            return tlv(16, 1, be16(BOF[val.decode()]))
        return tlv(idx, 3, val + b"\0" * (1 + len(val) % 3))
    if kind == "n":
        return tlv(idx, 1, be16(7))
    if kind == "b":
        if idx in (57, 58):
            return tlv(idx, 3, be16(len(val) + 4) + val)
        return tlv(idx, 3, val)
    if kind == "T":
        dflt = {12: b"metadata", 13: b"id"}[idx]
        out = b""
        for st in val:
            if st[0] == "B":
                out += be32(7) + be32(0 if st[1] == dflt else 1 if st[1] == b"output" else 5)
            elif st[0] == "E":
                out += be32(EN_OP[st[1]])
            elif st[0] == "A":
                out += be32(ARG_OP[st[1]]) + be32(len(st[2])) + st[2]
            else:
                out += be32(STATIC_OP[st[1]]) + be32(len(st[2])) + st[2]
        return tlv(idx, 3, out + be32(0))
    if kind == "R":
        out = b""
        for st in val:
            if st[0] == "a":
                out += be32(1) + be32(st[1])
            elif st[0] == "p":
                out += be32(2) + be32(st[1])
            else:
                out += be32(RFLAG_OP[st[1]])
        return tlv(idx, 3, out + be32(0))
    if kind == "X":
        return tlv(idx, 3, enc_exec(val) + b"\0")
    if kind == "J":
        if [n for n, _ in val] == ["A", "P"]:
            return tlv(idx, 3, be32(len(val[0][1])) + val[0][1] + be32(len(val[1][1])) + val[1][1])
        if [n for n, _ in val] == ["A"]:
            return tlv(idx, 3, be32(len(val[0][1])) + val[0][1])
        if not val:
            return tlv(idx, 3, b"")
        raise ValueError("process-inject transform list shape cannot be produced by the parser")
    if kind == "G":
        return tlv(idx, 3, gate_flags(val))
    raise ValueError(kind)


def dict_semantics(entries):
    """settings_by_index: first position, last value"""
    pos, out = {}, []
    for e in entries:
        if e[0] in pos:
            out[pos[e[0]]] = e
        else:
            pos[e[0]] = len(out)
            out.append(e)
    return out


def uris_of(entries):
    """config.uris, from the property's reading of SETTING_DOMAINS: `domain,uri,domain,uri,…`"""
    dom = None
    for idx, kind, val in entries:
        if idx == 8:
            dom = (kind, val)
    if dom is None or dom[0] != "s":
        return []
    parts = dom[1].split(b",")
    uris = []
    for i in range(0, len(parts), 2):
        u = parts[i + 1] if i + 1 < len(parts) else None
        if u not in uris:
            uris.append(u)
    return uris


# ----------------------------------------------------------------------------------------------------------------
# the library side
# ----------------------------------------------------------------------------------------------------------------
def pretty_of(idx, kind, val):
    """the Python object settings_by_index must hold for this abstract setting"""
    if kind in ("i1", "i2"):
        return val
    if kind == "s":
        return val.decode("latin-1")
    if kind == "b":
        return val
    if kind == "n":
        return None
    if kind == "T":
        out = []
        for st in val:
            if st[0] == "B":
                out.append(("BUILD", st[1].decode()))
            elif st[0] == "E":
                out.append((EN[st[1]], True))
            elif st[0] == "A":
                out.append((ARG[st[1]], st[2]))
            else:
                out.append((STATIC[st[1]], st[2]))
        return out
    if kind == "R":
        return [({"a": "append", "p": "prepend"}[st[0]], st[1]) if st[0] in "ap" else (RFLAG[st[1]], True) for st in val]
    if kind == "X":
        return [None if it is None else it.decode("utf-8") for it in val]       # items are the UTF-8 bytes of the text
    if kind == "J":
        return [({"A": "append", "P": "prepend"}[n], v) for n, v in val]
    if kind == "G":
        return [v.decode() for v in val]
    raise ValueError(kind)


def gate_canon(names):
    """groups (in the order given) first, the rest sorted by lower-cased name"""
    g = [n for n in names if n in GROUP_ORDER or n.lower() in [x.lower() for x in GROUP_ORDER]]
    t = [n for n in names if n not in g]
    return g + sorted(t, key=lambda s: s.lower())


def check_pretty(cfg, uris, entries):
    sbi = cfg.settings_by_index
    ded = dict_semantics(entries)
    if list(sbi.keys()) != [e[0] for e in ded]:
        return False
    for idx, kind, val in ded:
        if idx not in UNDERSTOOD:
            continue
        want, got = pretty_of(idx, kind, val), sbi[idx]
        if kind == "G":
            if gate_canon(list(got)) != want:
                return False
        elif got != want or not isinstance(got, type(want)) or isinstance(got, bool) != isinstance(want, bool):
            return False            # (raw TYPE_PTR values are a cstruct subclass of bytes)
    return list(cfg.uris) == [None if u is None else u.decode("latin-1") for u in uris]


def lbl(x):
    return "N" if x is None else (x if isinstance(x, bytes) else str(x).encode("latin-1")).hex()


def enc_tree(t) -> list:
    if isinstance(t, Token):
        return [("o" if t.type == "OPTION" else "s") + str(t).encode("latin-1").hex()]
    kids = list(t.children)
    if t.data == "beacon_gate":
        groups = [k for k in kids if isinstance(k, Tree) and k.data in ("all", "comms", "core", "cleanup")]
        rest = [k for k in kids if not (isinstance(k, Tree) and k.data in ("all", "comms", "core", "cleanup"))]
        if kids[:len(groups)] == groups:
            kids = groups + sorted(rest, key=lambda k: str(k.data))
    out = [f"n{lbl(t.data)}:{len(kids)}"]
    for c in kids:
        out += enc_tree(c)
    return out


def strip_comments(t):
    if isinstance(t, Token):
        return t
    return Tree(t.data, [strip_comments(c) for c in t.children if not (isinstance(c, Tree) and c.data == "comment_dns_resolver")])


def canon_dict(d) -> dict:
    out = {}
    for k, vs in d.items():
        vs = list(vs)
        if k == "stage.beacon_gate":
            vs = gate_canon(vs)
        out[k] = vs
    return out


def enc_dict(d) -> str:
    items = []
    for k, vs in d.items():
        enc = []
        for v in vs:
            if isinstance(v, tuple):
                if all(isinstance(x, str) for x in v) and len(v) == 2:
                    enc.append("p" + v[0].encode("latin-1").hex() + "," + v[1].encode("latin-1").hex())
                else:
                    enc.append("t" + str(v[0]).encode("latin-1").hex() + "".join("," + bytes(x).hex() for x in v[1:]))
            elif isinstance(v, bytes):
                enc.append("b" + v.hex())
            else:
                enc.append("r" + str(v).encode("latin-1").hex())
        items.append((k.encode("latin-1").hex(), ";".join(enc)))
    return " ".join(f"{k}={v}" for k, v in sorted(items))


_SHARED = {"rec": None, "n": 0}


class _Pipe:
    """one run of the real library on a payload; cached for the rt / chk lines that follow a gen line"""
    last_key = None
    last = None


def run_pipeline(payload: str, heavy: bool):
    key = (payload, heavy)
    if _Pipe.last_key == key:
        return _Pipe.last
    uris, entries = dec_payload(payload.split(" "))
    res = {"uris": uris, "entries": entries}
    block = b"".join(tlv_of(*e) for e in entries)
    cfg = BeaconConfig(block)
    res["pv"] = check_pretty(cfg, uris, entries)
    try:
        profile = C2Profile.from_beacon_config(cfg)
    except Exception as e:  # noqa: BLE001
        res["exc"] = e
        _Pipe.last_key, _Pipe.last = key, res
        return res
    res["tree"] = profile.tree
    # the tree must list the BeaconGate names in the order of the pretty value
    gate_ok = True
    for idx, val in cfg.settings_by_index.items():
        if idx == 78 and val:
            st = [c for c in profile.tree.children if isinstance(c, Tree) and c.data == "stage"]
            bg = [c for c in (st[0].children if st else []) if isinstance(c, Tree) and c.data == "beacon_gate"]
            gate_ok = bool(bg) and [str(c.data) for c in bg[0].children] == [v.lower() for v in val]
    res["pv"] = res["pv"] and gate_ok
    if heavy:
        saved = c2p.Reconstructor
        _SHARED["n"] += 1
        if _SHARED["rec"] is None:
            _SHARED["rec"] = Reconstructor(c2p.c2profile_parser)
        if _SHARED["n"] % 40 != 0:
            c2p.Reconstructor = lambda parser: _SHARED["rec"] if parser is c2p.c2profile_parser else saved(parser)
        try:
            try:
                text = profile.as_text()
                res["text"] = text
            except Exception as e:  # noqa: BLE001
                res["text_exc"] = e
                text = None
            if text is not None:
                try:
                    p2 = C2Profile.from_text(text)
                    res["reparse"] = p2.tree == strip_comments(profile.tree)
                    try:
                        res["dict"] = canon_dict(p2.as_dict())
                    except ValueError as e:            # a literal the generator left unescaped (`\\x.d`): no dictionary
                        res["dict"] = None
                        res["dict_exc"] = e
                except lark.exceptions.LarkError:
                    res["reparse"] = False
        finally:
            c2p.Reconstructor = saved
    _Pipe.last_key, _Pipe.last = key, res
    return res


def impl(stream, line):
    if stream == "pyu":
        return pyuval_t13.run(line)
    if stream == "g-arg":
        return pyuval_t13.garg_run(line)
    op, _, payload = line.partition(" ")
    if stream in ("gen", "g-gen"):
        r = run_pipeline(payload, False)
        if "exc" in r:
            raise r["exc"]
        return f"ok pv={C.tf(r['pv'])} tree " + " ".join(enc_tree(r["tree"]))
    r = run_pipeline(payload, True)
    if stream == "rt":
        if "exc" in r:
            raise r["exc"]
        if "text" not in r:
            return "ok text=F"
        if not r.get("reparse"):
            return "ok text=T reparse=F"
        if "dict_exc" in r:
            raise r["dict_exc"]
        return ("ok text=T reparse=T dict " + enc_dict(r["dict"])).rstrip()
    if stream == "chk":
        ded = dict_semantics(r["entries"])
        if not py_wf(ded, r["uris"]):
            return "wf=F"
        total = "exc" not in r
        valid = total and "text" in r and bool(r.get("reparse"))
        faithful = valid and r["dict"] == py_expected(ded, r["uris"])
        noempty = total and "text" in r and not has_empty_block(r["text"])
        return f"wf=T total={C.tf(total)} valid={C.tf(valid)} faithful={C.tf(faithful)} noempty={C.tf(noempty)}"
    raise RuntimeError("unknown stream " + stream)


# ----------------------------------------------------------------------------------------------------------------
# the property, stated independently: well-formed configurations and the expected dictionary
# ----------------------------------------------------------------------------------------------------------------
_LITERAL = re.compile(r'"(?:[^"\\]|\\.)*"', re.S)
_EMPTY_BLOCK = re.compile(r"\{\s*\}")


def has_empty_block(text: str) -> bool:
    """`keyword { }` anywhere in the profile text (string literals blanked first).  The `# dns_resolver "…";` line counts as content:
    a dns-beacon block that only states the resolver is written (and re-parses as an empty block, the statement being a comment)"""
    return bool(_EMPTY_BLOCK.search(_LITERAL.sub('""', text)))


def esc_bytes(bs: bytes) -> str:
    """a byte string as it is written between the quotes of a profile literal"""
    out = []
    for c in bs:
        if c == 0x22:
            out.append('\\"')
        elif c == 0x5C:
            out.append("\\\\")
        elif c == 9:
            out.append("\\t")
        elif c == 10:
            out.append("\\n")
        elif c == 13:
            out.append("\\r")
        elif 0x20 <= c < 0x7F:
            out.append(chr(c))
        else:
            out.append("\\x%02x" % c)
    return "".join(out)


def lit(kind, val) -> str:
    if kind in ("i1", "i2"):
        return str(val)
    if kind in ("s", "b"):            # configuration text is data: written with the same escapes as bytes
        return esc_bytes(val)
    raise ValueError(kind)


def truthy(kind, val) -> bool:
    if kind == "n":
        return False
    return bool(val)


def split_builds(prog):
    groups = []
    for st in prog:
        if st[0] == "B":
            groups.append((st[1], []))
        elif st[0] in ("E", "A") and groups:
            groups[-1][1].append(st)
    return groups


def step_is_term(st):
    return EN_TERM[st[1]] if st[0] == "E" else ARG_TERM[st[1]]


def wf_program(prog, allowed):
    seen_build = False
    for st in prog:
        if st[0] == "B":
            seen_build = True
        elif st[0] in ("E", "A") and not seen_build:
            return False
    groups = split_builds(prog)
    names = [g[0] for g in groups]
    if len(set(names)) != len(names) or any(n not in allowed for n in names):
        return False
    for _, steps in groups:
        if not steps or not step_is_term(steps[-1]) or any(step_is_term(s) for s in steps[:-1]):
            return False
    return True


def exec_special(it) -> bool:
    """`CreateThread "…"` / `CreateRemoteThread "…"`"""
    if it is None:
        return False
    name, sp, rest = it.partition(b" ")
    return (bool(sp) and name in (b"CreateThread", b"CreateRemoteThread") and len(rest) >= 2
            and rest[:1] == b'"' and rest[-1:] == b'"')


def wf_exec_item(it):
    """a known name, or `CreateThread "<any text>"` / `CreateRemoteThread "<any text>"`"""
    if it is None:
        return False
    if it in [n.encode() for n in EXEC_OP] + [b"NtQueueApcThread-s"]:
        return True
    return exec_special(it)


def wf_scalar(kind, val):
    return kind in ("i1", "i2", "b", "s")          # any number, any bytes, any latin-1 text


def py_wf(entries, uris) -> bool:
    idxs = [e[0] for e in entries]
    if len(set(idxs)) != len(idxs):
        return False
    for idx, kind, val in entries:
        if idx not in UNDERSTOOD:
            continue
        if idx == 8:
            pass                                    # any SETTING_DOMAINS value: missing URIs are skipped
        elif idx == 11:
            if kind != "R" or sum(1 for st in val if st == ("f", 1)) != 1:
                return False
        elif idx in (12, 13):
            if kind != "T" or not wf_program(val, [b"metadata", b"output"] if idx == 12 else [b"id", b"output"]):
                return False
        elif idx in (46, 47):
            if kind != "J":
                return False
        elif idx == 51:
            if kind != "X" or not all(wf_exec_item(it) for it in val):
                return False
        elif idx == 78:
            if kind != "G" or any(v.decode() not in GROUP_ORDER + GATE_FIELDS for v in val):
                return False
        elif not wf_scalar(kind, val):
            return False
    return True


def py_expected(entries, uris) -> dict:
    d = {}

    def add(key, v):
        d.setdefault(key, []).append(v)

    def dt_entry(key, st):
        if st[0] == "E":
            add(key, EN_KW[st[1]])
        elif key in LIST_PROPS:
            add(key, (ARG_KW[st[1]], st[2]))
        else:
            add(key + "." + ARG_KW[st[1]], esc_bytes(st[2]))

    for idx, kind, val in entries:
        if idx in PLAIN:
            if idx in GUARDED and not truthy(kind, val):
                continue
            add(PLAIN[idx], lit(kind, val))
        elif idx == 8:
            joined = b", ".join(u for u in uris if u is not None)
            if joined:                              # no URI at all (empty DOMAINS, `a.com`, `a.com,`): the option is absent
                add("http-get.uri", esc_bytes(joined))
        elif idx == 11:
            steps = [st for st in val if st != ("f", 1)] + [st for st in val if st == ("f", 1)]
            for st in steps:
                if st[0] == "a":
                    add("http-get.server.output", ("append", b"X" * st[1]))
                elif st[0] == "p":
                    add("http-get.server.output", ("prepend", b"X" * st[1]))
                else:
                    add("http-get.server.output", RFLAG[st[1]])
        elif idx in (12, 13):
            blk = "http-get" if idx == 12 else "http-post"
            for st in val:
                if st[0] == "S" and st[1] in (0, 1):
                    a, _, b_ = st[2].partition(b": ")
                    add(blk + ".client.header", (esc_bytes(a), esc_bytes(b_)))
            for st in val:
                if st[0] == "S" and st[1] == 2:
                    a, _, b_ = st[2].partition(b"=")
                    add(blk + ".client.parameter", (esc_bytes(a), esc_bytes(b_)))
            for name, steps in split_builds(val):
                for st in steps:
                    dt_entry(f"{blk}.client.{name.decode()}", st)
        elif idx == 43 and kind in ("i1", "i2") and val in (64, 4):
            add("process-inject.startrwx", "true" if val == 64 else "false")
        elif idx == 44 and kind in ("i1", "i2") and val in (64, 32):
            add("process-inject.userwx", "true" if val == 64 else "false")
        elif idx in (46, 47):
            key = "process-inject.transform-x86" if idx == 46 else "process-inject.transform-x64"
            last = {}
            for n, v in val:
                last[n] = v
            for n, name in (("P", "prepend"), ("A", "append")):
                if last.get(n):
                    if key in LIST_PROPS:
                        add(key, (name, last[n]))
                    else:
                        add(key + "." + name, esc_bytes(last[n]))
        elif idx == 51:
            for it in val:
                name, sp, rest = it.partition(b" ")
                if sp:
                    add("process-inject.execute", (name.decode(), rest[1:-1]))
                else:
                    add("process-inject.execute", "NtQueueApcThread-s" if it == b"NtQueueApcThread_s" else it.decode())
        elif idx == 52:
            add("process-inject.allocator", "NtMapViewOfSection" if truthy(kind, val) else "VirtualAllocEx")
        elif idx == 48 and truthy(kind, val):
            add("process-inject.bof_reuse_memory", "true")
        elif idx == 77 and truthy(kind, val):
            add("http-beacon.data_required", "true")
        elif idx == 78:
            for v in val:
                add("stage.beacon_gate", v.decode())
    return d


def _parsed(line):
    uris, entries = dec_payload(line.split(" ")[1:])
    return uris, dict_semantics(entries)


def oracle(stream, line, out):
    if stream in ("pyu", "g-arg", "g-gen"):
        return None
    uris, ded = _parsed(line)
    wf = py_wf(ded, uris)
    if stream == "gen":
        return (not out.startswith("exc ")) if wf else None
    if stream == "rt":
        return out.startswith("ok text=T reparse=T") if wf else None
    if stream == "chk":
        return (out == "wf=T total=T valid=T faithful=T noempty=T") if wf else None
    return None


def nontrivial(stream, line, out):
    if stream in ("pyu", "g-arg"):
        return not out.startswith("exc ")
    if stream in ("gen", "g-gen"):
        return out.startswith("ok pv=T tree") and not out.endswith("7374617274:0")
    if stream == "rt":
        return out.startswith("ok text=T reparse=T dict ") and "=" in out.split("dict ", 1)[1]
    return out.startswith("wf=T")


def shrink(stream, line):
    if stream in ("pyu", "g-arg"):
        return
    op, _, payload = line.partition(" ")
    try:
        uris, entries = dec_payload(payload.split(" "))
    except Exception:  # noqa: BLE001
        return
    def emit(es, us=None):
        us = uris_of(es) if us is None else us
        try:                                    # only lines the independent encoder can turn into a configuration
            for e in es:
                tlv_of(*e)
        except Exception:  # noqa: BLE001
            return line
        return op + " " + enc_payload(us, es)
    for i in range(len(entries)):
        yield emit(entries[:i] + entries[i + 1:])
    for i, (idx, kind, val) in enumerate(entries):
        if kind in ("T", "R", "X", "J", "G") and val:
            for j in range(len(val)):
                yield emit(entries[:i] + [(idx, kind, val[:j] + val[j + 1:])] + entries[i + 1:])
        if kind in ("s", "b") and len(val) > 1:
            for cand in (val[: len(val) // 2], val[len(val) // 2:], val[1:], val[:-1]):
                yield emit(entries[:i] + [(idx, kind, cand)] + entries[i + 1:])
        if kind == "T":
            for j, st in enumerate(val):
                if st[0] in ("A", "S") and len(st[2]) > 1:
                    for cand in (st[2][: len(st[2]) // 2], st[2][1:], st[2][:-1]):
                        nv = val[:j] + [(st[0], st[1], cand)] + val[j + 1:]
                        yield emit(entries[:i] + [(idx, kind, nv)] + entries[i + 1:])


# ----------------------------------------------------------------------------------------------------------------
# generators
# ----------------------------------------------------------------------------------------------------------------
PRINTABLE = bytes(c for c in range(0x20, 0x7F) if c != 0x5C)
NASTY_TEXT = [b'"', b"'", b"#", b";", b"{", b"}", b" ", b"  ", b'""', b"/*", b"$", b"%", b"set ", b"}\"", b"\"#", b"x;\"y",
              b"\\", b"\\\\", b"\\\"", b"\\'", b"\\n", b"\\x41", b"\\u0041", b"\n", b"\r", b"\t", b"\x01", b"\x1b", b"\x7f", b"\x80", b"\xa0",
              b"\xe9", b"\xff", b"\\\n", b"'\"", b"\\;"]
NASTY_BYTES = [b'"', b"\\", b"'", b"\x00", b"\xff", b"\n", b"\r", b"\t", b"\\\"", b"\\\\", b"\\'", b"#", b";", b"{", b"}", b"\x7f", b"\x80",
               b"\\x41", b"\\n", b": ", b"=", b" ", b"\\u0041", b"\x1b", b"\xe9"]


def gen_text(rng, allow_empty=True) -> bytes:
    n = rng.choice([0, 1, 1, 2, 3, 5, 8, 13, 40] if allow_empty else [1, 1, 2, 3, 5, 8, 13, 40])
    out = b""
    for _ in range(n):
        out += rng.choice(NASTY_TEXT) if rng.random() < 0.25 else bytes([rng.choice(PRINTABLE)])
    return out


def gen_bytes(rng) -> bytes:
    n = rng.choice([0, 0, 1, 1, 2, 3, 5, 8, 21])
    out = b""
    for _ in range(n):
        r = rng.random()
        if r < 0.4:
            out += rng.choice(NASTY_BYTES)
        elif r < 0.7:
            out += bytes([rng.choice(PRINTABLE)])
        else:
            out += bytes([rng.randrange(256)])
    return out


URI_CHARS = b"abcXYZ09_-./%\"' \\\\#;\n\t\x01\x7f\xe9\xff"


def gen_uri(rng) -> bytes:
    r = rng.random()
    if r < 0.12:
        return b""                                       # `a.com,` : an empty URI
    return (b"/" if r < 0.9 else b"") + bytes(rng.choice(URI_CHARS) for _ in range(rng.choice([0, 1, 3, 8])))


def gen_domains(rng, wf=True) -> bytes:
    """`domain,uri,domain,uri,…`; odd field counts (the last URI is missing -> None), empty values and repeated URIs are ordinary"""
    n = rng.choice([1, 1, 2, 3])
    uris = [gen_uri(rng) for _ in range(n)]
    if n > 1 and rng.random() < 0.5:
        uris[-1] = uris[0]
    parts = []
    for i, u in enumerate(uris):
        parts += [b"d%d.example.com" % i if rng.random() < 0.9 else b"", u]
    r = rng.random()
    if r < 0.2:
        parts = parts[:-1]                               # odd number of fields
    elif r < 0.25:
        parts = []                                       # empty setting: [('', None)]
    return b",".join(parts)


def gen_static(rng):
    i = rng.randrange(3)
    r = rng.random()
    if r < 0.6:
        sep = b": " if i < 2 else b"="
        v = gen_bytes(rng)[:6] + sep + gen_bytes(rng)
    else:
        v = gen_bytes(rng)
    return ("S", i, v)


def gen_group(rng, name, wf=True):
    steps = [("B", name)]
    for _ in range(rng.choice([0, 1, 2, 3, 5])):
        if rng.random() < 0.5:
            steps.append(("E", rng.choice([0, 1, 2, 3, 6])))
        else:
            steps.append(("A", rng.choice([2, 3]), gen_bytes(rng)))
        if rng.random() < 0.15:
            steps.append(gen_static(rng))
    term = ("E", rng.choice([4, 5])) if rng.random() < 0.5 else ("A", rng.choice([0, 1]), gen_bytes(rng))
    if wf:
        steps.append(term)
    else:
        r = rng.random()
        if r < 0.3:
            pass                                       # no termination
        elif r < 0.6:
            steps += [term, ("E", 5)]                  # two terminations
        else:
            steps.insert(1, term)                      # termination first
            steps.append(("E", 0))
    return steps


def gen_program(rng, idx, wf=True):
    builds = [b"metadata", b"output"] if idx == 12 else [b"id", b"output"]
    prog = [gen_static(rng) for _ in range(rng.choice([0, 0, 1, 2, 4]))]
    order = builds[:]
    rng.shuffle(order)
    order = order[: rng.choice([1, 2, 2])]
    bad = None if wf else rng.choice(["group", "pre", "dup", "unknown", "nobuild"])
    for name in order:
        prog += gen_group(rng, name, wf=(bad != "group"))
    if bad == "pre":
        prog.insert(0, ("E", rng.randrange(7)))
    elif bad == "dup":
        prog += gen_group(rng, order[0])
    elif bad == "unknown":
        prog += gen_group(rng, b"UNKNOWN BUILD ARG")
    elif bad == "nobuild":
        prog = [s for s in prog if s[0] != "B"]
    return prog


def gen_recover(rng, wf=True):
    steps = []
    for _ in range(rng.choice([0, 1, 2, 4, 6])):
        r = rng.random()
        if r < 0.3:
            steps.append(("a", rng.choice([0, 1, 2, 7, 100])))
        elif r < 0.6:
            steps.append(("p", rng.choice([0, 1, 3, 50, 981])))
        else:
            steps.append(("f", rng.choice([0, 2, 3, 4, 5])))
    nprint = 1 if wf else rng.choice([0, 2])
    for _ in range(nprint):
        steps.insert(rng.choice([0, 0, len(steps)]) if steps else 0, ("f", 1))
    return steps


NASTY_NAME = [b"\\", b"\\\\", b"\\\"", b"\\'", b"\\n", b"\\x41", b"\\u0041", b"C:\\w\\", b'"', b"'", b"\n", b"\r", b"\t", b"\x01", b"\x7f", b"#", b";", b"{}",
              "\u00e9".encode(), "\u00ff".encode(), "\u0100".encode(), "\u20ac".encode(), "\U0001f600".encode(), "\u0080".encode()]


def gen_exec_item(rng, nasty=None):
    while True:
        it = _gen_exec_item(rng, nasty)
        try:
            enc_exec([it])
            return it
        except ValueError:                                # e.g. a function name ending in `+0x0`: not a producible text
            continue


def _gen_exec_item(rng, nasty=None):
    """an execute item as the UTF-8 bytes of the text parse_execute_list produces; module / function names: any valid UTF-8 text
    without NUL (parse_execute_list strips trailing NULs), the module without `!`"""
    r = rng.random()
    if r < 0.6 and not nasty:
        return rng.choice(list(EXEC_OP)).encode()
    name = rng.choice(["CreateThread", "CreateRemoteThread"])
    mod = bytes(rng.choice(b"abcdll.32_\"' #;") for _ in range(rng.choice([0, 1, 5, 9])))
    fn = bytes(rng.choice(b"ABCfoo!+09x\"';") for _ in range(rng.choice([0, 1, 4, 12])))
    if nasty or (nasty is None and rng.random() < 0.5):   # backslashes, quotes, control characters, multi-byte UTF-8
        for _ in range(rng.choice([1, 1, 2, 3])):
            esc = rng.choice(NASTY_NAME)
            if rng.random() < 0.5:
                pos = rng.randrange(len(mod) + 1)
                while pos < len(mod) and (mod[pos] & 0xC0) == 0x80:      # keep multi-byte characters whole
                    pos += 1
                mod = mod[:pos] + esc + mod[pos:]
            else:
                pos = rng.randrange(len(fn) + 1)
                while pos < len(fn) and (fn[pos] & 0xC0) == 0x80:
                    pos += 1
                fn = fn[:pos] + esc + fn[pos:]
    off = rng.choice([0, 0, 1, 0x10, 0x2285, 0xFFFF])
    return name.encode() + b' "' + mod + b"!" + fn + ((b"+0x%x" % off) if off else b"") + b'"'


def gen_gate_random(rng):
    on = [f for f in GATE_FIELDS if rng.random() < rng.choice([0.1, 0.5, 0.9])]
    return gate_pretty(on)


def gate_pretty(on):
    """independent rendering of beacon_gate_options_string for a set of enabled APIs"""
    on = set(on)
    ret = []
    if on >= set(GATE_FIELDS):
        return [b"All"]
    for g in ("Comms", "Core", "Cleanup"):
        if on >= set(GATE_GROUPS[g]):
            ret.append(g.encode())
            on -= set(GATE_GROUPS[g])
    return ret + sorted((n.encode() for n in on), key=lambda s: s.lower())


def gen_value(rng, idx, wf=True):
    """(kind, value) for an understood setting"""
    if idx in (3, 5, 38, 41, 45, 20, 6, 48, 76, 77, 52):
        v = rng.choice([0, 0, 1, 2, 64, 60000, 65535]) if idx != 3 else rng.choice([0, 1, 60000, 4294967295])
        kind = "i2" if v > 65535 or rng.random() < 0.5 else "i1"
        if wf or rng.random() < 0.8:
            return kind, v
        return "b", gen_bytes(rng)
    if idx in (43, 44):
        return rng.choice(["i1", "i2"]), rng.choice([64, 4, 32, 0, 1, 16])
    if idx == 8:
        return "s", gen_domains(rng, wf)
    if idx in TEXT_SETTINGS:
        if idx in (26, 27) and rng.random() < 0.5:
            return "s", rng.choice([b"GET", b"POST", b"PUT"])
        t = gen_text(rng)
        if rng.random() < 0.3:                           # any latin-1 text is well-formed (NUL cannot be stored)
            pos = rng.randrange(len(t) + 1)
            t = t[:pos] + bytes(rng.randrange(1, 256) for _ in range(rng.choice([1, 1, 2, 4]))) + t[pos:]
        return "s", t
    if idx == 19:
        return "s", b"%d.%d.%d.%d" % tuple(rng.choice([0, 1, 8, 127, 255]) for _ in range(4))
    if idx == 16:
        if not wf and rng.random() < 0.5:
            return "n", None
        return "s", rng.choice(list(BOF)).encode()
    if idx in (57, 58):
        return "b", gen_bytes(rng)
    if idx == 11:
        return "R", gen_recover(rng, wf)
    if idx in (12, 13):
        return "T", gen_program(rng, idx, wf)
    if idx in (46, 47):
        shape = rng.choice([2, 2, 2, 1, 0])
        if shape == 2:
            return "J", [("A", gen_bytes(rng)), ("P", gen_bytes(rng))]
        if shape == 1:
            return "J", [("A", gen_bytes(rng))]
        return "J", []
    if idx == 51:
        items = [gen_exec_item(rng) for _ in range(rng.choice([0, 1, 2, 4, 8]))]
        if not wf:                                       # an unknown opcode: the pretty value holds None
            items.insert(rng.randrange(len(items) + 1), None)
        return "X", items
    if idx == 78:
        return "G", gen_gate_random(rng)
    raise ValueError(idx)


def gen_pass(rng):
    r = rng.random()
    if r < 0.4:
        return rng.choice(PASS_INT), rng.choice(["i1", "i2"]), rng.choice([0, 1, 443, 65535])
    if r < 0.6:
        return rng.choice(PASS_TEXT), "s", gen_text(rng)
    return rng.choice(PASS_RAW), "b", C.rbytes(rng, rng.choice([0, 4, 16]))


def gen_config(rng, p=0.5, wf=True, dup=0.0, npass=None):
    idxs = [i for i in UNDERSTOOD if rng.random() < p]
    rng.shuffle(idxs)
    entries = []
    bad_at = None
    if not wf:                                           # one broken setting, among those whose value CAN be ill-formed
        breakable = [j for j, idx in enumerate(idxs) if idx in (11, 12, 13, 51, 16)]
        if not breakable:
            idxs.insert(rng.randrange(len(idxs) + 1), rng.choice([i for i in (11, 12, 13, 51, 16) if i not in idxs]))
            breakable = [j for j, idx in enumerate(idxs) if idx in (11, 12, 13, 51, 16)]
        bad_at = rng.choice(breakable)
    for j, idx in enumerate(idxs):
        k, v = gen_value(rng, idx, wf=(j != bad_at))
        entries.append((idx, k, v))
    for _ in range(rng.choice([0, 0, 1, 3]) if npass is None else npass):
        entries.insert(rng.randrange(len(entries) + 1), gen_pass(rng))
    if dup and entries and rng.random() < dup:
        idx = rng.choice(entries)[0]
        if idx in UNDERSTOOD:
            k, v = gen_value(rng, idx, wf=wf)
            entries.insert(rng.randrange(len(entries) + 1), (idx, k, v))
    # one TLV per pass index at most (their pretty functions are not the subject here)
    seen, out = set(), []
    for e in entries:
        if e[0] not in UNDERSTOOD:
            if e[0] in seen:
                continue
            seen.add(e[0])
        out.append(e)
    return out


def emit(entries, heavy=True, rt=True):
    uris = uris_of(entries)
    payload = enc_payload(uris, entries)
    yield "gen", "gen " + payload
    yield "g-gen", "ggen " + payload
    if heavy:
        if rt:
            yield "rt", "rt " + payload
        yield "chk", "chk " + payload


def corpus_configs():
    """the sample beacons of the repository's test-suite, re-expressed as abstract configurations"""
    out = []
    d = Path(B.__file__).resolve().parent.parent.parent / "tests" / "beacons"
    for f in sorted(d.glob("*.zip")):
        try:
            z = zipfile.ZipFile(f)
            for n in z.namelist():
                data = z.read(n, pwd=b"dissect.cobaltstrike")
                cfg = BeaconConfig.from_bytes(data, xor_keys=[b"\x69", b"\x2e", b"\xaf", b"\xcc"])
                out.append((n, cfg, abstract_of(cfg)))
        except Exception:  # noqa: BLE001
            continue
    return out


def abstract_of(cfg):
    """abstract settings of a real configuration (raw values re-read independently of the pretty functions)"""
    entries = []
    for s in cfg.settings_tuple:
        idx, typ, raw = int(s.index.value), int(s.type.value), bytes(s.value)
        if typ == 1:
            n = int.from_bytes(raw[:2], "big")
            entries.append((idx, "i1", n) if idx != 16 else (idx, "s", [k for k, v in BOF.items() if v == n][0].encode()) if n in BOF.values() else (idx, "n", None))
        elif typ == 2:
            n = int.from_bytes(raw[:4], "big")
            entries.append((idx, "s", b"%d.%d.%d.%d" % tuple(raw[:4])) if idx == 19 else (idx, "i2", n))
        elif idx in TEXT_SETTINGS + [8] + PASS_TEXT:
            entries.append((idx, "s", raw.partition(b"\0")[0]))
        elif idx in (57, 58):
            ln = int.from_bytes(raw[:2], "big")
            entries.append((idx, "b", raw[2:2 + max(ln - 4, 0)] if ln >= 4 else raw[2:]))
        elif idx in (12, 13):
            entries.append((idx, "T", dec_program(raw, idx)))
        elif idx == 11:
            entries.append((idx, "R", dec_recover(raw)))
        elif idx == 51:
            entries.append((idx, "X", dec_exec(raw)))
        elif idx in (46, 47):
            la = int.from_bytes(raw[:4], "big")
            a = raw[4:4 + la]
            lp = int.from_bytes(raw[4 + la:8 + la], "big")
            entries.append((idx, "J", [("A", a), ("P", raw[8 + la:8 + la + lp])]))
        elif idx == 78:
            entries.append((idx, "G", gate_pretty([f for f, v in zip(GATE_FIELDS, raw) if v])))
        else:
            entries.append((idx, "b", raw))
    return entries


def dec_program(raw, idx):
    dflt = {12: b"metadata", 13: b"id"}[idx]
    out, i = [], 0
    while i + 4 <= len(raw):
        op = int.from_bytes(raw[i:i + 4], "big")
        i += 4
        if op == 0:
            break
        if op == 7:
            t = int.from_bytes(raw[i:i + 4], "big")
            i += 4
            out.append(("B", dflt if t == 0 else b"output" if t == 1 else b"UNKNOWN BUILD ARG"))
        elif op in EN_OP:
            out.append(("E", EN_OP.index(op)))
        elif op in ARG_OP or op in STATIC_OP:
            ln = int.from_bytes(raw[i:i + 4], "big")
            i += 4
            v = raw[i:i + ln]
            i += ln
            out.append(("A", ARG_OP.index(op), v) if op in ARG_OP else ("S", STATIC_OP.index(op), v))
    return out


def dec_recover(raw):
    out, i = [], 0
    while i + 4 <= len(raw):
        op = int.from_bytes(raw[i:i + 4], "big")
        i += 4
        if op == 0:
            break
        if op in (1, 2):
            out.append(("a" if op == 1 else "p", int.from_bytes(raw[i:i + 4], "big")))
            i += 4
        elif op in RFLAG_OP:
            out.append(("f", RFLAG_OP.index(op)))
    return out


def dec_exec(raw):
    out, i = [], 0
    rev = {v: k for k, v in EXEC_OP.items()}
    while i < len(raw) and raw[i] != 0:
        op = raw[i]
        i += 1
        if op in (6, 7):
            off = int.from_bytes(raw[i:i + 2], "big")
            i += 2
            l1 = int.from_bytes(raw[i:i + 4], "big")
            i += 4
            mod = raw[i:i + l1].rstrip(b"\0")
            i += l1
            l2 = int.from_bytes(raw[i:i + 4], "big")
            i += 4
            fn = raw[i:i + l2].rstrip(b"\0")
            i += l2
            name = b"CreateThread" if op == 6 else b"CreateRemoteThread"
            out.append(name + b' "' + mod + b"!" + fn + ((b"+0x%x" % off) if off else b"") + b'"')
        else:
            out.append(rev[op].encode() if op in rev else None)
    return out


def gen(tier, rng, shard, nshards):
    thorough = tier == "thorough"
    k = 0

    def mine():
        nonlocal k
        k += 1
        return (k % nshards) == shard

    # ---- corpus: the sample beacons (every shard's share) --------------------------------------------------
    for _name, _cfg, entries in corpus_configs():
        if mine():
            yield from emit(entries)

    # ---- single-setting configurations: every understood setting, typical / zero / nasty values ------------
    for idx in UNDERSTOOD:
        for rep in range(6 if thorough else 3):
            if not mine():
                continue
            kind, v = gen_value(rng, idx)
            yield from emit([(idx, kind, v)])
    # guards: zero and non-zero explicitly
    for idx in (41, 45, 48, 77, 52, 38, 5):
        for v in (0, 1, 64):
            if mine():
                yield from emit([(idx, "i1", v)])
    for idx in (43, 44):
        for v in (64, 4, 32, 0, 65):
            if mine():
                yield from emit([(idx, rng.choice(["i1", "i2"]), v)])
    for idx in (57, 58):
        for v in (b"", b"\x00", b'a"\\b', b"\\", b"\x80\xff"):
            if mine():
                yield from emit([(idx, "b", v)])
    for v in (b"", b"8.8.8.8", b'a"b', b"8.8.8.8\n1.1.1.1", b"a\\", b"\\\"", b"x\r\ny", b"\xe9\xff", b"#;{}"):
        if mine():
            yield from emit([(66, "s", v)])
    # text options: the characters the str path of value_to_string mishandled
    for idx in (9, 10, 26, 29, 60, 65):
        for v in (b"\\", b"a\\", b"\\\"", b"a\\nb", b"\\'", b"a\nb", b"\x01\x7f\x80\xff", b'"', b"\\\\", b"\\x41", b"caf\xe9"):
            if mine():
                yield from emit([(idx, "s", v)])
    for name in list(BOF) + [None]:
        if mine():
            yield from emit([(16, "s", name.encode())] if name else [(16, "n", None)])

    # ---- transform programs: every opcode in every role, nasty arguments -------------------------------------
    for idx, builds in ((12, [b"metadata", b"output"]), (13, [b"id", b"output"])):
        for bname in builds:
            for term in [("E", 4), ("E", 5), ("A", 0, b"Cookie"), ("A", 1, b"id")]:
                for step in [("E", 0), ("E", 1), ("E", 2), ("E", 3), ("E", 6), ("A", 2, b"x"), ("A", 3, b"y"), None]:
                    if not mine():
                        continue
                    prog = [("B", bname)] + ([step] if step else []) + [term]
                    yield from emit([(idx, "T", prog)])
        for arg in NASTY_BYTES + [b"", b'a"b\\c\x00\xff']:
            if not mine():
                continue
            prog = [("S", 0, arg + b": " + arg), ("S", 1, arg), ("S", 2, arg + b"=" + arg), ("B", builds[0]), ("A", 3, arg), ("A", 2, arg),
                    ("A", rng.choice([0, 1]), arg)]
            yield from emit([(idx, "T", prog)])
    # ---- recover programs ------------------------------------------------------------------------------------------
    for st in [("a", 0), ("a", 3), ("p", 0), ("p", 5), ("f", 0), ("f", 2), ("f", 3), ("f", 4), ("f", 5)]:
        for pos in (0, 1):
            if mine():
                prog = [st]
                prog.insert(pos, ("f", 1))
                yield from emit([(11, "R", prog)])
    for prog in ([], [("f", 1)], [("f", 0)], [("f", 1), ("f", 1)]):
        if mine():
            yield from emit([(11, "R", prog)])
    # ---- execute lists ------------------------------------------------------------------------------------------------
    names = [n.encode() for n in EXEC_OP]
    for n in names:
        if mine():
            yield from emit([(51, "X", [n])])
    for sp in (b'CreateThread "ntdll!RtlUserThreadStart+0x2285"', b'CreateRemoteThread "kernel32.dll!LoadLibraryA"', b'CreateThread "!"',
               b'CreateRemoteThread "a b!c d+0x1"', b'CreateThread "q\"uote!x"', b'CreateThread "C:\\w\\x.dll!f"', b'CreateThread "a\\"!f"',
               b'CreateRemoteThread "a!f\\"', b'CreateThread "a\\nb!f+0x10"', b"CreateThread \"a\\'b!f\"", b'CreateThread "a\\x.dll!f"',
               b'CreateThread "\\\\!\\\\+0x1"', b'CreateRemoteThread "a\nb!c\td"', 'CreateThread "caf\u00e9.dll!\u20ac\U0001f600+0xffff"'.encode(),
               'CreateRemoteThread "\u0100!\u00ff"'.encode(), b'CreateThread "\"!\""', b'CreateThread "a!f+0x"'):
        if mine():
            yield from emit([(51, "X", [sp])])
            yield from emit([(51, "X", names + [sp])])
    if mine():
        yield from emit([(51, "X", names[:3] + [None])])
        yield from emit([(51, "X", [])])
    # ---- BeaconGate: all single flags, group complements, groups, all, none -----------------------------------------------
    vectors = [[f] for f in GATE_FIELDS] + [[f for f in GATE_FIELDS if f != g] for g in GATE_FIELDS]
    vectors += [list(v) for v in GATE_GROUPS.values()] + [GATE_GROUPS["Comms"] + GATE_GROUPS["Cleanup"], GATE_GROUPS["Core"] + ["ExitThread"], []]
    for on in vectors:
        if mine():
            yield from emit([(78, "G", gate_pretty(on))])
    # ---- domains / uris ---------------------------------------------------------------------------------------------------------
    for dom in (b"a.com,/x", b"a.com,/x,b.com,/y", b"a.com,/x,b.com,/x", b"a.com", b"", b"a.com,/x,b.com", b'a.com,/q"x', b"a.com,/b\\s",
                b"a.com,", b"a.com,,b.com,/y", b"a.com,/x,b.com,", b",", b",,", b"a.com,/x\\", b"a.com,\\\"", b"a.com,/\xe9\n", b"a.com,,b.com",
                b"a.com,/x,b.com,/y,c.com", b"a.com, ,b.com,"):
        if mine():
            yield from emit([(8, "s", dom)])

    # ---- all settings present / random subsets and orders --------------------------------------------------------------------
    n_all = (60 if thorough else 12)
    for i in range(n_all):
        if mine():
            yield from emit(gen_config(rng, p=1.0))
    n_rand = (9000 if thorough else 1200) // nshards
    for i in range(n_rand):
        yield from emit(gen_config(rng, p=rng.choice([0.5, 0.5, 0.5, 0.15, 0.85]), dup=0.2))
    # small configurations (2-4 settings): order and block-placement interactions at volume
    n_small = (12000 if thorough else 2000) // nshards
    for i in range(n_small):
        yield from emit(gen_config(rng, p=rng.choice([0.05, 0.08, 0.12]), dup=0.1))
    # ---- not well-formed: one broken setting per configuration (malformed programs, None items, execute backslashes, undefined enum) --
    n_bad = (4000 if thorough else 900) // nshards
    for i in range(n_bad):
        yield from emit(gen_config(rng, p=rng.choice([0.1, 0.3, 0.5]), wf=False))
    # ---- tree-only volume ---------------------------------------------------------------------------------------------------------
    n_cheap = (40000 if thorough else 5000) // nshards
    for i in range(n_cheap):
        yield from emit(gen_config(rng, p=rng.choice([0.1, 0.5, 0.9]), wf=rng.random() < 0.8, dup=0.3), heavy=False)
    # ---- the translated definition on values of other kinds; the run-time operations added for it ------------------------------------
    for i in range((12000 if thorough else 1600) // nshards):
        yield "g-arg", pyuval_t13.garg_case(rng)
    for i in range((20000 if thorough else 2400) // nshards):
        yield "pyu", pyuval_t13.case(rng)


def extra_checks(tier, rng, lean):
    """the real configurations of the sample beacons give the same tree as their re-encoded abstract form"""
    out = []
    for name, cfg, entries in corpus_configs():
        try:
            a = C2Profile.from_beacon_config(cfg).tree
            b_ = C2Profile.from_beacon_config(BeaconConfig(b"".join(tlv_of(*e) for e in entries))).tree
            ok = enc_tree(a) == enc_tree(b_)
        except Exception as e:  # noqa: BLE001
            ok = False
        if not ok:
            out.append({"stream": "gen", "line": "gen " + enc_payload(uris_of(entries), entries), "impl": "tree of the original block",
                        "model": "tree of the re-encoded block", "note": f"sample beacon {name}: re-encoding changes the generated tree"})
    return out
